// Command cadcheck decides structural necessary conditions of the Cadence
// properties by static analysis of /repo's current source.
package main

import (
	"flag"
	"fmt"
	"os"
	"path/filepath"
	"runtime/debug"
	"sort"
	"strings"

	"cadcheck/core"
	"cadcheck/rules"
)

func main() {
	repo := flag.String("repo", "/repo", "repository root to analyse")
	prop := flag.String("property", "", "property id (C01…), comma separated, or 'all'")
	tier := flag.String("tier", "quick", "quick|thorough")
	verif := flag.String("verif", "/verif", "verif directory (evidence, known findings)")
	evdir := flag.String("evidence", "", "evidence directory (default <verif>/evidence)")
	list := flag.Bool("list", false, "list implemented properties")
	flag.Parse()
	if *evdir == "" {
		*evdir = filepath.Join(*verif, "evidence")
	}
	if *list {
		ids := rules.IDs()
		fmt.Println(strings.Join(ids, " "))
		return
	}
	var ids []string
	if *prop == "all" {
		ids = rules.IDs()
	} else {
		ids = strings.Split(*prop, ",")
	}
	sort.Strings(ids)
	for _, id := range ids {
		if rules.Get(id) == nil {
			fmt.Printf("unknown property %q\n", id)
			os.Exit(2)
		}
	}
	known, err := core.LoadKnown(filepath.Join(*verif, "known_findings.json"))
	if err != nil {
		fmt.Printf("cannot read known findings: %v\n", err)
		os.Exit(2)
	}
	w, err := core.Load(*repo, "")
	exit := 0
	if err != nil || len(w.LoadErrors) > 0 {
		// fail closed: a tree that does not load or type-check is undecided for every property
		for _, id := range ids {
			r := core.NewRun(id, *tier, w, known)
			msg := fmt.Sprint(err)
			if w != nil && len(w.LoadErrors) > 0 {
				msg = strings.Join(w.LoadErrors[:min(3, len(w.LoadErrors))], "; ")
			}
			r.Explanation = "load failed"
			r.Undecided("load", "packages", msg)
			if c := r.Finish(*evdir, strings.Join(os.Args, " "), nil); c > exit {
				exit = c
			}
		}
		os.Exit(exit)
	}
	for _, id := range ids {
		r := core.NewRun(id, *tier, w, known)
		r.VerifDir = *verif
		func() {
			defer func() {
				if x := recover(); x != nil {
					r.Undecided("analyzer-panic", id, fmt.Sprintf("%v\n%s", x, core.Short(string(debug.Stack()))))
				}
			}()
			rules.Get(id)(r)
		}()
		stats := map[string]any{
			"packages":           len(w.Roots),
			"functions_in_scope": len(w.SrcFuncs()),
		}
		if c := r.Finish(*evdir, strings.Join(os.Args, " "), stats); c > exit {
			exit = c
		}
	}
	os.Exit(exit)
}
