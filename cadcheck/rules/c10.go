package rules

import (
	"go/ast"
	"go/token"
	"go/types"
	"strings"

	"golang.org/x/tools/go/ssa"

	"cadcheck/core"
)

func init() { register("C10", c10) }

// storesField: instruction stores into the named field of a struct reached through a pointer.
func storesField(in ssa.Instruction, field string) bool {
	st, ok := in.(*ssa.Store)
	if !ok {
		return false
	}
	fa, ok := st.Addr.(*ssa.FieldAddr)
	if !ok {
		return false
	}
	pt, ok := fa.X.Type().Underlying().(*types.Pointer)
	if !ok {
		return false
	}
	s, ok := pt.Elem().Underlying().(*types.Struct)
	return ok && s.Field(fa.Field).Name() == field
}

func c10(r *core.Run) {
	r.Explanation = "Decided clauses: (R1) interpreter visitFunctionBody: the pre-condition evaluation precedes the body call on every path, and every return after the body passes the post-condition evaluation (after `result` is declared); " +
		"(R2) interpreter: the loop that gathers condition wrappers over a composite's/interface's functions has no early exit (every function is considered), and composite/interface declaration reaches it; " +
		"(R3) compiler: desugarFunctionBlock reaches desugarPreConditions and desugarPostConditions, composite/interface desugaring collects inherited conditions, and compileFunctionBlock restores the enclosing function's post-condition index on every exit after changing it " +
		"(a nested function cannot disable the enclosing function's post-conditions); every `return` compiles to a jump to the post-conditions when the function has any; " +
		"(R4) the interpreter's wrapper builders return without a wrapper only on their reviewed grounds; (R5) the compiler collects inherited conditions for every function and every special function of every interface."
	r.NotDecided = "outcome equivalence of the two engines per program (C34); correctness of the post-condition rewrite (`before` extraction)."
	w := r.W
	named := func(n string) func(*types.Func) bool {
		return func(o *types.Func) bool { return o != nil && o.Name() == n }
	}

	// R1
	if fn := mustFn(r, "R1.order", "interpreter", "Interpreter", "visitFunctionBody"); fn != nil {
		conds := core.CallsTo(fn, false, named("visitConditions"))
		var bodyCall ssa.CallInstruction
		for _, c := range core.Calls(fn, false) {
			if p, ok := c.Common().Value.(*ssa.Parameter); ok && p.Name() == "body" {
				bodyCall = c
			}
		}
		if len(conds) != 2 || bodyCall == nil {
			r.Undecided("R1.order", "interpreter.(Interpreter).visitFunctionBody", "expected two visitConditions calls and one call of the body parameter")
		} else {
			pre, post := conds[0], conds[1]
			if core.Dominates(post, pre) {
				pre, post = post, pre
			}
			r.Check(core.Dominates(pre, bodyCall), "R1.order", "interpreter.(Interpreter).visitFunctionBody: pre-conditions before the body", posOf(pre),
				"visitConditions(pre) dominates the body call", "the function body can run before (or without) its pre-conditions")
			// kind arguments
			kindOK := func(c ssa.CallInstruction, want string) bool {
				args := c.Common().Args
				k, ok := args[len(args)-1].(*ssa.Const)
				return ok && k.Value != nil && k.Value.ExactString() == constOfRel(w, "ast", want)
			}
			r.Check(kindOK(pre, "ConditionKindPre") && kindOK(post, "ConditionKindPost"), "R1.order", "interpreter.(Interpreter).visitFunctionBody: condition kinds", posOf(pre),
				"first evaluation is kind pre, second kind post", "the pre/post condition kinds passed to visitConditions are swapped or changed")
			ok := true
			for _, ret := range core.Returns(fn) {
				if core.ReachableAfter(bodyCall, ret) && !core.MustPass(ret, func(in ssa.Instruction) bool { return in == post.(ssa.Instruction) }) {
					ok = false
				}
			}
			r.Check(ok, "R1.order", "interpreter.(Interpreter).visitFunctionBody: post-conditions before every return after the body", posOf(post),
				"every return reachable after the body passes visitConditions(post)", "a return after the body skips the post-conditions")
			// result declared before post-conditions when the function returns a value
			decl := core.CallsTo(fn, false, named("declareVariable"))
			r.Check(len(decl) >= 1 && core.ReachableAfter(decl[0], post) && !core.ReachableAfter(post, decl[0]), "R1.order", "interpreter.(Interpreter).visitFunctionBody: result declared before post-conditions", posOf(post),
				"declareVariable(result) precedes the post-conditions", "`result` is not declared before the post-conditions run")
		}
	}
	r.Floor("R1.order", 4)

	// R2 wrappers loop has no early exit
	for _, name := range []string{"functionWrappers"} {
		fo := w.FuncObj("interpreter", "Interpreter", name)
		fd, _ := w.Decl(fo)
		if fd == nil {
			r.Undecided("R2.inherited", "interpreter.(Interpreter)."+name, "does not resolve")
			continue
		}
		bad := token.NoPos
		loops := 0
		ast.Inspect(fd.Body, func(n ast.Node) bool {
			rs, ok := n.(*ast.RangeStmt)
			if !ok {
				return true
			}
			loops++
			ast.Inspect(rs.Body, func(m ast.Node) bool {
				switch x := m.(type) {
				case *ast.BranchStmt:
					if x.Tok == token.BREAK || x.Tok == token.GOTO {
						bad = x.Pos()
					}
				case *ast.ReturnStmt:
					bad = x.Pos()
				case *ast.FuncLit:
					return false
				}
				return true
			})
			return true
		})
		r.Check(loops > 0 && !bad.IsValid(), "R2.inherited", "interpreter.(Interpreter)."+name+": every function is considered", fd.Pos(),
			"the loop over the declared functions has no break/return", "the loop that registers condition wrappers exits early: functions declared later lose their inherited conditions")
		if fn := w.Fn("interpreter", "Interpreter", name); fn != nil {
			census(r, "R2.inherited", fn, "functionConditionsWrapper", named("functionConditionsWrapper"), 1)
		}
	}
	for _, caller := range []string{"declareInterface", "declareNonEnumCompositeValue"} {
		if fn := w.Fn("interpreter", "Interpreter", caller); fn != nil {
			census(r, "R2.inherited", fn, "functionWrappers", named("functionWrappers"), 2)
		} else {
			r.Note("census anchor interpreter.(Interpreter).%s not found", caller)
		}
	}
	r.Floor("R2.inherited", 3)

	// R3 compiler
	if fn := mustFn(r, "R3.compiler", "bbq/compiler", "Desugar", "desugarFunctionBlock"); fn != nil {
		census(r, "R3.compiler", fn, "desugarPreConditions", named("desugarPreConditions"), 1)
		census(r, "R3.compiler", fn, "desugarPostConditions", named("desugarPostConditions"), 1)
	}
	for _, v := range []string{"VisitCompositeDeclaration", "VisitAttachmentDeclaration"} {
		if fn := w.Fn("bbq/compiler", "Desugar", v); fn != nil {
			census(r, "R3.compiler", fn, "inheritedFunctionsWithConditionsAndEvents", named("inheritedFunctionsWithConditionsAndEvents"), 2)
		}
	}
	// save/restore of postConditionsIndex
	var cfb *ssa.Function
	for _, f := range w.SrcFuncsIn("bbq/compiler") {
		if f.Parent() == nil && f.Name() == "compileFunctionBlock" {
			cfb = f
		}
	}
	if cfb == nil {
		r.Undecided("R3.compiler", "bbq/compiler.(Compiler).compileFunctionBlock", "does not resolve")
	} else {
		isRestore := func(in ssa.Instruction) bool {
			d, ok := in.(*ssa.Defer)
			if !ok {
				return false
			}
			restores := false
			lit := d.Call.StaticCallee()
			if mc, ok := d.Call.Value.(*ssa.MakeClosure); ok {
				lit = mc.Fn.(*ssa.Function)
			}
			if lit != nil {
				core.Instrs(lit, true, func(x ssa.Instruction) {
					if storesField(x, "postConditionsIndex") {
						restores = true
					}
				})
			}
			return restores
		}
		bad := false
		n := 0
		for _, b := range cfb.Blocks {
			for _, in := range b.Instrs {
				if !storesField(in, "postConditionsIndex") {
					continue
				}
				n++
				// from this store, no return may be reached without passing the restoring defer
				after := false
				esc := core.ReachUnder(cfb, nil, []*ssa.BasicBlock{b}, func(x ssa.Instruction) bool {
					if x == in {
						after = true
					}
					return after && isRestore(x)
				}, isReturn)
				if esc != nil {
					bad = true
				}
			}
		}
		r.Check(n > 0 && !bad, "R3.compiler", "bbq/compiler.(Compiler).compileFunctionBlock: post-condition index restored on every exit", cfb.Pos(),
			"every path from a change of postConditionsIndex to a return registers the restoring defer", "postConditionsIndex can be changed without being restored: compiling a nested function disables the enclosing function's post-conditions")
	}
	r.Floor("R3.compiler", 5)

	// R4 which functions get a condition wrapper: the paths on which the interpreter's wrapper builders return without wrapping
	// (initializerFunctionWrapper, functionConditionsWrapper) keep the conditions of the reviewed ones — an initializer is
	// skipped only if the interface declares none or it has no function block; a function only if it has no conditions
	{
		var fns []*ssa.Function
		for _, n := range []string{"initializerFunctionWrapper", "functionConditionsWrapper"} {
			fns = append(fns, mustFn(r, "R4.skips", "interpreter", "Interpreter", n))
		}
		got := map[string][]string{}
		for _, fn := range fns {
			if fn == nil {
				continue
			}
			// paths that return a nil wrapper
			pg, complete := core.PathGroundsTo(fn, 256, func(ret *ssa.Return) bool {
				if len(ret.Results) != 1 {
					return false
				}
				c, ok := ret.Results[0].(*ssa.Const)
				return ok && c.IsNil()
			})
			if !complete {
				r.Undecided("R4.skips", core.SSAKey(fn), "too many paths")
			}
			got[core.SSAKey(fn)] = core.SimplifyGrounds(pg)
		}
		if genMode() {
			genJSON(r, "c10_skip_grounds", got)
		} else {
			var pinned map[string][]string
			if r.Table("c10_skip_grounds", &pinned) {
				for _, k := range sortedKeys(pinned) {
					for _, c := range got[k] {
						known := false
						for _, pg := range pinned[k] {
							if core.GroundCovers(c, pg) {
								known = true
							}
						}
						r.Check(known, "R4.skips", k+": no wrapper under "+c, 0, "a reviewed ground for not wrapping",
							"the function returns without a condition wrapper on a ground that keeps the conditions of none of the reviewed ones (e.g. an initializer that declares only post-conditions): inherited conditions of that kind are not checked by the interpreter")
					}
				}
			}
		}
	}
	r.Floor("R4.skips", 3)

	// R5 the compiler inherits the conditions of every function and every special function of every interface: in
	// Desugar.inheritedFunctionsWithConditionsAndEvents the collecting call stands in (at least) two member loops and
	// runs on every iteration of each
	if top := mustFn(r, "R5.inheritall", "bbq/compiler", "Desugar", "inheritedFunctionsWithConditionsAndEvents"); top != nil {
		inLoops := 0
		var all []*ssa.Function
		var collect func(f *ssa.Function)
		collect = func(f *ssa.Function) {
			all = append(all, f)
			for _, a := range f.AnonFuncs {
				collect(a)
			}
		}
		collect(top)
		for _, fn := range all {
			inLoops += callsDominateBackEdges(r, "R5.inheritall", fn, func(o *types.Func) bool { return false }, "", "")
			// calls through the local closure `addInheritedFunction`: a call of a function value bound in the enclosing function
			for _, b := range fn.Blocks {
				for _, in := range b.Instrs {
					c, ok := in.(ssa.CallInstruction)
					if !ok || c.Common().IsInvoke() || c.Common().StaticCallee() != nil {
						continue
					}
					if !strings.Contains(core.OriginLeavesVia(c.Common().Value), "closure") && !isLocalClosureCall(c) {
						continue
					}
					// inside a loop and dominating its back edges?
					loops, ok2 := 0, true
					for _, lb := range fn.Blocks {
						for _, h := range lb.Succs {
							if !h.Dominates(lb) || !h.Dominates(b) {
								continue
							}
							if lb != b && !core.ReachableAfter(in, lb.Instrs[len(lb.Instrs)-1]) {
								continue // the call is after this loop, not inside it
							}
							loops++
							if !b.Dominates(lb) {
								ok2 = false
							}
						}
					}
					if loops > 0 && ok2 {
						inLoops++
					}
				}
			}
		}
		r.Check(inLoops >= 2, "R5.inheritall", "bbq/compiler.(Desugar).inheritedFunctionsWithConditionsAndEvents: functions and special functions are all collected", top.Pos(),
			itoa(inLoops)+" unconditional collecting calls inside member loops", "the inherited conditions are no longer collected for every member of every interface ("+itoa(inLoops)+" unconditional collecting call(s) inside member loops, 2 on the reviewed tree): e.g. only the first initializer of the first interface contributes, so the compiled constructor misses the init conditions of sibling or parent interfaces")
	}
	r.Floor("R5.inheritall", 1)
}

func constOfRel(w *core.World, rel, name string) string {
	c, ok := w.Lookup(rel, name).(*types.Const)
	if !ok {
		return ""
	}
	return c.Val().ExactString()
}

// isLocalClosureCall: the callee is a function value created by a MakeClosure of the enclosing function (possibly through a cell).
func isLocalClosureCall(c ssa.CallInstruction) bool {
	v := c.Common().Value
	for d := 0; d < 4; d++ {
		switch x := v.(type) {
		case *ssa.MakeClosure:
			return true
		case *ssa.UnOp:
			if al, ok := x.X.(*ssa.Alloc); ok {
				if refs := al.Referrers(); refs != nil {
					for _, ref := range *refs {
						if st, ok := ref.(*ssa.Store); ok && st.Addr == al {
							if _, isMC := st.Val.(*ssa.MakeClosure); isMC {
								return true
							}
						}
					}
				}
				return false
			}
			if fv, ok := x.X.(*ssa.FreeVar); ok {
				_ = fv
				return true // a captured function variable of the enclosing function
			}
			v = x.X
		default:
			return false
		}
	}
	return false
}
