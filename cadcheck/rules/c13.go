package rules

import (
	"fmt"
	"go/ast"
	"go/token"
	"go/types"
	"strings"

	"cadcheck/core"
)

func init() { register("C13", c13) }

type guardItem struct {
	cond    string
	outcome string // "Overflow", "Underflow", "DivisionByZero", "MAX", "MIN", "?"
	pos     token.Pos
}

// guardList extracts, in source order, every if/else-if link of the function whose body ends in a panic of an
// arithmetic error or in a return of a bound, with its condition printed after alpha-renaming locals.
func guardList(w *core.World, fo *types.Func) ([]guardItem, bool) {
	fd, pkg := w.Decl(fo)
	if fd == nil {
		return nil, false
	}
	info := pkg.TypesInfo
	names := map[types.Object]string{}
	rename := func(e ast.Expr) string {
		// print expression with locals renamed by first occurrence
		var sb strings.Builder
		var pr func(n ast.Expr)
		pr = func(n ast.Expr) {
			switch x := n.(type) {
			case *ast.Ident:
				obj := info.ObjectOf(x)
				if v, ok := obj.(*types.Var); ok && !v.IsField() && v.Pkg() != nil && v.Parent() != v.Pkg().Scope() {
					nm, ok := names[obj]
					if !ok {
						nm = fmt.Sprintf("$%d", len(names))
						names[obj] = nm
					}
					sb.WriteString(nm)
				} else {
					sb.WriteString(x.Name)
				}
			case *ast.ParenExpr:
				pr(x.X) // parentheses are formatting
			case *ast.BinaryExpr:
				sb.WriteString("(")
				pr(x.X)
				sb.WriteString(" " + x.Op.String() + " ")
				pr(x.Y)
				sb.WriteString(")")
			case *ast.UnaryExpr:
				sb.WriteString(x.Op.String())
				pr(x.X)
			case *ast.SelectorExpr:
				pr(x.X)
				sb.WriteString("." + x.Sel.Name)
			case *ast.CallExpr:
				pr(x.Fun)
				sb.WriteString("(")
				for i, a := range x.Args {
					if i > 0 {
						sb.WriteString(", ")
					}
					pr(a)
				}
				sb.WriteString(")")
			case *ast.BasicLit:
				sb.WriteString(x.Value)
			default:
				sb.WriteString(types.ExprString(n))
			}
		}
		pr(e)
		return sb.String()
	}
	var out []guardItem
	ast.Inspect(fd.Body, func(n ast.Node) bool {
		ifs, ok := n.(*ast.IfStmt)
		if !ok {
			return true
		}
		thrown, ends := core.EndsInPanicOrReturn(ifs.Body)
		if !ends || thrown == nil || len(ifs.Body.List) != 1 {
			return true
		}
		outcome := ""
		last := ifs.Body.List[0]
		if _, isRet := last.(*ast.ReturnStmt); isRet {
			e := core.StripConv(thrown, info)
			s := types.ExprString(e)
			switch {
			case strings.Contains(s, "Max"):
				outcome = "MAX"
			case strings.Contains(s, "Min"):
				outcome = "MIN"
			default:
				if tv, ok := info.Types[e]; ok && tv.Value != nil && tv.Value.String() == "0" {
					outcome = "MIN"
				}
			}
		} else {
			t := thrown
			if ue, ok := t.(*ast.UnaryExpr); ok && ue.Op == token.AND {
				t = ue.X
			}
			_, tn := core.ExprTypeName(t, info)
			if arithKinds[tn] {
				outcome = strings.TrimSuffix(tn, "Error")
			}
		}
		if outcome == "" {
			return true
		}
		if _, bare := ifs.Cond.(*ast.Ident); bare {
			return true // `if ok { panic(...) }` after a type assertion on a helper's error: not an arithmetic predicate
		}
		out = append(out, guardItem{cond: rename(ifs.Cond), outcome: outcome, pos: ifs.Pos()})
		return true
	})
	return out, true
}

// saturatingSupport reads sema's WithSaturatingFunctions(SaturatingArithmeticSupport{…}) declarations:
// type variable name (e.g. "Int8Type") -> set of supported ops.
func saturatingSupport(r *core.Run) map[string]map[string]bool {
	out := map[string]map[string]bool{}
	p := r.W.Pkg("sema")
	if p == nil {
		return out
	}
	for _, f := range p.Syntax {
		for _, d := range f.Decls {
			gd, ok := d.(*ast.GenDecl)
			if !ok || gd.Tok != token.VAR {
				continue
			}
			for _, sp := range gd.Specs {
				vs := sp.(*ast.ValueSpec)
				if len(vs.Names) != 1 || len(vs.Values) != 1 {
					continue
				}
				ast.Inspect(vs.Values[0], func(n ast.Node) bool {
					cl, ok := n.(*ast.CompositeLit)
					if !ok {
						return true
					}
					if _, tn := core.ExprTypeName(cl, p.TypesInfo); tn != "SaturatingArithmeticSupport" {
						return true
					}
					ops := map[string]bool{}
					for _, el := range cl.Elts {
						if kv, ok := el.(*ast.KeyValueExpr); ok {
							if tv, ok := p.TypesInfo.Types[kv.Value]; ok && tv.Value != nil && tv.Value.String() == "true" {
								ops[kv.Key.(*ast.Ident).Name] = true
							}
						}
					}
					out[vs.Names[0].Name] = ops
					return true
				})
			}
		}
	}
	return out
}

var satOps = map[string]string{"Add": "Plus", "Subtract": "Minus", "Multiply": "Mul", "Divide": "Div"}

func c13(r *core.Run) {
	r.Explanation = "Decided clauses: (R1) for every (type, operation) pair that sema declares saturating (read from the SaturatingArithmeticSupport literals), the guard conditions of SaturatingX " +
		"are the guard conditions of the checked X, in the same order, with outcomes Overflow→return of a Max bound, Underflow→return of a Min bound (or 0), DivisionByZero→DivisionByZeroError; " +
		"(R2) saturating methods raise no Overflow/Underflow kind (Div: exactly DivisionByZero); (R3) a declared pair is implemented by a real body (not the recover-based delegating wrapper and not an unreachable panic); " +
		"(R4) bounds returned are the type's own; (R5) sibling widths agree modulo the family parameters; (R6) the fixed-point saturation helpers map PositiveOverflow→Max and NegativeOverflow→Min of the same family."
	r.NotDecided = "the clamped values themselves; that the shared guard predicates are arithmetically exact (C11)."
	w := r.W
	support := saturatingSupport(r)
	if len(support) < 10 {
		r.Undecided("R3.declared", "sema.SaturatingArithmeticSupport", fmt.Sprintf("only %d declarations found", len(support)))
	}
	latent := map[string]bool{}
	for _, s := range w.RecoverSites() {
		latent[core.SSAKey(s.Decl)] = true
	}
	intTypes := map[string]bool{}
	for _, t := range []string{"Fix64", "UFix64", "Int", "UInt", "Int8", "Int16", "Int32", "Int64", "Int128", "Int256", "UInt8", "UInt16", "UInt32", "UInt64", "UInt128", "UInt256"} {
		intTypes[t] = true
	}
	for _, tv := range sortedKeys(support) {
		tname := strings.TrimSuffix(tv, "Type")
		if !intTypes[tname] {
			continue // fixed-point types: R6
		}
		for _, op := range []string{"Add", "Subtract", "Multiply", "Divide"} {
			if !support[tv][op] {
				continue
			}
			m := satOps[op]
			key := "interpreter.(" + tname + "Value).Saturating" + m
			sat := w.FuncObj("interpreter", tname+"Value", "Saturating"+m)
			chk := w.FuncObj("interpreter", tname+"Value", m)
			if sat == nil || chk == nil {
				r.Undecided("R3.declared", key, "declared saturating member has no implementation method")
				continue
			}
			// R3
			r.Check(!latent[key], "R3.declared", key, sat.Pos(), "declared saturating member has a direct implementation",
				"declared saturating member is implemented by the recover()-based delegating wrapper, which swallows unrelated panics")
			// R2
			want := ""
			if m == "Div" {
				want = kindSet("DivisionByZero")
			}
			if tname == "UFix64" {
				// delegates to values.UFix64Value.SaturatingX and maps the returned error with the generic handleFix64Error,
				// whose panics over-approximate the signature; not decided here
				r.Note("R2.signature not decided for %s (generic error mapper)", key)
			} else {
				signatureRule(r, "R2.signature", tname+"Value", "Saturating"+m, want)
			}
			// R1
			gs, ok1 := guardList(w, sat)
			gc, ok2 := guardList(w, chk)
			if !ok1 || !ok2 {
				r.Undecided("R1.guards", key, "no syntax")
				continue
			}
			if len(gc) == 0 && len(gs) > 0 {
				// the checked operation delegates its predicate to a helper (64-bit safe math, values.IntValue): compare with nothing
				r.OK("R1.guards", key, sat.Pos(), fmt.Sprintf("checked %s delegates its overflow predicate to a helper; saturating body has %d own guards (sibling rule R5 covers them)", m, len(gs)))
				continue
			}
			bad := ""
			if len(gs) != len(gc) {
				bad = fmt.Sprintf("checked %s has %d guards, Saturating%s has %d", m, len(gc), m, len(gs))
			} else {
				for i := range gs {
					exp := map[string]string{"Overflow": "MAX", "Underflow": "MIN", "DivisionByZero": "DivisionByZero"}[gc[i].outcome]
					if gs[i].cond != gc[i].cond {
						bad = fmt.Sprintf("guard %d differs: checked `%s` vs saturating `%s`", i+1, gc[i].cond, gs[i].cond)
						break
					}
					if gs[i].outcome != exp {
						bad = fmt.Sprintf("guard %d `%s`: checked raises %s but saturating yields %s (expected %s)", i+1, gs[i].cond, gc[i].outcome, gs[i].outcome, exp)
						break
					}
				}
			}
			r.Check(bad == "", "R1.guards", key, sat.Pos(), fmt.Sprintf("%d guard(s) identical to checked %s with clamped outcomes", len(gs), m), bad)
		}
	}
	r.Floor("R1.guards", 30)
	r.Floor("R2.signature", 30)
	r.Floor("R3.declared", 30)

	fixSaturation(r)
	all := append(append(append(append([]string{}, signedNative...), signedBig...), unsignedNative...), unsignedBig...)
	satM := []string{"SaturatingPlus", "SaturatingMinus", "SaturatingMul", "SaturatingDiv"}
	ownConstRule(r, "R4.ownconst", []*core.Family{famS, famSB, famU, famUB}, []string{"interpreter"}, func(key string) bool {
		return isMethodOf(key, all, satM...)
	})
	r.Floor("R4.ownconst", 40)
	siblingRule(r, "R5.siblings", []*core.Family{famS, famSB, famU, famUB}, func(g string) bool { return isGroupOf(g, satM...) })
	r.Floor("R5.siblings", 14)
}

const fixPath = "github.com/onflow/fixed-point"

// fixErrorTypes lists the error types the fixed-point library defines.
func fixErrorTypes(r *core.Run) []string {
	p := r.W.ExtPkg(fixPath)
	if p == nil {
		r.Undecided("anchors", fixPath, "fixed-point library not loaded")
		return nil
	}
	var out []string
	sc := p.Types.Scope()
	for _, n := range sc.Names() {
		tn, ok := sc.Lookup(n).(*types.TypeName)
		if !ok {
			continue
		}
		if _, isIface := tn.Type().Underlying().(*types.Interface); isIface {
			continue
		}
		if implEither(tn.Type(), errorIface) {
			out = append(out, n)
		}
	}
	return out
}

// fixSaturation: R6 — the two saturation helpers are exhaustive over the library's error types and clamp to the same family's bounds.
func fixSaturation(r *core.Run) {
	w := r.W
	errs := fixErrorTypes(r)
	for _, h := range []struct{ fn, fam string }{{"fix128SaturationArithmaticResult", "Fix128"}, {"ufix128SaturationArithmaticResult", "UFix128"}} {
		fo := w.FuncObj("interpreter", "", h.fn)
		key := "interpreter." + h.fn
		fd, pkg := w.Decl(fo)
		if fd == nil {
			r.Undecided("R6.fixsat", key, "helper does not resolve")
			continue
		}
		tab, _ := core.TypeSwitchTable(fd, pkg.TypesInfo)
		if tab == nil {
			r.Undecided("R6.fixsat", key, "no type switch over the library error")
			continue
		}
		for _, e := range errs {
			if e == "OutOfDomainErrorError" {
				continue // returned only by the library's transcendental functions (ln/exp/pow on fix192), which Cadence does not call
			}
			_, ok := tab[e]
			r.Check(ok, "R6.fixsat", key+": case "+e, fd.Pos(), "library error type handled explicitly", "fixed-point library error type "+e+" has no case: it would be re-panicked as an unclassified error")
		}
		expect := func(c string, pred func(string) bool, what string) {
			oc := tab[c]
			r.Check(pred(oc), "R6.fixsat", key+": "+c+" -> "+what, fd.Pos(), "outcome "+oc, "case "+c+" has outcome `"+oc+"`, the property requires "+what)
		}
		isBound := func(kind string) func(string) bool {
			return func(oc string) bool {
				if !strings.HasPrefix(oc, "return:") || !strings.Contains(oc, kind) {
					return false
				}
				// same family: the bound names the helper's own type and not the sibling's
				rest := strings.TrimPrefix(oc, "return:")
				if h.fam == "Fix128" {
					return strings.Contains(rest, "Fix128") && !strings.Contains(rest, "UFix128")
				}
				return strings.Contains(rest, "UFix128")
			}
		}
		expect("PositiveOverflowError", isBound("Max"), "return of the type's own Max")
		expect("NegativeOverflowError", isBound("Min"), "return of the type's own Min")
		expect("UnderflowError", func(oc string) bool { return strings.HasPrefix(oc, "return:") && strings.Contains(oc, "Zero") },
			"return of zero (the library reports a result too small to represent; truncation toward zero yields 0)")
		expect("DivisionByZeroError", func(oc string) bool { return oc == "panic:DivisionByZeroError" }, "DivisionByZeroError")
		expect("nil", func(oc string) bool { return strings.HasPrefix(oc, "return:") && !strings.Contains(oc, "M") }, "the unmodified result")
		expect("default", func(oc string) bool { return strings.HasPrefix(oc, "panic:") }, "re-panic")
	}
	r.Floor("R6.fixsat", 16)
	// "truncated as for the plain operator": shared with C15/C16
	euclidRule(r, "R7.truncdiv", isFixArithmetic, 16, 2)
	c13OwnRangePredicate(r, "R8.ownrange")
}

// c13OwnRangePredicate: R8 — OWN engine extended to range predicates: the 64-bit fixed-point and integer value types test
// whether a big intermediate result fits with big.Int.IsUint64 (unsigned types) or IsInt64 (signed types). The predicate
// of the other signedness inside a method of such a type halves (or doubles) the accepted range: the saturating variant
// clamps representable results, or the checked one lets an overflow through.
func c13OwnRangePredicate(r *core.Run, rule string) {
	w := r.W
	foreign := map[string]string{
		"UFix64Value": "IsInt64", "UInt64Value": "IsInt64", "Word64Value": "IsInt64",
		"Fix64Value": "IsUint64", "Int64Value": "IsUint64",
	}
	n := 0
	for _, fn := range w.SrcFuncs() {
		if fn.Parent() != nil || fn.Pkg == nil {
			continue
		}
		pp := fn.Pkg.Pkg.Path()
		if pp != mod+"/interpreter" && pp != mod+"/values" {
			continue
		}
		bad, ok := foreign[core.RecvName0(fn)]
		if !ok {
			continue
		}
		for _, c := range core.Calls(fn, true) {
			sc := c.Common().StaticCallee()
			if sc == nil || sc.Pkg == nil || sc.Pkg.Pkg.Path() != "math/big" || (sc.Name() != "IsInt64" && sc.Name() != "IsUint64") {
				continue
			}
			n++
			key := core.SSAKey(fn) + ": big.Int." + sc.Name()
			r.Check(sc.Name() != bad, rule, key, c.Pos(), "range predicate of the type's own signedness",
				"a method of "+core.RecvName0(fn)+" tests a big result with "+sc.Name()+", the range of the other signedness: representable results are treated as overflow (or overflows accepted)")
		}
	}
	r.Check(n >= 3, rule, "64-bit value types: big-result range predicates", 0, itoa(n)+" found", "fewer range predicates than reviewed")
	r.Floor(rule, 3)
}
