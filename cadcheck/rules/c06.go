package rules

import (
	"go/types"
	"sort"
	"strings"

	"golang.org/x/tools/go/ssa"

	"cadcheck/core"
)

func init() { register("C06", c06) }

func c06(r *core.Run) {
	r.Explanation = "Decided clauses: (R1) direction of every authorization comparison: at each call of Access.PermitsAccess / sema.PermitsAccess / interpreter.PermitsAccess the *required* side " +
		"(member access, super type, cast target, wanted borrow type) is the receiver / first operand and the *possessed* side (the reference's authorization, the sub type) the argument, " +
		"as data-flow origins (parameter index, field path, asserted type, callee) pinned from the reviewed tree — a swapped comparison lets an upcast escalate; the run-time check delegates to the checker's function; " +
		"(R2) IntersectAccess returns only: unauthorized, the conjunction built from the key-set intersection of both operands, or one operand under a superset test by the other; " +
		"(R3) for each pair (kind of the required set, kind of the possessed set) EntitlementSetAccess.PermitsAccess returns the quantifier combination that set semantics require (path summaries with resolved function values); " +
		"(R5) intersectReferenceAuthorizationsInType rebuilds containers only from recursively narrowed parts; " +
		"(R4) EntitlementMapAccess.Image keeps the set kind of its input, admits an output only under relation.Input.Equal(entitlement) (identity only under IncludesIdentity) and keeps the unrepresentable-disjunction guard."
	r.NotDecided = "the algebra on all run-time sets (that the decision functions are right for every pair of sets and every mapping beyond the structural clauses R2–R5); nested-access narrowing in the interpreter beyond the comparison direction."
	c06Direction(r)
	c06Intersect(r)
	c06Quantifiers(r)
	c06Image(r)
	c06Rebuild(r)
}

// c06Direction: R1.
func c06Direction(r *core.Run) {
	const rule = "R1.direction"
	w := r.W
	isPermits := func(o *types.Func) bool {
		if o == nil || o.Pkg() == nil || o.Name() != "PermitsAccess" {
			return false
		}
		p := o.Pkg().Path()
		return p == mod+"/sema" || p == mod+"/interpreter"
	}
	got := map[string][]string{}
	for _, fn := range w.SrcFuncs() {
		if fn.Pkg == nil || !w.InScope(fn.Pkg.Pkg.Path()) {
			continue
		}
		top := fn
		for top.Parent() != nil {
			top = top.Parent()
		}
		for _, c := range core.Calls(fn, false) {
			o := core.Callee(c)
			if !isPermits(o) {
				continue
			}
			cc := c.Common()
			var ops []ssa.Value
			if cc.IsInvoke() {
				ops = append(ops, cc.Value)
			}
			ops = append(ops, cc.Args...)
			// drop a leading context/type-converter operand of the interpreter function
			if o.Pkg().Path() == mod+"/interpreter" && len(ops) == 3 {
				ops = ops[1:]
			}
			if len(ops) != 2 {
				r.Undecided(rule, core.SSAKey(top)+" -> "+core.FuncKey(o), "unexpected operand count")
				continue
			}
			// leaves only (parameters, globals, constants, field names, asserted types): stable under helper extraction,
			// inlining and renaming of intermediate calls
			sig := "required ← " + core.OriginLeaves(ops[0]) + " ; possessed ← " + core.OriginLeaves(ops[1])
			got[core.SSAKey(top)] = append(got[core.SSAKey(top)], sig)
		}
	}
	for k := range got {
		sort.Strings(got[k])
	}
	if genMode() {
		genJSON(r, "c06_direction", got)
		return
	}
	var pinned map[string][]string
	if !r.Table("c06_direction", &pinned) {
		return
	}
	for _, k := range sortedKeys(pinned) {
		have := map[string]int{}
		for _, s := range got[k] {
			have[s]++
		}
		for _, s := range pinned[k] {
			if have[s] > 0 {
				have[s]--
				r.OK(rule, k+": "+s, 0, "operands of the comparison have their reviewed origins")
				continue
			}
			why := "the reviewed comparison is gone from this function"
			if len(got[k]) > 0 {
				why = "the comparison now reads: " + strings.Join(got[k], " // ")
			}
			r.Bad(rule, k+": "+s, 0, "the required and possessed sides of this authorization comparison no longer have their reviewed origins ("+why+"): a swapped or re-sourced comparison lets a less authorized reference pass")
		}
	}
	r.Floor(rule, 15)
}

// paramsIn lists the indices of the top-level parameters a value derives from.
func paramsIn(v ssa.Value) map[int]bool {
	out := map[int]bool{}
	for _, tok := range strings.Fields(strings.Trim(core.OriginLeaves(v), "{}")) {
		if strings.HasPrefix(tok, "param#") {
			n := 0
			for _, ch := range tok[len("param#"):] {
				if ch < '0' || ch > '9' {
					break
				}
				n = n*10 + int(ch-'0')
			}
			out[n] = true
		}
	}
	return out
}

// c06Intersect: R2 — envelope of IntersectAccess ("never grants more than the source authorization").
func c06Intersect(r *core.Run) {
	const rule = "R2.intersect"
	fn := mustFn(r, rule, "sema", "", "IntersectAccess")
	if fn == nil {
		return
	}
	nameOfCallee := func(c ssa.CallInstruction) string {
		if o := core.Callee(c); o != nil {
			return o.Name()
		}
		return ""
	}
	n := 0
	for _, ret := range core.Returns(fn) {
		if len(ret.Results) != 1 {
			continue
		}
		var vals []ssa.Value
		res := core.Unwrap(ret.Results[0])
		if phi, ok := res.(*ssa.Phi); ok {
			for _, e := range phi.Edges {
				vals = append(vals, core.Unwrap(e))
			}
		} else {
			vals = []ssa.Value{res}
		}
		for _, v := range vals {
			n++
			key := "sema.IntersectAccess: result #" + itoa(n)
			switch x := v.(type) {
			case *ssa.UnOp:
				if g, ok := x.X.(*ssa.Global); ok && g.Name() == "UnauthorizedAccess" {
					r.OK(rule, key, ret.Pos(), "unauthorized")
					continue
				}
			case *ssa.Call:
				if nameOfCallee(x) == "NewAccessFromEntitlementOrderedSet" && len(x.Call.Args) == 2 {
					inner, _ := core.Unwrap(x.Call.Args[0]).(*ssa.Call)
					kind := core.OriginLeaves(x.Call.Args[1])
					if inner != nil && nameOfCallee(inner) == "KeySetIntersection" {
						ps := paramsIn(inner)
						r.Check(ps[0] && ps[1] && strings.Contains(kind, "const:"), rule, key, ret.Pos(), "conjunction of the key-set intersection of both operands",
							"the intersection is not taken over both operands (or its kind is not a constant): the result may contain entitlements one side does not guarantee")
						continue
					}
				}
			}
			// one operand returned as is: only under a superset test by the other operand
			ps := paramsIn(v)
			if len(ps) == 1 {
				self := 0
				for k := range ps {
					self = k
				}
				ok := false
				for _, a := range core.ControllingConds(ret) {
					call, isCall := a.Var.Call.(*ssa.Call)
					if !isCall || !a.Val || nameOfCallee(call) != "ForAllKeys" {
						continue
					}
					// receiver: the returned operand's entitlements; predicate: Contains of the other operand
					var ops []ssa.Value
					if call.Call.IsInvoke() {
						ops = append(ops, call.Call.Value)
					}
					ops = append(ops, call.Call.Args...)
					if len(ops) != 2 {
						continue
					}
					rp, pp := paramsIn(ops[0]), paramsIn(ops[1])
					mc, isMC := core.Unwrap(ops[1]).(*ssa.MakeClosure)
					if len(rp) == 1 && rp[self] && len(pp) == 1 && pp[1-self] && isMC && strings.HasPrefix(mc.Fn.Name(), "Contains") {
						ok = true
					}
				}
				r.Check(ok, rule, key, ret.Pos(), "an operand is returned only when every one of its options is contained in the other operand",
					"an operand of the intersection is returned without the superset test (its ForAllKeys over the other operand's Contains): the result can grant what the other side does not guarantee")
				continue
			}
			r.Undecided(rule, key, "result of an unrecognised shape: "+core.OriginOf(v))
		}
	}
	r.Floor(rule, 5)
}

// c06Image: R4 — envelope of the mapping image.
func c06Image(r *core.Run) {
	const rule = "R4.image"
	leaves := func(v ssa.Value) string { return core.OriginLeaves(v) }
	condLeaves := func(in ssa.Instruction, want bool) []string {
		var out []string
		for _, a := range core.ControllingConds(in) {
			if a.Var.Call == nil {
				continue
			}
			pol := "+"
			if !a.Val {
				pol = "-"
			}
			name := ""
			if c, ok := a.Var.Call.(*ssa.Call); ok {
				if o := core.Callee(c); o != nil {
					name = o.Name()
				}
			}
			out = append(out, pol+name+leaves(a.Var.Call))
		}
		return out
	}
	if fn := mustFn(r, rule, "sema", "EntitlementMapAccess", "entitlementImage"); fn != nil {
		nset := 0
		for _, c := range core.Calls(fn, true) {
			o := core.Callee(c)
			if o == nil || o.Name() != "Set" || len(c.Common().Args) < 2 {
				continue
			}
			args := c.Common().Args
			keyArg := args[len(args)-2]
			kl := leaves(keyArg)
			nset++
			conds := condLeaves(c, true)
			switch {
			case strings.Contains(kl, ".Output"):
				ok := false
				for _, cl := range conds {
					if strings.HasPrefix(cl, "+Equal") && strings.Contains(cl, ".Input") && strings.Contains(cl, "param#1") {
						ok = true
					}
				}
				r.Check(ok, rule, "sema.(EntitlementMapAccess).entitlementImage: relation output admitted", posOf(c), "only under relation.Input.Equal(entitlement)",
					"an output of the mapping is added to the image without the test that the relation's input is the entitlement being mapped: the image grants outputs of other inputs")
			case strings.Contains(kl, "param#1"):
				ok := false
				for _, cl := range conds {
					if strings.HasPrefix(cl, "+") && strings.Contains(cl, ".IncludesIdentity") {
						ok = true
					}
				}
				r.Check(ok, rule, "sema.(EntitlementMapAccess).entitlementImage: identity admitted", posOf(c), "only under Type.IncludesIdentity",
					"the input entitlement itself is added to its image although the mapping does not include the identity")
			default:
				r.Undecided(rule, "sema.(EntitlementMapAccess).entitlementImage: image member "+kl, "an image member of unrecognised origin")
			}
		}
		r.Check(nset >= 2, rule, "sema.(EntitlementMapAccess).entitlementImage: members", fn.Pos(), "relation outputs and identity are the only members", "the image construction no longer resolves")
	}
	if fn := mustFn(r, rule, "sema", "EntitlementMapAccess", "Image"); fn != nil {
		// the result literal keeps the kind of the input set
		found := false
		core.Instrs(fn, true, func(in ssa.Instruction) {
			st, ok := in.(*ssa.Store)
			if !ok {
				return
			}
			fa, ok := st.Addr.(*ssa.FieldAddr)
			if !ok {
				return
			}
			pt, ok := fa.X.Type().Underlying().(*types.Pointer)
			if !ok {
				return
			}
			if _, tn := core.TypeName(pt.Elem()); tn != "EntitlementSetAccess" {
				return
			}
			s, ok := pt.Elem().Underlying().(*types.Struct)
			if !ok || s.Field(fa.Field).Name() != "SetKind" {
				return
			}
			found = true
			l := leaves(st.Val)
			r.Check(strings.Contains(l, ".SetKind") && strings.Contains(l, "param#2"), rule, "sema.(EntitlementMapAccess).Image: kind of the image", in.Pos(), "the image has the set kind of the input",
				"the image's set kind is not taken from the input set ("+l+"): a disjunction mapped to a conjunction claims every output at once")
		})
		if !found {
			r.Undecided(rule, "sema.(EntitlementMapAccess).Image: kind of the image", "result literal not found")
		}
		// the unrepresentable-disjunction guard
		guard := false
		core.Instrs(fn, true, func(in ssa.Instruction) {
			al, ok := in.(*ssa.Alloc)
			if !ok {
				return
			}
			if _, tn := core.TypeName(al.Type()); tn != "UnrepresentableEntitlementMapOutputError" {
				return
			}
			hasKind, hasLen := false, false
			for _, cl := range condLeaves(al, true) {
				if strings.Contains(cl, ".SetKind") {
					hasKind = true
				}
				if strings.Contains(cl, "Len") || strings.Contains(cl, "const:1") {
					hasLen = true
				}
			}
			if hasKind && hasLen {
				guard = true
			}
		})
		r.Check(guard, rule, "sema.(EntitlementMapAccess).Image: unrepresentable disjunction", fn.Pos(), "a disjunction whose member maps to more than one output is an error",
			"the guard that rejects a disjunctive input whose member has a multi-element image is gone or no longer depends on the set kind and the image size: a disjunction of conjunctions is flattened, granting more than any holder has")
	}
	r.Floor(rule, 5)
}

// c06Quantifiers: R3 — EntitlementSetAccess.PermitsAccess quantifies as the set semantics require. For every pair
// (kind of the required set = receiver, kind of the possessed set = argument) the value returned on the corresponding path is
// described structurally (which set is iterated with which quantifier, and what is asked of each element) and compared with
// the table that follows from the property statement: a conjunction requires every listed entitlement, a disjunction at
// least one; a possessed disjunction guarantees only "one of", so every option must do.
func c06Quantifiers(r *core.Run) {
	const rule = "R3.quantifiers"
	w := r.W
	fn := mustFn(r, rule, "sema", "EntitlementSetAccess", "PermitsAccess")
	if fn == nil || len(fn.Params) < 2 {
		return
	}
	// names of the set kinds by constant value
	kindName := map[string]string{}
	if p := w.Pkg("sema"); p != nil {
		for _, n := range []string{"Conjunction", "Disjunction"} {
			if c, ok := p.Types.Scope().Lookup(n).(*types.Const); ok {
				kindName[c.Val().ExactString()] = n
			}
		}
	}
	role := func(v ssa.Value) string {
		l := core.OriginLeaves(v)
		switch {
		case strings.Contains(l, "param#0:") && !strings.Contains(l, "param#1:"):
			return "required"
		case strings.Contains(l, "param#1:") && !strings.Contains(l, "param#0:"):
			return "possessed"
		}
		return "?"
	}
	var describe func(v ssa.Value, resolve func(ssa.Value) ssa.Value, d int) string
	closureDesc := func(mc *ssa.MakeClosure, d int) string {
		lit, _ := mc.Fn.(*ssa.Function)
		if lit == nil {
			return "?"
		}
		if strings.HasSuffix(lit.Name(), "$bound") {
			recv := "?"
			if len(mc.Bindings) > 0 {
				recv = role(mc.Bindings[0])
			}
			return strings.TrimSuffix(lit.Name(), "$bound") + "@" + recv
		}
		// a function literal: what it returns
		var parts []string
		for _, ret := range core.Returns(lit) {
			if len(ret.Results) == 1 {
				parts = append(parts, describe(ret.Results[0], func(x ssa.Value) ssa.Value { return x }, d+1))
			}
		}
		sort.Strings(parts)
		return "λ{" + strings.Join(uniq(parts), "|") + "}"
	}
	describe = func(v ssa.Value, resolve func(ssa.Value) ssa.Value, d int) string {
		if d > 6 {
			return "…"
		}
		v = resolve(v)
		switch x := v.(type) {
		case *ssa.Const:
			if x.Value != nil {
				return x.Value.ExactString()
			}
		case *ssa.BinOp:
			return x.Op.String()
		case *ssa.MakeClosure:
			return closureDesc(x, d)
		case *ssa.Call:
			var head string
			fv := resolve(x.Call.Value)
			switch f := fv.(type) {
			case *ssa.MakeClosure:
				head = closureDesc(f, d)
			default:
				name := "?"
				if x.Call.IsInvoke() {
					name = x.Call.Method.Name()
				} else if o := core.Callee(x); o != nil {
					name = o.Name()
				}
				recv := "?"
				if x.Call.IsInvoke() {
					recv = role(x.Call.Value)
				} else if len(x.Call.Args) > 0 {
					recv = role(x.Call.Args[0])
				}
				head = name + "@" + recv
			}
			var args []string
			for i, a := range x.Call.Args {
				if i == 0 && !x.Call.IsInvoke() {
					if _, isMC := fv.(*ssa.MakeClosure); !isMC {
						continue // the receiver of a static method call
					}
				}
				ra := resolve(a)
				if _, ok := ra.(*ssa.MakeClosure); ok {
					args = append(args, describe(ra, resolve, d+1))
				}
			}
			return head + "(" + strings.Join(args, ",") + ")"
		}
		return "?" + core.OriginLeaves(v)
	}
	eventOf := func(in ssa.Instruction, resolve func(ssa.Value) ssa.Value) string {
		if ret, ok := in.(*ssa.Return); ok && len(ret.Results) == 1 {
			return "return " + describe(ret.Results[0], resolve, 0)
		}
		return ""
	}
	paths, complete := core.PathSummariesR(fn, 256, eventOf)
	if !complete || len(paths) == 0 {
		r.Undecided(rule, core.SSAKey(fn), "paths cannot be enumerated")
		return
	}
	want := map[[2]string]string{
		{"Conjunction", "Conjunction"}: "return ForAllKeys@required(Contains@possessed)",
		{"Disjunction", "Conjunction"}: "return ForAnyKey@required(Contains@possessed)",
		{"Disjunction", "Disjunction"}: "return ForAllKeys@possessed(Contains@required)",
		{"Conjunction", "Disjunction"}: "return ForAllKeys@possessed(λ{ForAllKeys@required(λ{==})})",
	}
	got := map[[2]string]map[string]bool{}
	for _, p := range paths {
		parts := strings.SplitN(p, " ⇒ ", 2)
		if len(parts) != 2 {
			continue
		}
		req, poss := "", ""
		for _, c := range strings.Split(parts[0], " ∧ ") {
			if !strings.HasPrefix(c, "+==(") || !strings.Contains(c, ".SetKind") {
				continue
			}
			for val, nm := range kindName {
				if strings.Contains(c, "{const:"+val+"}") {
					if strings.Contains(c, "param#0:") {
						req = nm
					} else if strings.Contains(c, "param#1:") {
						poss = nm
					}
				}
			}
		}
		if req == "" || poss == "" {
			continue
		}
		k := [2]string{req, poss}
		if got[k] == nil {
			got[k] = map[string]bool{}
		}
		got[k][parts[1]] = true
	}
	for _, k := range [][2]string{{"Conjunction", "Conjunction"}, {"Disjunction", "Conjunction"}, {"Disjunction", "Disjunction"}, {"Conjunction", "Disjunction"}} {
		outs := sortedKeys(got[k])
		key := "sema.(EntitlementSetAccess).PermitsAccess: required " + k[0] + ", possessed " + k[1]
		ok := len(outs) == 1 && outs[0] == want[k]
		r.Check(ok, rule, key, fn.Pos(), want[k], "the decision for this pair of set kinds is "+strings.Join(outs, " / ")+" instead of "+want[k]+": the requirement is no longer checked per set semantics (a conjunction requires every listed entitlement, a disjunction at least one; a possessed disjunction guarantees only one of its options)")
	}
	r.Floor(rule, 4)
}

// c06Rebuild: R5 — nested-access narrowing rebuilds containers from the narrowed parts: in intersectReferenceAuthorizationsInType
// every type-valued argument of a type constructor comes out of the recursive call (a part taken unchanged from the original
// type keeps the authorization that the outer reference does not grant).
func c06Rebuild(r *core.Run) {
	const rule = "R5.rebuild"
	fn := mustFn(r, rule, "sema", "", "intersectReferenceAuthorizationsInType")
	if fn == nil {
		return
	}
	n := 0
	for _, c := range core.Calls(fn, false) {
		o := core.Callee(c)
		if o == nil || !strings.HasPrefix(o.Name(), "New") || !strings.HasSuffix(o.Name(), "Type") || o.Pkg() == nil || o.Pkg().Path() != mod+"/sema" {
			continue
		}
		for i, a := range c.Common().Args {
			nt, ok := a.Type().(*types.Named)
			if !ok || nt.Obj().Name() != "Type" {
				continue
			}
			n++
			lv := core.OriginLeavesVia(a)
			r.Check(strings.Contains(lv, "via:"+fn.Name()), rule, "sema."+fn.Name()+" -> "+o.Name()+" argument #"+itoa(i), posOf(c), "the part is the result of the recursive narrowing",
				"a container is rebuilt with a part taken unchanged from the original type ("+lv+"): references inside keep an authorization the outer reference does not grant")
		}
	}
	r.Floor(rule, 5)
}
