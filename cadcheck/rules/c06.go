package rules

import (
	"go/types"
	"sort"
	"strings"

	"golang.org/x/tools/go/ssa"

	"cadcheck/core"
)

func init() { register("C06", c06) }

func c06(r *core.Run) {
	r.Explanation = "Decided clauses: (R1) direction of every authorization comparison: at each call of Access.PermitsAccess / sema.PermitsAccess / interpreter.PermitsAccess the *required* side " +
		"(member access, super type, cast target, wanted borrow type) is the receiver / first operand and the *possessed* side (the reference's authorization, the sub type) the argument, " +
		"as data-flow origins (parameter index, field path, asserted type, callee) pinned from the reviewed tree — a swapped comparison lets an upcast escalate; the run-time check delegates to the checker's function; " +
		"(R2) IntersectAccess returns only: unauthorized, the conjunction built from the key-set intersection of both operands, or one operand under a superset test by the other; " +
		"(R4) EntitlementMapAccess.Image keeps the set kind of its input, admits an output only under relation.Input.Equal(entitlement) (identity only under IncludesIdentity) and keeps the unrepresentable-disjunction guard."
	r.NotDecided = "the algebra on all run-time sets (that the decision functions, in particular the quantifiers inside EntitlementSetAccess.PermitsAccess, are right for every pair of sets and every mapping); nested-access narrowing in the interpreter beyond the comparison direction."
	c06Direction(r)
	c06Intersect(r)
	c06Image(r)
}

// c06Direction: R1.
func c06Direction(r *core.Run) {
	const rule = "R1.direction"
	w := r.W
	isPermits := func(o *types.Func) bool {
		if o == nil || o.Pkg() == nil || o.Name() != "PermitsAccess" {
			return false
		}
		p := o.Pkg().Path()
		return p == mod+"/sema" || p == mod+"/interpreter"
	}
	got := map[string][]string{}
	for _, fn := range w.SrcFuncs() {
		if fn.Pkg == nil || !w.InScope(fn.Pkg.Pkg.Path()) {
			continue
		}
		top := fn
		for top.Parent() != nil {
			top = top.Parent()
		}
		for _, c := range core.Calls(fn, false) {
			o := core.Callee(c)
			if !isPermits(o) {
				continue
			}
			cc := c.Common()
			var ops []ssa.Value
			if cc.IsInvoke() {
				ops = append(ops, cc.Value)
			}
			ops = append(ops, cc.Args...)
			// drop a leading context/type-converter operand of the interpreter function
			if o.Pkg().Path() == mod+"/interpreter" && len(ops) == 3 {
				ops = ops[1:]
			}
			if len(ops) != 2 {
				r.Undecided(rule, core.SSAKey(top)+" -> "+core.FuncKey(o), "unexpected operand count")
				continue
			}
			// leaves only (parameters, globals, constants, field names, asserted types): stable under helper extraction,
			// inlining and renaming of intermediate calls
			sig := "required ← " + core.OriginLeaves(ops[0]) + " ; possessed ← " + core.OriginLeaves(ops[1])
			got[core.SSAKey(top)] = append(got[core.SSAKey(top)], sig)
		}
	}
	for k := range got {
		sort.Strings(got[k])
	}
	if genMode() {
		genJSON(r, "c06_direction", got)
		return
	}
	var pinned map[string][]string
	if !r.Table("c06_direction", &pinned) {
		return
	}
	for _, k := range sortedKeys(pinned) {
		have := map[string]int{}
		for _, s := range got[k] {
			have[s]++
		}
		for _, s := range pinned[k] {
			if have[s] > 0 {
				have[s]--
				r.OK(rule, k+": "+s, 0, "operands of the comparison have their reviewed origins")
				continue
			}
			why := "the reviewed comparison is gone from this function"
			if len(got[k]) > 0 {
				why = "the comparison now reads: " + strings.Join(got[k], " // ")
			}
			r.Bad(rule, k+": "+s, 0, "the required and possessed sides of this authorization comparison no longer have their reviewed origins ("+why+"): a swapped or re-sourced comparison lets a less authorized reference pass")
		}
	}
	r.Floor(rule, 15)
}

// paramsIn lists the indices of the top-level parameters a value derives from.
func paramsIn(v ssa.Value) map[int]bool {
	out := map[int]bool{}
	for _, tok := range strings.Fields(strings.Trim(core.OriginLeaves(v), "{}")) {
		if strings.HasPrefix(tok, "param#") {
			n := 0
			for _, ch := range tok[len("param#"):] {
				if ch < '0' || ch > '9' {
					break
				}
				n = n*10 + int(ch-'0')
			}
			out[n] = true
		}
	}
	return out
}

// c06Intersect: R2 — envelope of IntersectAccess ("never grants more than the source authorization").
func c06Intersect(r *core.Run) {
	const rule = "R2.intersect"
	fn := mustFn(r, rule, "sema", "", "IntersectAccess")
	if fn == nil {
		return
	}
	nameOfCallee := func(c ssa.CallInstruction) string {
		if o := core.Callee(c); o != nil {
			return o.Name()
		}
		return ""
	}
	n := 0
	for _, ret := range core.Returns(fn) {
		if len(ret.Results) != 1 {
			continue
		}
		var vals []ssa.Value
		res := core.Unwrap(ret.Results[0])
		if phi, ok := res.(*ssa.Phi); ok {
			for _, e := range phi.Edges {
				vals = append(vals, core.Unwrap(e))
			}
		} else {
			vals = []ssa.Value{res}
		}
		for _, v := range vals {
			n++
			key := "sema.IntersectAccess: result #" + itoa(n)
			switch x := v.(type) {
			case *ssa.UnOp:
				if g, ok := x.X.(*ssa.Global); ok && g.Name() == "UnauthorizedAccess" {
					r.OK(rule, key, ret.Pos(), "unauthorized")
					continue
				}
			case *ssa.Call:
				if nameOfCallee(x) == "NewAccessFromEntitlementOrderedSet" && len(x.Call.Args) == 2 {
					inner, _ := core.Unwrap(x.Call.Args[0]).(*ssa.Call)
					kind := core.OriginLeaves(x.Call.Args[1])
					if inner != nil && nameOfCallee(inner) == "KeySetIntersection" {
						ps := paramsIn(inner)
						r.Check(ps[0] && ps[1] && strings.Contains(kind, "const:"), rule, key, ret.Pos(), "conjunction of the key-set intersection of both operands",
							"the intersection is not taken over both operands (or its kind is not a constant): the result may contain entitlements one side does not guarantee")
						continue
					}
				}
			}
			// one operand returned as is: only under a superset test by the other operand
			ps := paramsIn(v)
			if len(ps) == 1 {
				self := 0
				for k := range ps {
					self = k
				}
				ok := false
				for _, a := range core.ControllingConds(ret) {
					call, isCall := a.Var.Call.(*ssa.Call)
					if !isCall || !a.Val || nameOfCallee(call) != "ForAllKeys" {
						continue
					}
					// receiver: the returned operand's entitlements; predicate: Contains of the other operand
					var ops []ssa.Value
					if call.Call.IsInvoke() {
						ops = append(ops, call.Call.Value)
					}
					ops = append(ops, call.Call.Args...)
					if len(ops) != 2 {
						continue
					}
					rp, pp := paramsIn(ops[0]), paramsIn(ops[1])
					mc, isMC := core.Unwrap(ops[1]).(*ssa.MakeClosure)
					if len(rp) == 1 && rp[self] && len(pp) == 1 && pp[1-self] && isMC && strings.HasPrefix(mc.Fn.Name(), "Contains") {
						ok = true
					}
				}
				r.Check(ok, rule, key, ret.Pos(), "an operand is returned only when every one of its options is contained in the other operand",
					"an operand of the intersection is returned without the superset test (its ForAllKeys over the other operand's Contains): the result can grant what the other side does not guarantee")
				continue
			}
			r.Undecided(rule, key, "result of an unrecognised shape: "+core.OriginOf(v))
		}
	}
	r.Floor(rule, 5)
}

// c06Image: R4 — envelope of the mapping image.
func c06Image(r *core.Run) {
	const rule = "R4.image"
	leaves := func(v ssa.Value) string { return core.OriginLeaves(v) }
	condLeaves := func(in ssa.Instruction, want bool) []string {
		var out []string
		for _, a := range core.ControllingConds(in) {
			if a.Var.Call == nil {
				continue
			}
			pol := "+"
			if !a.Val {
				pol = "-"
			}
			name := ""
			if c, ok := a.Var.Call.(*ssa.Call); ok {
				if o := core.Callee(c); o != nil {
					name = o.Name()
				}
			}
			out = append(out, pol+name+leaves(a.Var.Call))
		}
		return out
	}
	if fn := mustFn(r, rule, "sema", "EntitlementMapAccess", "entitlementImage"); fn != nil {
		nset := 0
		for _, c := range core.Calls(fn, true) {
			o := core.Callee(c)
			if o == nil || o.Name() != "Set" || len(c.Common().Args) < 2 {
				continue
			}
			args := c.Common().Args
			keyArg := args[len(args)-2]
			kl := leaves(keyArg)
			nset++
			conds := condLeaves(c, true)
			switch {
			case strings.Contains(kl, ".Output"):
				ok := false
				for _, cl := range conds {
					if strings.HasPrefix(cl, "+Equal") && strings.Contains(cl, ".Input") && strings.Contains(cl, "param#1") {
						ok = true
					}
				}
				r.Check(ok, rule, "sema.(EntitlementMapAccess).entitlementImage: relation output admitted", posOf(c), "only under relation.Input.Equal(entitlement)",
					"an output of the mapping is added to the image without the test that the relation's input is the entitlement being mapped: the image grants outputs of other inputs")
			case strings.Contains(kl, "param#1"):
				ok := false
				for _, cl := range conds {
					if strings.HasPrefix(cl, "+") && strings.Contains(cl, ".IncludesIdentity") {
						ok = true
					}
				}
				r.Check(ok, rule, "sema.(EntitlementMapAccess).entitlementImage: identity admitted", posOf(c), "only under Type.IncludesIdentity",
					"the input entitlement itself is added to its image although the mapping does not include the identity")
			default:
				r.Undecided(rule, "sema.(EntitlementMapAccess).entitlementImage: image member "+kl, "an image member of unrecognised origin")
			}
		}
		r.Check(nset >= 2, rule, "sema.(EntitlementMapAccess).entitlementImage: members", fn.Pos(), "relation outputs and identity are the only members", "the image construction no longer resolves")
	}
	if fn := mustFn(r, rule, "sema", "EntitlementMapAccess", "Image"); fn != nil {
		// the result literal keeps the kind of the input set
		found := false
		core.Instrs(fn, true, func(in ssa.Instruction) {
			st, ok := in.(*ssa.Store)
			if !ok {
				return
			}
			fa, ok := st.Addr.(*ssa.FieldAddr)
			if !ok {
				return
			}
			pt, ok := fa.X.Type().Underlying().(*types.Pointer)
			if !ok {
				return
			}
			if _, tn := core.TypeName(pt.Elem()); tn != "EntitlementSetAccess" {
				return
			}
			s, ok := pt.Elem().Underlying().(*types.Struct)
			if !ok || s.Field(fa.Field).Name() != "SetKind" {
				return
			}
			found = true
			l := leaves(st.Val)
			r.Check(strings.Contains(l, ".SetKind") && strings.Contains(l, "param#2"), rule, "sema.(EntitlementMapAccess).Image: kind of the image", in.Pos(), "the image has the set kind of the input",
				"the image's set kind is not taken from the input set ("+l+"): a disjunction mapped to a conjunction claims every output at once")
		})
		if !found {
			r.Undecided(rule, "sema.(EntitlementMapAccess).Image: kind of the image", "result literal not found")
		}
		// the unrepresentable-disjunction guard
		guard := false
		core.Instrs(fn, true, func(in ssa.Instruction) {
			al, ok := in.(*ssa.Alloc)
			if !ok {
				return
			}
			if _, tn := core.TypeName(al.Type()); tn != "UnrepresentableEntitlementMapOutputError" {
				return
			}
			hasKind, hasLen := false, false
			for _, cl := range condLeaves(al, true) {
				if strings.Contains(cl, ".SetKind") {
					hasKind = true
				}
				if strings.Contains(cl, "Len") || strings.Contains(cl, "const:1") {
					hasLen = true
				}
			}
			if hasKind && hasLen {
				guard = true
			}
		})
		r.Check(guard, rule, "sema.(EntitlementMapAccess).Image: unrepresentable disjunction", fn.Pos(), "a disjunction whose member maps to more than one output is an error",
			"the guard that rejects a disjunctive input whose member has a multi-element image is gone or no longer depends on the set kind and the image size: a disjunction of conjunctions is flattened, granting more than any holder has")
	}
	r.Floor(rule, 5)
}
