package rules

import (
	"go/token"
	"sort"
	"strconv"
	"strings"

	"cadcheck/core"
)

func firstPos(m map[string]token.Pos) token.Pos {
	var ks []string
	for k := range m {
		ks = append(ks, k)
	}
	sort.Strings(ks)
	if len(ks) == 0 {
		return token.NoPos
	}
	return m[ks[0]]
}

func sortedKeys[V any](m map[string]V) []string {
	var ks []string
	for k := range m {
		ks = append(ks, k)
	}
	sort.Strings(ks)
	return ks
}

func fm(tag, native string, w int, extra ...string) core.FamilyMember {
	// fragments compared positionally: Tag, Native, lower(Tag), then the explicit extras
	ex := append([]string{strings.ToLower(tag)}, extra...)
	digits := strings.TrimLeft(tag, "UIntWord")
	ex = append(ex, "Uint"+digits, digits+"bit")
	return core.FamilyMember{Tag: tag, Native: native, Width: w, Extra: ex}
}

// The numeric sibling families of the repository (members share one implementation template).
var (
	famS        = &core.Family{Name: "signed-native", Members: []core.FamilyMember{fm("Int8", "int8", 8), fm("Int16", "int16", 16), fm("Int32", "int32", 32), fm("Int64", "int64", 64)}}
	famU        = &core.Family{Name: "unsigned-native", Members: []core.FamilyMember{fm("UInt8", "uint8", 8), fm("UInt16", "uint16", 16), fm("UInt32", "uint32", 32), fm("UInt64", "uint64", 64)}}
	famW        = &core.Family{Name: "word-native", Members: []core.FamilyMember{fm("Word8", "uint8", 8, "Uint8"), fm("Word16", "uint16", 16, "Uint16"), fm("Word32", "uint32", 32, "Uint32"), fm("Word64", "uint64", 64, "Uint64")}}
	famSB       = &core.Family{Name: "signed-big", Members: []core.FamilyMember{fm("Int128", "", 128), fm("Int256", "", 256)}}
	famUB       = &core.Family{Name: "unsigned-big", Members: []core.FamilyMember{fm("UInt128", "", 128), fm("UInt256", "", 256)}}
	famWB       = &core.Family{Name: "word-big", Members: []core.FamilyMember{fm("Word128", "", 128), fm("Word256", "", 256)}}
	famF        = &core.Family{Name: "fix128", Members: []core.FamilyMember{fm("Fix128", "", 128), fm("UFix128", "", 128)}}
	famF64      = &core.Family{Name: "fix64", Members: []core.FamilyMember{fm("Fix64", "int64", 64), fm("UFix64", "uint64", 64)}}
	famEnv      = &core.Family{Name: "environments", Members: []core.FamilyMember{{Tag: "InterpreterEnvironment"}, {Tag: "vmEnvironment"}}}
	// the two jump-target scopes of the checker's control-flow bookkeeping ("WithSwitch mirrors WithLoop")
	famCtl      = &core.Family{Name: "control-scopes", Members: []core.FamilyMember{{Tag: "Loop", Extra: []string{"loop"}}, {Tag: "Switch", Extra: []string{"switch"}}}}
	allFamilies = []*core.Family{famS, famU, famW, famSB, famUB, famWB}
)

// siblingRule checks every sibling group selected by pick: all members unify, or the partition into
// unifiable classes equals the reviewed partition of the pinned tree (tables/sibling_partitions.json).
func siblingRule(r *core.Run, rule string, fams []*core.Family, pick func(groupKey string) bool) int {
	var reviewed map[string]struct {
		Partition string `json:"partition"`
		Reason    string `json:"reason"`
	}
	if !r.Table("sibling_partitions", &reviewed) {
		return 0
	}
	n := 0
	for _, fam := range fams {
		for _, g := range r.W.SiblingGroups(fam) {
			if !pick(g.Key) {
				continue
			}
			n++
			part, diffs, pos := r.W.Partition(g)
			key := fam.Name + "|" + g.Key
			var anyPos = firstPos(pos)
			if !strings.Contains(part, "|") {
				r.OK(rule, key, anyPos, "all "+strconv.Itoa(len(g.Decls))+" members unify modulo the family parameters ("+part+")")
				continue
			}
			if rv, ok := reviewed[key]; ok && rv.Partition == part {
				r.OK(rule, key, anyPos, "members fall into the reviewed classes "+part+": "+rv.Reason)
				continue
			}
			exp := "all members agree"
			if rv, ok := reviewed[key]; ok {
				exp = rv.Partition
			}
			// name the deviating members
			msg := "sibling implementations disagree: classes now [" + part + "], reviewed [" + exp + "]"
			for _, t := range sortedKeys(diffs) {
				d := diffs[t]
				if d != nil {
					msg += "; " + t + " deviates at " + r.W.Pos(d.B.Pos) + " (" + core.Short(d.A.Text) + " vs " + core.Short(d.B.Text) + ": " + d.Why + ")"
				}
			}
			r.Bad(rule, key, anyPos, msg)
		}
	}
	return n
}
