package rules

import (
	"fmt"
	"go/ast"
	"go/constant"
	"go/token"
	"go/types"
	"sort"
	"strings"

	"cadcheck/core"
)

// BOUND engine — a small symbolic lower-bound prover for the closed-form big-integer memory estimates of
// common/metering.go. Each estimate function is executed symbolically on its syntax tree (straight-line code with
// if/else chains): every path yields the estimated word count as an expression over the atoms |a|, |b| (operand lengths
// in words, non-negative) and val(b) (a shift amount, non-negative), built from + − × constant, max, min and floor division.
// For every path the prover shows  estimate ≥ required  where `required` is the size in words of the result of the
// matching math/big operation (a trusted specification of math/big, listed below). The proof procedure is sound and
// incomplete: max/min/floor nodes are eliminated by case analysis (a max in the estimate may be replaced by either operand,
// a min by both, and dually for the requirement; floor(x/k) is bracketed by x/k−1 and x/k) and the remaining linear forms are
// compared coefficient-wise over non-negative atoms. A path that cannot be proven is reported with the path conditions.

type symKind int

const (
	sConst symKind = iota
	sAtom
	sAdd
	sSub
	sScale
	sMax
	sMin
	sFloor
)

type sym struct {
	kind symKind
	v    float64 // sConst value, sScale factor, sFloor divisor
	name string  // sAtom
	x, y *sym
}

func sc(v float64) *sym             { return &sym{kind: sConst, v: v} }
func sa(n string) *sym              { return &sym{kind: sAtom, name: n} }
func sadd(x, y *sym) *sym           { return &sym{kind: sAdd, x: x, y: y} }
func ssub(x, y *sym) *sym           { return &sym{kind: sSub, x: x, y: y} }
func sscale(k float64, x *sym) *sym { return &sym{kind: sScale, v: k, x: x} }
func smax(x, y *sym) *sym           { return &sym{kind: sMax, x: x, y: y} }
func smin(x, y *sym) *sym           { return &sym{kind: sMin, x: x, y: y} }
func sfloor(x *sym, k float64) *sym { return &sym{kind: sFloor, x: x, v: k} }

func (s *sym) String() string {
	switch s.kind {
	case sConst:
		return trimFloat(s.v)
	case sAtom:
		return s.name
	case sAdd:
		return "(" + s.x.String() + " + " + s.y.String() + ")"
	case sSub:
		return "(" + s.x.String() + " - " + s.y.String() + ")"
	case sScale:
		return trimFloat(s.v) + "*" + s.x.String()
	case sMax:
		return "max(" + s.x.String() + ", " + s.y.String() + ")"
	case sMin:
		return "min(" + s.x.String() + ", " + s.y.String() + ")"
	case sFloor:
		return "floor(" + s.x.String() + "/" + trimFloat(s.v) + ")"
	}
	return "?"
}

func trimFloat(f float64) string {
	s := fmt.Sprintf("%.6f", f)
	s = strings.TrimRight(strings.TrimRight(s, "0"), ".")
	return s
}

type cterm struct {
	coef float64
	t    *sym // max, min or floor node
}

type lin struct {
	c     float64
	atoms map[string]float64
	cx    []cterm
}

func (l lin) clone() lin {
	n := lin{c: l.c, atoms: map[string]float64{}}
	for k, v := range l.atoms {
		n.atoms[k] = v
	}
	n.cx = append(n.cx, l.cx...)
	return n
}

func (l *lin) addScaled(o lin, k float64) {
	l.c += k * o.c
	for a, v := range o.atoms {
		l.atoms[a] += k * v
	}
	for _, ct := range o.cx {
		l.cx = append(l.cx, cterm{k * ct.coef, ct.t})
	}
}

func flatten(s *sym, zero map[string]bool) lin {
	l := lin{atoms: map[string]float64{}}
	switch s.kind {
	case sConst:
		l.c = s.v
	case sAtom:
		if !zero[s.name] {
			l.atoms[s.name] = 1
		}
	case sAdd:
		l.addScaled(flatten(s.x, zero), 1)
		l.addScaled(flatten(s.y, zero), 1)
	case sSub:
		l.addScaled(flatten(s.x, zero), 1)
		l.addScaled(flatten(s.y, zero), -1)
	case sScale:
		l.addScaled(flatten(s.x, zero), s.v)
	default:
		l.cx = append(l.cx, cterm{1, s})
	}
	return l
}

// proveGE: E ≥ T for all non-negative values of the atoms. Universal case splits (a min in the estimate, a max in the
// requirement, and their duals under a negative coefficient) are made before existential ones (a max in the estimate may be
// replaced by either operand, a min in the requirement likewise), so that the choice may depend on the case.
func proveGE(E, T lin, zero map[string]bool, depth int) bool {
	if depth > 32 {
		return false
	}
	type pick struct {
		inE bool
		idx int
	}
	universal := func(inE bool, ct cterm) bool {
		switch ct.t.kind {
		case sMin:
			return inE == (ct.coef > 0)
		case sMax:
			return inE != (ct.coef > 0)
		}
		return true // floor: deterministic replacement
	}
	var chosen *pick
	for pass := 0; pass < 2 && chosen == nil; pass++ {
		for i, ct := range E.cx {
			if (pass == 0) == universal(true, ct) {
				chosen = &pick{true, i}
				break
			}
		}
		if chosen != nil {
			break
		}
		for i, ct := range T.cx {
			if (pass == 0) == universal(false, ct) {
				chosen = &pick{false, i}
				break
			}
		}
	}
	if chosen != nil {
		src := T
		if chosen.inE {
			src = E
		}
		ct := src.cx[chosen.idx]
		rest := src.clone()
		rest.cx = append(append([]cterm{}, rest.cx[:chosen.idx]...), rest.cx[chosen.idx+1:]...)
		alt := func(s *sym, adj float64) lin {
			a := rest.clone()
			a.addScaled(flatten(s, zero), ct.coef)
			a.c += adj
			return a
		}
		rec := func(l lin) bool {
			if chosen.inE {
				return proveGE(l, T, zero, depth+1)
			}
			return proveGE(E, l, zero, depth+1)
		}
		switch ct.t.kind {
		case sMax, sMin:
			if universal(chosen.inE, ct) {
				return rec(alt(ct.t.x, 0)) && rec(alt(ct.t.y, 0))
			}
			return rec(alt(ct.t.x, 0)) || rec(alt(ct.t.y, 0))
		case sFloor:
			// x/k − 1 < floor(x/k) ≤ x/k : a lower bound is needed for the estimate, an upper bound for the requirement
			inner := sscale(1/ct.t.v, ct.t.x)
			lower := chosen.inE == (ct.coef > 0)
			if lower {
				// coef*floor ≥ coef*(x/k − 1) when coef > 0 (estimate); −|coef|*floor … handled symmetrically
				if ct.coef > 0 {
					return rec(alt(inner, -ct.coef))
				}
				return rec(alt(inner, 0))
			}
			if ct.coef > 0 {
				return rec(alt(inner, 0))
			}
			return rec(alt(inner, -ct.coef))
		}
		return false
	}
	const eps = 1e-9
	if E.c-T.c < -eps {
		return false
	}
	keys := map[string]bool{}
	for k := range E.atoms {
		keys[k] = true
	}
	for k := range T.atoms {
		keys[k] = true
	}
	for k := range keys {
		if E.atoms[k]-T.atoms[k] < -eps {
			return false
		}
	}
	return true
}

// symbolic execution of an estimate function on its syntax tree

type symPath struct {
	conds  []string
	zero   map[string]bool
	env    map[types.Object]*sym
	ret    *sym // argument of NewBigIntMemoryUsage, in bytes
	done   bool
	panics bool
}

func (p *symPath) fork() *symPath {
	n := &symPath{zero: map[string]bool{}, env: map[types.Object]*sym{}}
	n.conds = append(n.conds, p.conds...)
	for k, v := range p.zero {
		n.zero[k] = v
	}
	for k, v := range p.env {
		n.env[k] = v
	}
	return n
}

type symExec struct {
	w      *core.World
	info   *types.Info
	params map[types.Object]string // *big.Int parameters -> "a", "b"
	fresh  int
	notes  []string
}

func (x *symExec) opaque(e ast.Expr) *sym {
	return sa("⟨" + types.ExprString(e) + "⟩")
}

// constOf resolves a constant expression, or a package variable initialised with big.NewInt(constant).
func (x *symExec) constOf(e ast.Expr) (float64, bool) {
	if tv, ok := x.info.Types[e]; ok && tv.Value != nil {
		if f, ok := constant.Float64Val(constant.ToFloat(tv.Value)); ok || tv.Value.Kind() == constant.Int {
			return f, true
		}
	}
	id, ok := e.(*ast.Ident)
	if !ok {
		return 0, false
	}
	v, ok := x.info.Uses[id].(*types.Var)
	if !ok || v.Pkg() == nil {
		return 0, false
	}
	p := x.w.ByPath[v.Pkg().Path()]
	if p == nil {
		return 0, false
	}
	if init := pkgVarInit(p, v.Name()); init != nil {
		if call, ok := init.(*ast.CallExpr); ok && len(call.Args) == 1 {
			if sel, ok := call.Fun.(*ast.SelectorExpr); ok && sel.Sel.Name == "NewInt" {
				if tv, ok := p.TypesInfo.Types[call.Args[0]]; ok && tv.Value != nil {
					f, _ := constant.Float64Val(constant.ToFloat(tv.Value))
					return f, true
				}
			}
		}
	}
	return 0, false
}

func (x *symExec) eval(e ast.Expr, p *symPath) *sym {
	switch v := e.(type) {
	case *ast.ParenExpr:
		return x.eval(v.X, p)
	case *ast.BasicLit:
		if c, ok := x.constOf(v); ok {
			return sc(c)
		}
	case *ast.Ident:
		if s, ok := p.env[x.info.Uses[v]]; ok {
			return s
		}
		if c, ok := x.constOf(v); ok {
			return sc(c)
		}
	case *ast.SelectorExpr:
		if c, ok := x.constOf(v); ok {
			return sc(c)
		}
	case *ast.BinaryExpr:
		if c, ok := x.constOf(v); ok {
			return sc(c)
		}
		l, r := x.eval(v.X, p), x.eval(v.Y, p)
		switch v.Op {
		case token.ADD:
			return sadd(l, r)
		case token.SUB:
			return ssub(l, r)
		case token.MUL:
			if l.kind == sConst {
				return sscale(l.v, r)
			}
			if r.kind == sConst {
				return sscale(r.v, l)
			}
			// product of two non-negative quantities: an opaque non-negative atom
			return x.opaque(v)
		case token.QUO:
			if r.kind == sConst && r.v > 0 {
				return sfloor(l, r.v)
			}
			return x.opaque(v)
		}
	case *ast.CallExpr:
		// conversions
		if tv, ok := x.info.Types[v.Fun]; ok && tv.IsType() && len(v.Args) == 1 {
			return x.eval(v.Args[0], p)
		}
		if id, ok := v.Fun.(*ast.Ident); ok {
			switch id.Name {
			case "len":
				// len(p.Bits())
				if inner, ok := v.Args[0].(*ast.CallExpr); ok {
					if sel, ok := inner.Fun.(*ast.SelectorExpr); ok && sel.Sel.Name == "Bits" {
						if pid, ok := sel.X.(*ast.Ident); ok {
							if nm, ok := x.params[x.info.Uses[pid]]; ok {
								return sa("|" + nm + "|")
							}
						}
					}
				}
			case "max":
				if len(v.Args) == 2 {
					return smax(x.eval(v.Args[0], p), x.eval(v.Args[1], p))
				}
			case "min":
				if len(v.Args) == 2 {
					return smin(x.eval(v.Args[0], p), x.eval(v.Args[1], p))
				}
			}
		}
		if sel, ok := v.Fun.(*ast.SelectorExpr); ok {
			switch sel.Sel.Name {
			case "Int64", "Uint64":
				return x.eval(sel.X, p)
			case "Div", "Quo":
				// new(big.Int).Div(p, K): floor(val(p)/K)
				if len(v.Args) == 2 {
					if pid, ok := v.Args[0].(*ast.Ident); ok {
						if nm, ok := x.params[x.info.Uses[pid]]; ok {
							if k, ok := x.constOf(v.Args[1]); ok && k > 0 {
								return sfloor(sa("val("+nm+")"), k)
							}
						}
					}
				}
			}
		}
		if c, ok := x.constOf(v); ok {
			return sc(c)
		}
	}
	return x.opaque(e)
}

// cond records a path condition and the atoms it forces to zero.
func (x *symExec) cond(e ast.Expr, val bool, p *symPath) {
	txt := x.condText(e, p)
	if !val {
		txt = "!(" + txt + ")"
	}
	p.conds = append(p.conds, txt)
	be, ok := e.(*ast.BinaryExpr)
	if !ok {
		return
	}
	if be.Op == token.LAND && val {
		x.cond(be.X, true, p)
		x.cond(be.Y, true, p)
		p.conds = p.conds[:len(p.conds)-2]
		return
	}
	if be.Op == token.LOR && !val {
		x.cond(be.X, false, p)
		x.cond(be.Y, false, p)
		p.conds = p.conds[:len(p.conds)-2]
		return
	}
	isZero := func(e ast.Expr) bool { c, ok := x.constOf(e); return ok && c == 0 }
	if (be.Op == token.EQL && val) || (be.Op == token.NEQ && !val) {
		if isZero(be.Y) {
			// atom == 0, or p.Sign() == 0
			s := x.eval(be.X, p)
			if s.kind == sAtom {
				p.zero[s.name] = true
			}
			if call, ok := be.X.(*ast.CallExpr); ok {
				if sel, ok := call.Fun.(*ast.SelectorExpr); ok && sel.Sel.Name == "Sign" {
					if pid, ok := sel.X.(*ast.Ident); ok {
						if nm, ok := x.params[x.info.Uses[pid]]; ok {
							p.zero["val("+nm+")"] = true
							p.zero["|"+nm+"|"] = true
						}
					}
				}
			}
		}
	}
}

func (x *symExec) block(stmts []ast.Stmt, in []*symPath) []*symPath {
	paths := in
	for _, st := range stmts {
		var next []*symPath
		for _, p := range paths {
			if p.done {
				next = append(next, p)
				continue
			}
			next = append(next, x.stmt(st, p)...)
		}
		paths = next
	}
	return paths
}

func (x *symExec) stmt(st ast.Stmt, p *symPath) []*symPath {
	switch s := st.(type) {
	case *ast.AssignStmt:
		if len(s.Lhs) == len(s.Rhs) {
			for i, l := range s.Lhs {
				if id, ok := l.(*ast.Ident); ok {
					obj := x.info.Defs[id]
					if obj == nil {
						obj = x.info.Uses[id]
					}
					if obj != nil {
						p.env[obj] = x.eval(s.Rhs[i], p)
					}
				}
			}
		}
		return []*symPath{p}
	case *ast.DeclStmt:
		return []*symPath{p}
	case *ast.ExprStmt:
		if call, ok := s.X.(*ast.CallExpr); ok {
			if id, ok := call.Fun.(*ast.Ident); ok && id.Name == "panic" {
				p.done, p.panics = true, true
			}
		}
		return []*symPath{p}
	case *ast.ReturnStmt:
		p.done = true
		if len(s.Results) == 1 {
			if call, ok := s.Results[0].(*ast.CallExpr); ok && len(call.Args) == 1 {
				if id, ok := call.Fun.(*ast.Ident); ok && id.Name == "NewBigIntMemoryUsage" {
					p.ret = x.eval(call.Args[0], p)
					return []*symPath{p}
				}
			}
		}
		x.notes = append(x.notes, "unrecognised return: "+types.ExprString(s.Results[0]))
		return []*symPath{p}
	case *ast.BlockStmt:
		return x.block(s.List, []*symPath{p})
	case *ast.IfStmt:
		if s.Init != nil {
			x.notes = append(x.notes, "if with init statement")
		}
		t := p.fork()
		x.cond(s.Cond, true, t)
		out := x.block(s.Body.List, []*symPath{t})
		f := p.fork()
		x.cond(s.Cond, false, f)
		if s.Else != nil {
			out = append(out, x.stmt(s.Else, f)...)
		} else {
			out = append(out, f)
		}
		return out
	}
	if sw, ok := st.(*ast.SwitchStmt); ok && sw.Init == nil {
		// `switch { case c1: … case c2: … default: … }` is the chain if c1 {…} else if c2 {…} else {…};
		// a tagged switch compares the tag with each case expression
		var out []*symPath
		rest := p
		var deflt *ast.CaseClause
		for _, cs := range sw.Body.List {
			cc := cs.(*ast.CaseClause)
			if cc.List == nil {
				deflt = cc
				continue
			}
			var cond ast.Expr
			for _, e := range cc.List {
				ce := e
				if sw.Tag != nil {
					ce = &ast.BinaryExpr{X: sw.Tag, Op: token.EQL, Y: e}
				}
				if cond == nil {
					cond = ce
				} else {
					cond = &ast.BinaryExpr{X: cond, Op: token.LOR, Y: ce}
				}
			}
			t := rest.fork()
			x.cond(cond, true, t)
			out = append(out, x.block(cc.Body, []*symPath{t})...)
			f := rest.fork()
			x.cond(cond, false, f)
			rest = f
		}
		if deflt != nil {
			out = append(out, x.block(deflt.Body, []*symPath{rest})...)
		} else {
			out = append(out, rest)
		}
		return out
	}
	x.notes = append(x.notes, fmt.Sprintf("unsupported statement %T", st))
	return []*symPath{p}
}

// bigIntResultWords: size in words of the result of the math/big operation an estimate is charged for (trusted
// specification of math/big; a = first operand, b = second operand / shift count).
var bigIntResultWords = map[string][]struct {
	use  string
	need *sym
}{
	"NewPlusBigIntMemoryUsage":  {{"sum", sadd(smax(sa("|a|"), sa("|b|")), sc(1))}},
	"NewMinusBigIntMemoryUsage": {{"difference", sadd(smax(sa("|a|"), sa("|b|")), sc(1))}},
	"NewMulBigIntMemoryUsage":   {{"product", sadd(sa("|a|"), sa("|b|"))}},
	"NewModBigIntMemoryUsage": {
		{"remainder (charged for Mod/Rem)", smin(sa("|a|"), sa("|b|"))},
		{"quotient (charged for Div/Quo through NewDivBigIntMemoryUsage)", sadd(ssub(sa("|a|"), sa("|b|")), sc(1))},
	},
	"NewBitwiseOrBigIntMemoryUsage":         {{"a | b", sadd(smax(sa("|a|"), sa("|b|")), sc(1))}},
	"NewBitwiseXorBigIntMemoryUsage":        {{"a ^ b", sadd(smax(sa("|a|"), sa("|b|")), sc(1))}},
	"NewBitwiseAndBigIntMemoryUsage":        {{"a & b", sadd(smax(sa("|a|"), sa("|b|")), sc(1))}},
	"NewBitwiseLeftShiftBigIntMemoryUsage":  {{"a << b", sadd(sadd(sa("|a|"), sfloor(sa("val(b)"), 64)), sc(1))}},
	"NewBitwiseRightShiftBigIntMemoryUsage": {{"a >> b", sadd(ssub(sa("|a|"), sfloor(sa("val(b)"), 64)), sc(1))}},
	"NewNegateBigIntMemoryUsage":            {{"-a", sa("|a|")}},
}

func c32Bounds(r *core.Run) {
	const rule = "R3.bounds"
	w := r.W
	p := w.Pkg("common")
	if p == nil {
		r.Undecided(rule, "common", "package not loaded")
		return
	}
	var reviewed map[string]string
	r.Table("c32_unproven_reviewed", &reviewed)
	wordSize := 8.0
	names := make([]string, 0, len(bigIntResultWords))
	for k := range bigIntResultWords {
		names = append(names, k)
	}
	sort.Strings(names)
	for _, name := range names {
		fd, fp := w.Decl(w.FuncObj("common", "", name))
		if fd == nil || fd.Body == nil {
			r.Undecided(rule, "common."+name, "estimate function does not resolve")
			continue
		}
		x := &symExec{w: w, info: fp.TypesInfo, params: map[types.Object]string{}}
		pi := 0
		for _, f := range fd.Type.Params.List {
			for _, nm := range f.Names {
				x.params[fp.TypesInfo.Defs[nm]] = string(rune('a' + pi))
				pi++
			}
		}
		start := &symPath{zero: map[string]bool{}, env: map[types.Object]*sym{}}
		paths := x.block(fd.Body.List, []*symPath{start})
		if len(x.notes) > 0 {
			r.Undecided(rule, "common."+name, "symbolic execution incomplete: "+strings.Join(x.notes, "; "))
			continue
		}
		npath := 0
		for _, path := range paths {
			if path.panics {
				continue
			}
			npath++
			if path.ret == nil {
				r.Undecided(rule, "common."+name+": path "+strings.Join(path.conds, " ∧ "), "no estimate returned on this path")
				continue
			}
			for _, spec := range bigIntResultWords[name] {
				key := "common." + name + " as " + spec.use + " | " + strings.Join(path.conds, " ∧ ")
				if key[len(key)-3:] == " | " {
					key += "(unconditional)"
				}
				E := flatten(path.ret, path.zero)
				T := flatten(sscale(wordSize, spec.need), path.zero)
				ok := proveGE(E, T, path.zero, 0)
				fact := "estimate " + path.ret.String() + " bytes ≥ " + trimFloat(wordSize) + "·(" + spec.need.String() + ") for all operand sizes"
				if ok {
					r.OK(rule, key, fd.Pos(), fact)
					continue
				}
				if why, isRev := reviewed[key]; isRev {
					r.OK(rule, key, fd.Pos(), "not provable by the linear prover; reviewed argument: "+why)
					continue
				}
				r.Bad(rule, key, fd.Pos(), "the estimate "+path.ret.String()+" bytes cannot be shown to cover the result, "+trimFloat(wordSize)+"·("+spec.need.String()+") bytes, on this path: the memory metered before the operation can be smaller than the value it produces")
			}
		}
		if npath == 0 {
			r.Undecided(rule, "common."+name, "no returning path")
		}
	}
	// NewDivBigIntMemoryUsage delegates to the Mod estimate (whose quotient requirement is proven above)
	if fd, fp := w.Decl(w.FuncObj("common", "", "NewDivBigIntMemoryUsage")); fd != nil && fd.Body != nil {
		deleg := false
		ast.Inspect(fd.Body, func(n ast.Node) bool {
			if call, ok := n.(*ast.CallExpr); ok {
				if id, ok := call.Fun.(*ast.Ident); ok && id.Name == "NewModBigIntMemoryUsage" && len(call.Args) == 2 {
					a0, _ := call.Args[0].(*ast.Ident)
					a1, _ := call.Args[1].(*ast.Ident)
					if a0 != nil && a1 != nil && fd.Type.Params.NumFields() == 2 {
						var ps []types.Object
						for _, f := range fd.Type.Params.List {
							for _, nm := range f.Names {
								ps = append(ps, fp.TypesInfo.Defs[nm])
							}
						}
						if len(ps) == 2 && fp.TypesInfo.Uses[a0] == ps[0] && fp.TypesInfo.Uses[a1] == ps[1] {
							deleg = true
						}
					}
				}
			}
			return true
		})
		r.Check(deleg, rule, "common.NewDivBigIntMemoryUsage delegates to NewModBigIntMemoryUsage(a, b)", fd.Pos(), "same operands in the same order", "the division estimate no longer delegates to the estimate whose quotient bound is proven")
	} else {
		r.Undecided(rule, "common.NewDivBigIntMemoryUsage", "does not resolve")
	}
	r.Floor(rule, 20)
}

// condText renders a path condition with local variables replaced by their symbolic values and parameters by a, b —
// so that keys of reviewed paths and known findings do not depend on the names of locals.
func (x *symExec) condText(e ast.Expr, p *symPath) string {
	switch v := e.(type) {
	case *ast.ParenExpr:
		return "(" + x.condText(v.X, p) + ")"
	case *ast.BinaryExpr:
		return x.condText(v.X, p) + " " + v.Op.String() + " " + x.condText(v.Y, p)
	case *ast.UnaryExpr:
		return v.Op.String() + x.condText(v.X, p)
	case *ast.Ident:
		if obj := x.info.Uses[v]; obj != nil {
			if s, ok := p.env[obj]; ok {
				return s.String()
			}
			if nm, ok := x.params[obj]; ok {
				return nm
			}
		}
		return v.Name
	case *ast.SelectorExpr:
		return x.condText(v.X, p) + "." + v.Sel.Name
	case *ast.CallExpr:
		var args []string
		for _, a := range v.Args {
			args = append(args, x.condText(a, p))
		}
		return x.condText(v.Fun, p) + "(" + strings.Join(args, ", ") + ")"
	}
	return types.ExprString(e)
}
