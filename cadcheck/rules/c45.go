package rules

import (
	"go/types"
	"strings"

	"golang.org/x/tools/go/ssa"

	"cadcheck/core"
)

func init() { register("C45", c45) }

func c45(r *core.Run) {
	r.Explanation = "Decided clauses: (R1) primitive type tables: interpreter ConvertSemaToPrimitiveStaticType and PrimitiveStaticType.SemaType are mutually inverse with agreeing names, and runtime.ExportMeteredType maps every sema.XType to cadence.XType of the same name; " +
		"(R2) single formatter: the checker, static and external representations of optional, array, dictionary, reference, intersection, capability and entitlement-set types all build their type IDs through the shared sema.Format*TypeID helpers " +
		"(pinned census of the callers of each helper); (R3) the set-like helpers FormatIntersectionTypeID and FormatEntitlementSetTypeID sort their members before joining them on every path."
	r.NotDecided = "equality of IDs over all types and all conversion paths at run time."
	w := r.W
	ip := w.Pkg("interpreter")
	primNorm := func(s string) string {
		s = s[strings.LastIndex(s, ".")+1:]
		s = strings.TrimPrefix(s, "PrimitiveStaticType")
		s = strings.TrimPrefix(s, "The")
		return strings.TrimSuffix(s, "Type")
	}
	toPrim, _ := w.Decl(w.FuncObj("interpreter", "", "ConvertSemaToPrimitiveStaticType"))
	toSema, _ := w.Decl(w.FuncObj("interpreter", "PrimitiveStaticType", "SemaType"))
	if toPrim == nil || toSema == nil {
		r.Undecided("R1.tables", "interpreter primitive type tables", "do not resolve")
	} else {
		inverseTables(r, "R1.tables", "ConvertSemaToPrimitiveStaticType", "PrimitiveStaticType.SemaType", switchTable(toPrim, ip.TypesInfo), switchTable(toSema, ip.TypesInfo), primNorm, toPrim.Pos())
	}
	if exp, rp := w.Decl(w.FuncObj("runtime", "", "ExportMeteredType")); exp != nil {
		for k, v := range switchTable(exp, rp.TypesInfo) {
			if !strings.HasPrefix(k, "sema.") || !strings.HasPrefix(v, "..") && !strings.HasPrefix(v, ".") {
				continue
			}
			r.Check(primNorm(k) == primNorm(v), "R1.tables", "runtime.ExportMeteredType["+k+"] = "+v, exp.Pos(), "exported under its own name", "checker type "+k+" is exported as "+v)
		}
	} else {
		r.Undecided("R1.tables", "runtime.ExportMeteredType", "does not resolve")
	}
	r.Floor("R1.tables", 100)

	// R2 census of the shared ID formatters
	isFormatter := func(o *types.Func) bool {
		return o != nil && o.Pkg() != nil && o.Pkg().Path() == mod+"/sema" && strings.HasPrefix(o.Name(), "Format") && strings.HasSuffix(o.Name(), "TypeID") ||
			(o != nil && o.Pkg() != nil && o.Pkg().Path() == mod+"/sema" && o.Name() == "FormatIntersectionTypeIDWithSingleInterface")
	}
	got, deep := callerCounts(w, isFormatter, func(o *types.Func) string { return o.Name() })
	genCounts(r, "c45_formatter_callers", got)
	var pinned map[string]int
	if r.Table("c45_formatter_callers", &pinned) {
		for k, n := range pinned {
			r.Check(deep[k] >= n, "R2.formatter", k, 0, "type ID is built by the shared helper", "this representation no longer builds its type ID through the shared sema helper (pinned "+itoa(n)+" call(s), now "+itoa(deep[k])+"): IDs of the same type can diverge between representations")
		}
	}
	r.Floor("R2.formatter", 20)

	// R3 sort before join
	isSort := func(o *types.Func) bool {
		return o != nil && o.Pkg() != nil && (o.Pkg().Path() == "slices" || o.Pkg().Path() == "sort") && strings.Contains(o.Name(), "Sort")
	}
	for _, name := range []string{"FormatIntersectionTypeID", "FormatEntitlementSetTypeID"} {
		fn := w.Prog.FuncValue(w.FuncObj("sema", "", name))
		if fn == nil || len(fn.Blocks) == 0 {
			r.Undecided("R3.sorted", "sema."+name, "does not resolve")
			continue
		}
		ok := true
		for _, ret := range core.Returns(fn) {
			if !core.MustPass(ret, func(in ssa.Instruction) bool {
				c, isCall := in.(ssa.CallInstruction)
				return isCall && isSort(core.Callee(c))
			}) {
				ok = false
			}
		}
		r.Check(ok, "R3.sorted", "sema."+name+": members sorted before the ID is built", fn.Pos(), "every return passes slices.Sort of the member IDs",
			"the set-like type ID is built without sorting its members: the same set written in a different order gets a different ID")
	}
	r.Floor("R3.sorted", 2)
}
