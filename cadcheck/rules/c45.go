package rules

import (
	"go/types"
	"regexp"
	"sort"
	"strings"

	"golang.org/x/tools/go/ssa"

	"cadcheck/core"
)

func init() { register("C45", c45) }

func c45(r *core.Run) {
	r.Explanation = "Decided clauses: (R1) primitive type tables: interpreter ConvertSemaToPrimitiveStaticType and PrimitiveStaticType.SemaType are mutually inverse with agreeing names, and runtime.ExportMeteredType maps every sema.XType to cadence.XType of the same name; " +
		"(R2) single formatter: the checker, static and external representations of optional, array, dictionary, reference, intersection, capability and entitlement-set types all build their type IDs through the shared sema.Format*TypeID helpers " +
		"(pinned census of the callers of each helper); (R3) the set-like helpers FormatIntersectionTypeID and FormatEntitlementSetTypeID sort their members before joining them on every path; " +
		"(R4) every conversion function between the three representations still reads every field of the source representation that it read on the reviewed tree (pinned field census, helpers followed); " +
		"(R5) no error of a type lookup inside the conversion functions is dropped or swallowed beyond the pinned baseline."
	r.NotDecided = "equality of IDs over all types and all conversion paths at run time."
	w := r.W
	ip := w.Pkg("interpreter")
	primNorm := func(s string) string {
		s = s[strings.LastIndex(s, ".")+1:]
		s = strings.TrimPrefix(s, "PrimitiveStaticType")
		s = strings.TrimPrefix(s, "The")
		return strings.TrimSuffix(s, "Type")
	}
	toPrim, _ := w.Decl(w.FuncObj("interpreter", "", "ConvertSemaToPrimitiveStaticType"))
	toSema, _ := w.Decl(w.FuncObj("interpreter", "PrimitiveStaticType", "SemaType"))
	if toPrim == nil || toSema == nil {
		r.Undecided("R1.tables", "interpreter primitive type tables", "do not resolve")
	} else {
		inverseTables(r, "R1.tables", "ConvertSemaToPrimitiveStaticType", "PrimitiveStaticType.SemaType", switchTable(toPrim, ip.TypesInfo), switchTable(toSema, ip.TypesInfo), primNorm, toPrim.Pos())
	}
	if exp, rp := w.Decl(w.FuncObj("runtime", "", "ExportMeteredType")); exp != nil {
		for k, v := range switchTable(exp, rp.TypesInfo) {
			if !strings.HasPrefix(k, "sema.") || !strings.HasPrefix(v, "..") && !strings.HasPrefix(v, ".") {
				continue
			}
			r.Check(primNorm(k) == primNorm(v), "R1.tables", "runtime.ExportMeteredType["+k+"] = "+v, exp.Pos(), "exported under its own name", "checker type "+k+" is exported as "+v)
		}
	} else {
		r.Undecided("R1.tables", "runtime.ExportMeteredType", "does not resolve")
	}
	r.Floor("R1.tables", 100)

	// R2 census of the shared ID formatters
	isFormatter := func(o *types.Func) bool {
		return o != nil && o.Pkg() != nil && o.Pkg().Path() == mod+"/sema" && strings.HasPrefix(o.Name(), "Format") && strings.HasSuffix(o.Name(), "TypeID") ||
			(o != nil && o.Pkg() != nil && o.Pkg().Path() == mod+"/sema" && o.Name() == "FormatIntersectionTypeIDWithSingleInterface")
	}
	got, deep := callerCounts(w, isFormatter, func(o *types.Func) string { return o.Name() })
	genCounts(r, "c45_formatter_callers", got)
	var pinned map[string]int
	if r.Table("c45_formatter_callers", &pinned) {
		for k, n := range pinned {
			r.Check(deep[k] >= n, "R2.formatter", k, 0, "type ID is built by the shared helper", "this representation no longer builds its type ID through the shared sema helper (pinned "+itoa(n)+" call(s), now "+itoa(deep[k])+"): IDs of the same type can diverge between representations")
		}
	}
	r.Floor("R2.formatter", 20)

	// R3 sort before join
	isSort := func(o *types.Func) bool {
		return o != nil && o.Pkg() != nil && (o.Pkg().Path() == "slices" || o.Pkg().Path() == "sort") && strings.Contains(o.Name(), "Sort")
	}
	for _, name := range []string{"FormatIntersectionTypeID", "FormatEntitlementSetTypeID"} {
		fn := w.Prog.FuncValue(w.FuncObj("sema", "", name))
		if fn == nil || len(fn.Blocks) == 0 {
			r.Undecided("R3.sorted", "sema."+name, "does not resolve")
			continue
		}
		ok := true
		for _, ret := range core.Returns(fn) {
			if !core.MustPass(ret, func(in ssa.Instruction) bool {
				c, isCall := in.(ssa.CallInstruction)
				return isCall && isSort(core.Callee(c))
			}) {
				ok = false
			}
		}
		r.Check(ok, "R3.sorted", "sema."+name+": members sorted before the ID is built", fn.Pos(), "every return passes slices.Sort of the member IDs",
			"the set-like type ID is built without sorting its members: the same set written in a different order gets a different ID")
	}
	r.Floor("R3.sorted", 2)

	// R4 conversions carry every field they carried on the pinned tree (FLD engine, pinned census)
	c45Fields(r)

	// R5 error discipline of the conversion functions (shared ERR rule): a type that fails to resolve must not silently vanish
	// from a converted type (an entitlement dropped from a set, a nil element type)
	errDiscipline(r, "R5.errdrop", "type conversion functions", isTypeConversionFn, 8)
}

var reConvFn = regexp.MustCompile(`^(?i:export|import).*(Type|Authorization|Types)$`)

func isTypeConversionFn(fn *ssa.Function) bool {
	if fn.Pkg == nil {
		return false
	}
	switch fn.Pkg.Pkg.Path() {
	case mod + "/interpreter":
		n := fn.Name()
		return strings.HasPrefix(n, "Convert") && fn.Signature.Recv() == nil && (strings.Contains(n, "Type") || strings.Contains(n, "Authorization") || strings.Contains(n, "Access"))
	case mod + "/runtime":
		return reConvFn.MatchString(fn.Name()) && fn.Signature.Recv() == nil
	}
	return false
}

// c45Fields: for every conversion function, the set of fields of checker / static / external type representations it reads
// (directly or through same-package helpers, depth 2) must include the set pinned for the reviewed tree: a conversion that
// stops reading a field (the kind of an entitlement set, the size of a constant-sized array, the authorization of a reference)
// replaces it by a constant and yields a different type, with a different ID, on the way back.
func c45Fields(r *core.Run) {
	const rule = "R4.fields"
	w := r.W
	typePkgs := map[string]bool{mod + "/sema": true, mod + "/interpreter": true, mod: true}
	direct := map[*ssa.Function]map[string]bool{}
	readsOf := func(fn *ssa.Function) map[string]bool {
		if m, ok := direct[fn]; ok {
			return m
		}
		m := map[string]bool{}
		direct[fn] = m
		note := func(t types.Type, idx int) {
			if p, ok := t.Underlying().(*types.Pointer); ok {
				t = p.Elem()
			}
			nt, ok := t.(*types.Named)
			if !ok || nt.Obj().Pkg() == nil || !typePkgs[nt.Obj().Pkg().Path()] {
				return
			}
			if !strings.HasSuffix(nt.Obj().Name(), "Type") && !strings.HasSuffix(nt.Obj().Name(), "Access") && !strings.HasSuffix(nt.Obj().Name(), "Authorization") {
				return
			}
			st, ok := nt.Underlying().(*types.Struct)
			if !ok || idx >= st.NumFields() {
				return
			}
			m[nt.Obj().Pkg().Name()+"."+nt.Obj().Name()+"."+st.Field(idx).Name()] = true
		}
		core.Instrs(fn, true, func(in ssa.Instruction) {
			switch x := in.(type) {
			case *ssa.FieldAddr:
				// reads only: the address must be loaded, not stored to
				if refs := x.Referrers(); refs != nil {
					for _, ref := range *refs {
						if st, ok := ref.(*ssa.Store); ok && st.Addr == x {
							return
						}
					}
				}
				note(x.X.Type(), x.Field)
			case *ssa.Field:
				note(x.X.Type(), x.Field)
			}
		})
		return m
	}
	got := map[string][]string{}
	for _, fn := range w.SrcFuncs() {
		if fn.Parent() != nil || !isTypeConversionFn(fn) {
			continue
		}
		all := map[string]bool{}
		seen := map[*ssa.Function]bool{}
		var visit func(f *ssa.Function, d int)
		visit = func(f *ssa.Function, d int) {
			if f == nil || seen[f] || len(f.Blocks) == 0 {
				return
			}
			seen[f] = true
			for k := range readsOf(f) {
				all[k] = true
			}
			if d >= 2 {
				return
			}
			for _, c := range core.Calls(f, true) {
				if sf := core.StaticFn(c); sf != nil && sf.Pkg == fn.Pkg && !isTypeConversionFn(sf) {
					visit(sf, d+1)
				}
			}
		}
		visit(fn, 0)
		if len(all) > 0 {
			got[core.SSAKey(fn)] = sortedKeys(all)
		}
	}
	// keyed by package and field (not by function): conversions may be merged, split or inlined freely
	union := map[string][]string{}
	for fk, fields := range got {
		pkg := fk[:strings.Index(fk, ".")]
		for _, f := range fields {
			k := pkg + " conversions read " + f
			union[k] = append(union[k], fk)
		}
	}
	if genMode() {
		keys := map[string]int{}
		for k, v := range union {
			keys[k] = len(v)
		}
		genJSON(r, "c45_conversion_fields", keys)
		return
	}
	var pinned map[string]int
	if !r.Table("c45_conversion_fields", &pinned) {
		return
	}
	for _, k := range sortedKeys(pinned) {
		sort.Strings(union[k])
		r.Check(len(union[k]) > 0, rule, k, 0, "read by "+strings.Join(union[k], ", "),
			"no conversion function of the package reads this field of the source representation any more: the converted type carries a constant instead and is not equal to the original")
	}
	r.Floor(rule, 40)
}
