package rules

import (
	"go/types"
	"strings"

	"golang.org/x/tools/go/ssa"

	"cadcheck/core"
)

func init() {
	register("C05", c05)
}

func c05(r *core.Run) {
	r.Explanation = "Decided clauses, for ArrayValue, DictionaryValue and CompositeValue Transfer, path-sensitively in the value of v.IsResourceKinded(context) and of the remove parameter: " +
		"(R1) when the value is not resource-kinded every returning path has built a new atree container (CopyNonRefSimple or New…FromBatchData); with remove=false and a non-resource value the source's backing container is never cleared and its elements never popped; " +
		"(R2) AccountStorageCopy-style reads transfer with remove=false, loads with remove=true (census of the Transfer call arguments in the storage API)."
	r.NotDecided = "that the atree copy is deep for every shape (inlining thresholds); aliasing of nested containers at run time."
	transferCopyProtocol(r, "R1.copy")
	r.Floor("R1.copy", 9)

	// R2 census: every native/visitor that copies values by calling Value.Transfer keeps its call sites
	w := r.W
	isTransferLike := func(o *types.Func) bool {
		return o != nil && (strings.HasPrefix(o.Name(), "Transfer") || strings.HasPrefix(o.Name(), "transfer")) && o.Pkg() != nil && core.InMod(o.Pkg().Path())
	}
	got, deep := callerCounts(w, isTransferLike, func(o *types.Func) string { return o.Name() })
	for k := range got {
		rel := k[:strings.Index(k, ".")]
		if rel != "interpreter" && rel != "stdlib" && rel != "bbq/vm" && rel != "runtime" {
			delete(got, k)
		}
	}
	genCounts(r, "c05_transfer_sites", got)
	var pinned map[string]int
	if r.Table("c05_transfer_sites", &pinned) {
		for k, n := range pinned {
			r.Check(deep[k] >= n, "R2.census", k, 0, "value transfer (copy/move) call sites present ("+itoa(deep[k])+")",
				"a Value.Transfer call was removed from this function (pinned "+itoa(n)+", now "+itoa(deep[k])+"): a value is passed on without being copied and aliases its source")
		}
	}
	r.Floor("R2.census", 50)

	// R3 dereference returns the copy: every value DereferenceValue returns is (a wrapper of) the Transfer result
	if fn := mustFn(r, "R3.deref", "interpreter", "", "DereferenceValue"); fn != nil {
		isTransferResult := func(v ssa.Value) bool {
			v = core.Unwrap(v)
			c, ok := v.(*ssa.Call)
			if !ok {
				return false
			}
			o := core.Callee(c)
			return o != nil && o.Name() == "Transfer"
		}
		for _, ret := range core.Returns(fn) {
			v := core.Unwrap(ret.Results[0])
			ok := false
			why := "returns a value that is not the result of Transfer"
			switch x := v.(type) {
			case *ssa.Const, *ssa.UnOp:
				ok = true // Nil
				if u, isU := x.(*ssa.UnOp); isU {
					if _, isG := u.X.(*ssa.Global); !isG {
						ok = false
					}
				}
			case *ssa.Call:
				if isTransferResult(x) {
					ok = true
				} else if o := core.Callee(x); o != nil && o.Name() == "NewSomeValueNonCopying" {
					ok = isTransferResult(x.Call.Args[len(x.Call.Args)-1])
					why = "wraps the referenced value itself instead of its transferred copy"
				}
			}
			r.Check(ok, "R3.deref", "interpreter.DereferenceValue: "+retText(ret), ret.Pos(), "returns Nil or (a wrapper of) the transferred copy", "dereference "+why+": the result aliases the referenced value")
		}
	}
	r.Floor("R3.deref", 2)
}
