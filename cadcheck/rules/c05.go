package rules

import (
	"go/types"
	"strings"

	"golang.org/x/tools/go/ssa"

	"cadcheck/core"
)

func init() {
	register("C05", c05)
}

func c05(r *core.Run) {
	r.Explanation = "Decided clauses, for ArrayValue, DictionaryValue and CompositeValue Transfer, path-sensitively in the value of v.IsResourceKinded(context) and of the remove parameter: " +
		"(R1) when the value is not resource-kinded every returning path has built a new atree container (CopyNonRefSimple or New…FromBatchData); with remove=false and a non-resource value the source's backing container is never cleared and its elements never popped; " +
		"(R2) AccountStorageCopy-style reads transfer with remove=false, loads with remove=true (census of the Transfer call arguments in the storage API)."
	r.NotDecided = "that the atree copy is deep for every shape (inlining thresholds); aliasing of nested containers at run time."
	transferCopyProtocol(r, "R1.copy")
	r.Floor("R1.copy", 9)

	// R2 census: every native/visitor that copies values by calling Value.Transfer keeps its call sites
	w := r.W
	isTransferLike := func(o *types.Func) bool {
		return o != nil && (strings.HasPrefix(o.Name(), "Transfer") || strings.HasPrefix(o.Name(), "transfer")) && o.Pkg() != nil && core.InMod(o.Pkg().Path())
	}
	got, deep := callerCounts(w, isTransferLike, func(o *types.Func) string { return o.Name() })
	for k := range got {
		rel := k[:strings.Index(k, ".")]
		if rel != "interpreter" && rel != "stdlib" && rel != "bbq/vm" && rel != "runtime" {
			delete(got, k)
		}
	}
	genCounts(r, "c05_transfer_sites", got)
	var pinned map[string]int
	if r.Table("c05_transfer_sites", &pinned) {
		for k, n := range pinned {
			r.Check(deep[k] >= n, "R2.census", k, 0, "value transfer (copy/move) call sites present ("+itoa(deep[k])+")",
				"a Value.Transfer call was removed from this function (pinned "+itoa(n)+", now "+itoa(deep[k])+"): a value is passed on without being copied and aliases its source")
		}
	}
	r.Floor("R2.census", 50)

	// R3 dereference returns the copy: every value DereferenceValue returns is (a wrapper of) the Transfer result
	if fn := mustFn(r, "R3.deref", "interpreter", "", "DereferenceValue"); fn != nil {
		isTransferResult := func(v ssa.Value) bool {
			v = core.Unwrap(v)
			c, ok := v.(*ssa.Call)
			if !ok {
				return false
			}
			o := core.Callee(c)
			return o != nil && o.Name() == "Transfer"
		}
		for _, ret := range core.Returns(fn) {
			v := core.Unwrap(ret.Results[0])
			ok := false
			why := "returns a value that is not the result of Transfer"
			switch x := v.(type) {
			case *ssa.Const, *ssa.UnOp:
				ok = true // Nil
				if u, isU := x.(*ssa.UnOp); isU {
					if _, isG := u.X.(*ssa.Global); !isG {
						ok = false
					}
				}
			case *ssa.Call:
				if isTransferResult(x) {
					ok = true
				} else if o := core.Callee(x); o != nil && o.Name() == "NewSomeValueNonCopying" {
					ok = isTransferResult(x.Call.Args[len(x.Call.Args)-1])
					why = "wraps the referenced value itself instead of its transferred copy"
				}
			}
			r.Check(ok, "R3.deref", "interpreter.DereferenceValue: "+retText(ret), ret.Pos(), "returns Nil or (a wrapper of) the transferred copy", "dereference "+why+": the result aliases the referenced value")
		}
	}
	r.Floor("R3.deref", 2)
	c05Handouts(r)

	// R5 optionals copy their payload: in SomeValue.Transfer, when the value is not resource-kinded, every return has passed the
	// transfer (copy) of the inner value — path-sensitively in the result of IsResourceKinded
	if fn := mustFn(r, "R5.some", "interpreter", "SomeValue", "Transfer"); fn != nil {
		var as []core.Assumption
		for _, c := range core.Calls(fn, false) {
			if o := core.Callee(c); o != nil && o.Name() == "IsResourceKinded" {
				if v, ok := c.(ssa.Value); ok {
					as = append(as, core.Assumption{Var: core.BoolVar{Call: v}, Val: false})
				}
			}
		}
		isInnerTransfer := func(in ssa.Instruction) bool {
			c, ok := in.(ssa.CallInstruction)
			if !ok {
				return false
			}
			return c.Common().IsInvoke() && c.Common().Method.Name() == "Transfer"
		}
		isRet := func(in ssa.Instruction) bool { _, ok := in.(*ssa.Return); return ok }
		if len(as) == 0 {
			r.Undecided("R5.some", core.SSAKey(fn), "no IsResourceKinded test")
		} else {
			hit := core.ReachUnder(fn, as, nil, isInnerTransfer, isRet)
			r.Check(hit == nil, "R5.some", core.SSAKey(fn)+": non-resource payload is transferred", fn.Pos(), "with IsResourceKinded() == false every return passes the inner value's Transfer",
				"an optional wrapping a non-resource value can be transferred without copying its payload: `let b = a` with a: [[Int]]? makes b and a share the inner array")
		}
	}
	r.Floor("R5.some", 1)
}

// c05Handouts: R4 — elements read from a container's storage are copied before they are handed out: a function (literal) of
// the interpreter that returns a value obtained through MustConvertStoredValue returns the result of its Transfer, unless the
// skip is decided by canCopyNonRefSimpleForType of the element's own type field (keys by KeyType, values by ValueType).
// Returns that hand out the stored object itself on the reviewed tree (reference-like accessors) are a recorded baseline.
func c05Handouts(r *core.Run) {
	const rule = "R4.handout"
	w := r.W
	got := map[string]int{}
	var all []*ssa.Function
	var collect func(f *ssa.Function)
	collect = func(f *ssa.Function) {
		all = append(all, f)
		for _, a := range f.AnonFuncs {
			collect(a)
		}
	}
	for _, fn := range w.SrcFuncsIn("interpreter") {
		if fn.Parent() == nil {
			collect(fn)
		}
	}
	n := 0
	for _, fn := range all {
		top := fn
		for top.Parent() != nil {
			top = top.Parent()
		}
		for _, ret := range core.Returns(fn) {
			for _, res := range ret.Results {
				lv := core.OriginLeavesVia(res)
				if !strings.Contains(lv, "via:MustConvertStoredValue") {
					continue
				}
				n++
				if strings.Contains(lv, "via:Transfer") || strings.Contains(lv, "via:TransferAndConvert") || strings.Contains(lv, "via:Clone") {
					continue
				}
				// a skip decided by the element's own type
				allowed := false
				for _, a := range core.ControllingConds(ret) {
					d := core.ValueDesc(a.Var.Call)
					if !strings.Contains(d, "via:canCopyNonRefSimpleForType") {
						continue
					}
					switch {
					case strings.Contains(lv, "via:NextKey") && strings.Contains(d, ".KeyType") && !strings.Contains(d, ".ValueType"),
						strings.Contains(lv, "via:NextValue") && strings.Contains(d, ".ValueType") && !strings.Contains(d, ".KeyType"):
						allowed = true
					}
				}
				if !allowed {
					got[core.SSAKey(top)]++
				}
			}
		}
	}
	if genMode() {
		genJSON(r, "c05_raw_handouts", got)
		return
	}
	var base map[string]int
	if !r.Table("c05_raw_handouts", &base) {
		return
	}
	for _, k := range sortedKeys(got) {
		if got[k] <= base[k] {
			r.OK(rule, k, 0, "hands out the stored object on the reviewed tree as well (recorded baseline)")
		} else {
			r.Bad(rule, k, 0, "a value read from a container's storage is returned without being transferred (copied), and the skip is not decided by canCopyNonRefSimpleForType of the element's own type: the result aliases the container's element")
		}
	}
	r.OK(rule, "interpreter scan", 0, itoa(n)+" returns of stored values examined")
	r.Floor(rule, 1)
}
