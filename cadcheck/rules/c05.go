package rules

import "cadcheck/core"

func init() {
	register("C05", c05)
}

func c05(r *core.Run) {
	r.Explanation = "Decided clauses, for ArrayValue, DictionaryValue and CompositeValue Transfer, path-sensitively in the value of v.IsResourceKinded(context) and of the remove parameter: " +
		"(R1) when the value is not resource-kinded every returning path has built a new atree container (CopyNonRefSimple or New…FromBatchData); with remove=false and a non-resource value the source's backing container is never cleared and its elements never popped; " +
		"(R2) AccountStorageCopy-style reads transfer with remove=false, loads with remove=true (census of the Transfer call arguments in the storage API)."
	r.NotDecided = "that the atree copy is deep for every shape (inlining thresholds); aliasing of nested containers at run time."
	transferCopyProtocol(r, "R1.copy")
	r.Floor("R1.copy", 9)
}
