package rules

import (
	"go/ast"
	"go/token"
	"go/types"
	"strconv"

	"golang.org/x/tools/go/ssa"

	"cadcheck/core"
)

func init() { register("C14", c14) }

var bitwiseMethods = []string{"BitwiseOr", "BitwiseXor", "BitwiseAnd", "BitwiseLeftShift", "BitwiseRightShift"}

// shiftGuardRule: every native shift whose count has a signed integer type, and every big.Int Lsh/Rsh whose count
// derives from a big operand, is syntactically dominated by an if with a `<` comparison on a root variable of the
// count whose body ends in panic(&NegativeShiftError{}).
func shiftGuardRule(r *core.Run, rule string, pick func(key string) bool) {
	w := r.W
	p := w.Pkg("interpreter")
	if p == nil {
		r.Undecided(rule, "interpreter", "package not loaded")
		return
	}
	info := p.TypesInfo
	for _, fd := range w.FuncDeclsIn("interpreter") {
		key := core.DeclKey(p, fd)
		if !pick(key) {
			continue
		}
		type guard struct {
			stmt *ast.IfStmt
			vars map[*types.Var]bool
		}
		var guards []guard
		ast.Inspect(fd, func(n ast.Node) bool {
			ifs, ok := n.(*ast.IfStmt)
			if !ok {
				return true
			}
			thrown, ends := core.EndsInPanicOrReturn(ifs.Body)
			if !ends || thrown == nil {
				return true
			}
			t := thrown
			if ue, ok := t.(*ast.UnaryExpr); ok && ue.Op == token.AND {
				t = ue.X
			}
			if _, tn := core.ExprTypeName(t, info); tn != "NegativeShiftError" {
				return true
			}
			hasLt := false
			ast.Inspect(ifs.Cond, func(m ast.Node) bool {
				if be, ok := m.(*ast.BinaryExpr); ok && be.Op == token.LSS {
					hasLt = true
				}
				return true
			})
			if !hasLt {
				return true
			}
			vs := map[*types.Var]bool{}
			for _, v := range core.RootVars(ifs.Cond, info) {
				vs[v] = true
			}
			guards = append(guards, guard{ifs, vs})
			return true
		})
		check := func(site ast.Node, count ast.Expr, what string, needGuard bool) {
			ckey := key + ": " + what + " by " + types.ExprString(core.StripConv(count, info))
			if !needGuard {
				r.OK(rule, ckey, site.Pos(), "shift count has an unsigned type: it cannot be negative")
				return
			}
			for _, g := range guards {
				shared := false
				for _, v := range core.RootVars(count, info) {
					if g.vars[v] {
						shared = true
					}
				}
				if shared && core.SynDominates(fd, g.stmt, site) {
					r.OK(rule, ckey, site.Pos(), "dominated by the negative-count test at "+w.Pos(g.stmt.Pos())+" raising NegativeShiftError")
					return
				}
			}
			r.Bad(rule, ckey, site.Pos(), "shift whose count can be negative is not dominated by a test raising NegativeShiftError (a negative count is a Go run-time panic, i.e. an internal error)")
		}
		ast.Inspect(fd, func(n ast.Node) bool {
			switch x := n.(type) {
			case *ast.BinaryExpr:
				if x.Op == token.SHL || x.Op == token.SHR {
					if core.IsConst(x.Y, info) {
						return true
					}
					signed := false
					if tv, ok := info.Types[x.Y]; ok {
						if b, ok := tv.Type.Underlying().(*types.Basic); ok && b.Info()&types.IsUnsigned == 0 {
							signed = true
						}
					}
					check(x, x.Y, x.Op.String(), signed)
				}
			case *ast.CallExpr:
				if sel, ok := x.Fun.(*ast.SelectorExpr); ok && (sel.Sel.Name == "Lsh" || sel.Sel.Name == "Rsh") && len(x.Args) == 2 {
					if f, ok := info.Uses[sel.Sel].(*types.Func); ok && f.Pkg() != nil && f.Pkg().Path() == "math/big" {
						// the count is uint(o.BigInt.Uint64()): negative big operands must have been excluded for signed types
						signedOperand := false
						for _, v := range core.RootVars(x.Args[1], info) {
							if _, tn := core.TypeName(v.Type()); len(tn) > 0 && tn[0] == 'I' { // Int128Value / Int256Value / IntValue
								signedOperand = true
							}
						}
						check(x, x.Args[1], "big.Int."+sel.Sel.Name, signedOperand)
					}
				}
			}
			return true
		})
	}
}

func c14(r *core.Run) {
	r.Explanation = "Decided clauses: (R1) shift methods of signed types raise exactly {NegativeShift}, of unsigned and Word types nothing; every native shift with a signed count and every big.Int Lsh/Rsh of a signed type " +
		"is dominated by the negative-count test raising NegativeShiftError; (R2) BitwiseOr/Xor/And/LeftShift/RightShift of sibling widths agree modulo the family parameters — " +
		"(R3) the two's-complement sign is extracted from a byte string of the type's full width; in particular the `>= W` shift-amount test, toTwosComplement(…, W) and truncate(…, W/wordsize) use the type's own width (a literal that is the width of one sibling but not of the other is reported); (R4) a right shift of a signed type returns a constant only under a test of the receiver's sign."
	r.NotDecided = "the two's-complement result values beyond the structural clauses R1–R4."
	signed := append(append([]string{}, signedNative...), signedBig...)
	unsigned := append(append(append(append([]string{}, unsignedNative...), unsignedBig...), wordNative...), wordBig...)
	for _, t := range signed {
		signatureRule(r, "R1.signature", t+"Value", "BitwiseLeftShift", kindSet("NegativeShift"))
		signatureRule(r, "R1.signature", t+"Value", "BitwiseRightShift", kindSet("NegativeShift"))
	}
	for _, m := range []string{"BitwiseLeftShift", "BitwiseRightShift"} {
		// unbounded types may additionally fail with an overflow error when the count does not fit in 64 bits
		signatureRange(r, "R1.signature", "IntValue", m, []string{"NegativeShift"}, []string{"Overflow"})
		signatureRange(r, "R1.signature", "UIntValue", m, nil, []string{"NegativeShift", "Overflow"})
		for _, t := range append(append([]string{}, unsignedNative...), wordNative...) {
			signatureRule(r, "R1.signature", t+"Value", m, "")
		}
		for _, t := range append(append([]string{}, unsignedBig...), wordBig...) {
			// big unsigned values keep a defensive (never firing) negative-count test
			signatureRange(r, "R1.signature", t+"Value", m, nil, []string{"NegativeShift"})
		}
	}
	for _, t := range append(append([]string{}, signed...), unsigned...) {
		for _, m := range []string{"BitwiseOr", "BitwiseXor", "BitwiseAnd"} {
			signatureRule(r, "R1.signature", t+"Value", m, "")
		}
	}
	r.Floor("R1.signature", 90)
	all := append(append([]string{}, signed...), unsigned...)
	all = append(all, "Int", "UInt")
	shiftGuardRule(r, "R1.negshift", func(key string) bool { return isMethodOf(key, all, "BitwiseLeftShift", "BitwiseRightShift") })
	r.Floor("R1.negshift", 30)
	siblingRule(r, "R2.siblings", allFamilies, func(g string) bool { return isGroupOf(g, bitwiseMethods...) })
	r.Floor("R2.siblings", 30)

	// R3 sign extraction uses the full width: a two's-complement byte string handed to BigEndianBytesToSignedBigInt must have the
	// type's fixed length; big.Int.Bytes() is the *minimal* byte string, whose top bit is not the sign bit of the type
	w := r.W
	isSigned := funcOf(mod+"/values", "BigEndianBytesToSignedBigInt")
	n := 0
	for _, fn := range w.SrcFuncs() {
		if fn.Parent() != nil {
			continue
		}
		for _, c := range core.CallsTo(fn, true, isSigned) {
			n++
			arg := core.Unwrap(c.Common().Args[0])
			minimal := false
			if call, ok := arg.(*ssa.Call); ok {
				if o := core.Callee(call); o != nil && o.Pkg() != nil && o.Pkg().Path() == "math/big" && o.Name() == "Bytes" {
					minimal = true
				}
			}
			r.Check(!minimal, "R3.signwidth", core.SSAKey(fn)+" -> BigEndianBytesToSignedBigInt", posOf(c), "argument is not the minimal byte string of a big.Int",
				"the sign is read from big.Int.Bytes(), whose top bit is the top bit of the most significant non-zero byte, not the sign bit of the type: e.g. Int128(128) << 0 yields -128")
		}
	}
	r.Floor("R3.signwidth", 2)

	// R4 arithmetic right shift: floor(x / 2^n) of a negative x is never a constant — a return of a constant value from the
	// right shift of a signed type (the "count too large" shortcut) must be decided by a test of the receiver's sign
	type shiftFn struct{ rel, recv string }
	var shiftFns []shiftFn
	for _, t := range signed {
		shiftFns = append(shiftFns, shiftFn{"interpreter", t + "Value"})
	}
	// the unbounded Int lives in package values (the interpreter's IntValue delegates to it)
	shiftFns = append(shiftFns, shiftFn{"values", "IntValue"})
	for _, sf := range shiftFns {
		fn := mustFn(r, "R4.shiftsign", sf.rel, sf.recv, "BitwiseRightShift")
		if fn == nil {
			continue
		}
		if len(fn.Params) == 0 {
			r.Undecided("R4.shiftsign", core.SSAKey(fn), "no receiver parameter")
			continue
		}
		recv := fn.Params[0]
		dependsOnRecv := func(v ssa.Value) bool {
			seen := map[ssa.Value]bool{}
			var walk func(x ssa.Value, d int) bool
			walk = func(x ssa.Value, d int) bool {
				if x == nil || seen[x] || d > 8 {
					return false
				}
				seen[x] = true
				if core.IsParamValue(x, recv) {
					return true
				}
				if al, ok := x.(*ssa.Alloc); ok {
					// the spilled receiver cell
					if refs := al.Referrers(); refs != nil {
						for _, ref := range *refs {
							if st, ok := ref.(*ssa.Store); ok && st.Addr == al && st.Val == recv {
								return true
							}
						}
					}
				}
				in, ok := x.(ssa.Instruction)
				if !ok {
					return false
				}
				for _, op := range in.Operands(nil) {
					if op != nil && *op != nil && walk(*op, d+1) {
						return true
					}
				}
				return false
			}
			return walk(v, 0)
		}
		dependsOnRecvDirect := func(v ssa.Value) bool {
			for i := 0; i < 6; i++ {
				switch y := v.(type) {
				case *ssa.Convert:
					v = y.X
					continue
				case *ssa.ChangeType:
					v = y.X
					continue
				case *ssa.UnOp:
					v = y.X
					continue
				case *ssa.Field:
					v = y.X
					continue
				case *ssa.FieldAddr:
					v = y.X
					continue
				}
				break
			}
			return dependsOnRecv(v) && func() bool { _, isCall := v.(*ssa.Call); return !isCall }()
		}
		// a test of the receiver's *sign*: a Sign() call on (a part of) the receiver, or a comparison of the receiver with
		// the constant 0 — not any property of the receiver (its bit length says nothing about the sign)
		signTest := func(v ssa.Value) bool {
			seen := map[ssa.Value]bool{}
			var walk func(x ssa.Value, d int) bool
			walk = func(x ssa.Value, d int) bool {
				if x == nil || seen[x] || d > 8 {
					return false
				}
				seen[x] = true
				switch y := x.(type) {
				case *ssa.Call:
					if o := core.Callee(y); o != nil && o.Name() == "Sign" && len(y.Call.Args) > 0 && dependsOnRecv(y.Call.Args[0]) {
						return true
					}
				case *ssa.BinOp:
					if c, ok := y.Y.(*ssa.Const); ok && c.Value != nil && c.Value.ExactString() == "0" && dependsOnRecvDirect(y.X) {
						return true
					}
					if c, ok := y.X.(*ssa.Const); ok && c.Value != nil && c.Value.ExactString() == "0" && dependsOnRecvDirect(y.Y) {
						return true
					}
				}
				in, ok := x.(ssa.Instruction)
				if !ok {
					return false
				}
				for _, op := range in.Operands(nil) {
					if op != nil && *op != nil && walk(*op, d+1) {
						return true
					}
				}
				return false
			}
			return walk(v, 0)
		}
		var constResult func(v ssa.Value, d int) bool
		constResult = func(v ssa.Value, d int) bool {
			if d > 4 {
				return false
			}
			switch x := v.(type) {
			case *ssa.Const:
				return true
			case *ssa.MakeInterface:
				return constResult(x.X, d+1)
			case *ssa.ChangeType:
				return constResult(x.X, d+1)
			case *ssa.Convert:
				return constResult(x.X, d+1)
			case *ssa.Call:
				// a constructor applied to constants only (context arguments aside)
				nconst := 0
				for _, a := range x.Call.Args {
					if _, ok := a.(*ssa.Const); ok {
						nconst++
					} else if !types.IsInterface(a.Type()) {
						return false
					}
				}
				return nconst > 0
			}
			return false
		}
		nret := 0
		for _, b := range fn.Blocks {
			for _, in := range b.Instrs {
				ret, ok := in.(*ssa.Return)
				if !ok || len(ret.Results) < 1 || len(ret.Results) > 2 {
					continue
				}
				if len(ret.Results) == 2 {
					// (value, error): only returns without an error carry a result
					if c, isConst := ret.Results[1].(*ssa.Const); !isConst || !c.IsNil() {
						continue
					}
				}
				nret++
				key := core.SSAKey(fn) + ": return #" + strconv.Itoa(nret)
				if !constResult(ret.Results[0], 0) {
					r.OK("R4.shiftsign", key, ret.Pos(), "result computed from the operands")
					continue
				}
				decided := false
				for _, a := range core.ControllingConds(ret) {
					if a.Var.Call != nil && signTest(a.Var.Call) {
						decided = true
					}
				}
				r.Check(decided, "R4.shiftsign", key, ret.Pos(), "constant result returned under a test of the receiver (its sign)",
					"a constant is returned from the right shift of a signed value without consulting the receiver: floor(x / 2^n) is -1, not 0, for negative x and large n")
			}
		}
	}
	r.Floor("R4.shiftsign", len(signed))
}
