package rules

import (
	"go/types"
	"strings"

	"golang.org/x/tools/go/ssa"

	"cadcheck/core"
)

func init() { register("C22", c22) }

// condIsCall: assumption a is the outcome `want` of a call to a function named name.
func condIsCall(a core.Assumption, name string, want bool) bool {
	c, ok := core.Origin(a.Var.Call).(*ssa.Call)
	if !ok || a.Val != want {
		return false
	}
	o := core.Callee(c)
	return o != nil && o.Name() == name
}

func controlledBy(in ssa.Instruction, name string, want bool) bool {
	for _, a := range core.ControllingConds(in) {
		if condIsCall(a, name, want) {
			return true
		}
	}
	return false
}

// constBoolArg returns the constant bool value of argument #i (counting from the first explicit argument) of the call.
func constBoolArg(c ssa.CallInstruction, i int) (bool, bool) {
	args := c.Common().Args
	if c.Common().IsInvoke() {
		// invoke: Args exclude the receiver
	} else if c.Common().Signature().Recv() != nil {
		i++
	}
	if i >= len(args) {
		return false, false
	}
	k, ok := args[i].(*ssa.Const)
	if !ok || k.Value == nil {
		return false, false
	}
	return k.Value.ExactString() == "true", true
}

func c22(r *core.Run) {
	r.Explanation = "Decided clauses for the account storage API natives (shared by interpreter and VM): (R1) save: WriteStored executes only when StoredValueExists is false (otherwise OverwriteError) and the value is transferred with remove=true; " +
		"(R2) copy/load: a non-nil result is returned only when IsSubTypeOfSemaType(stored static type, T) is true (otherwise StoredValueTypeMismatchError); copy transfers with remove=false and never removes or writes, load removes the entry and transfers with remove=true; " +
		"check returns either false for an empty path or exactly the result of IsSubTypeOfSemaType; borrow returns a reference only after dereference (which type-checks) succeeded; " +
		"(R3) path enumeration (storagePaths/publicPaths/forEach*) iterates the complete domain storage map (Iterator), never a loaded-values-only iterator."
	r.NotDecided = "the map model across transactions, commits and aborts; behaviour of the domain storage map itself."
	w := r.W
	isTransfer := func(o *types.Func) bool { return o != nil && o.Name() == "Transfer" && core.RecvName(o) != "" }
	named := func(n string) func(*types.Func) bool {
		return func(o *types.Func) bool { return o != nil && o.Name() == n }
	}

	// R1 save
	if fn := mustFn(r, "R1.save", "interpreter", "", "AccountStorageSave"); fn != nil {
		for _, c := range callsIn(r, "R1.save", fn, "WriteStored", named("WriteStored")) {
			r.Check(controlledBy(c, "StoredValueExists", false), "R1.save", "interpreter.AccountStorageSave: WriteStored only if the path is empty", posOf(c),
				"controlled by StoredValueExists == false", "the stored value is written without (or regardless of) the existence test: save can overwrite an occupied path")
		}
		for _, c := range callsIn(r, "R1.save", fn, "Transfer", isTransfer) {
			v, ok := constBoolArg(c, 2)
			r.Check(ok && v, "R1.save", "interpreter.AccountStorageSave: Transfer(remove=true)", posOf(c), "moves the value into account storage", "save does not transfer the value with remove=true")
		}
	}
	// R2 copy / load
	for _, spec := range []struct {
		fn     string
		remove bool
	}{{"AccountStorageCopy", false}, {"AccountStorageLoad", true}} {
		fn := mustFn(r, "R2.typed", "interpreter", "", spec.fn)
		if fn == nil {
			continue
		}
		key := "interpreter." + spec.fn
		for _, c := range callsIn(r, "R2.typed", fn, "NewSomeValueNonCopying", named("NewSomeValueNonCopying")) {
			r.Check(controlledBy(c, "IsSubTypeOfSemaType", true), "R2.typed", key+": non-nil result only if the stored type is a subtype of T", posOf(c),
				"controlled by IsSubTypeOfSemaType == true", "a value is returned without the dynamic type test against the requested type")
		}
		for _, c := range callsIn(r, "R2.typed", fn, "Transfer", isTransfer) {
			v, ok := constBoolArg(c, 2)
			r.Check(ok && v == spec.remove, "R2.typed", key+": Transfer(remove="+map[bool]string{true: "true", false: "false"}[spec.remove]+")", posOf(c),
				"transfer mode matches copy/move semantics", "the stored value is transferred with the wrong remove flag")
		}
		removes := core.CallsTo(fn, true, anyOf(named("RemoveStored"), named("WriteStored")))
		if spec.remove {
			r.Check(len(core.CallsTo(fn, true, named("RemoveStored"))) > 0, "R2.typed", key+": removes the entry", fn.Pos(), "RemoveStored called", "load no longer removes the stored entry")
		} else {
			r.Check(len(removes) == 0, "R2.typed", key+": leaves storage untouched", fn.Pos(), "no RemoveStored/WriteStored", "copy removes or writes the stored entry")
		}
	}
	// check
	if fn := mustFn(r, "R2.typed", "interpreter", "", "AccountStorageCheck"); fn != nil {
		sub := core.CallsTo(fn, false, named("IsSubTypeOfSemaType"))
		for _, ret := range core.Returns(fn) {
			v := core.Unwrap(ret.Results[0])
			ok := false
			why := ""
			switch x := v.(type) {
			case *ssa.Const:
				ok = x.Value != nil && x.Value.ExactString() == "false"
				why = "returns the constant " + x.String() + " without consulting the stored value's type"
			case *ssa.ChangeType:
				for _, c := range sub {
					if x.X == c.Value() {
						ok = true
					}
				}
				why = "returned value is not the result of IsSubTypeOfSemaType"
			default:
				for _, c := range sub {
					if v == c.Value() {
						ok = true
					}
				}
				why = "returned value is not the result of IsSubTypeOfSemaType"
			}
			r.Check(ok, "R2.typed", "interpreter.AccountStorageCheck: "+core.Short(strings.TrimSpace(retText(ret))), ret.Pos(), "false for an empty path or exactly the subtype test", why)
		}
	}
	// borrow
	if fn := mustFn(r, "R2.typed", "interpreter", "", "AccountStorageBorrow"); fn != nil {
		for _, c := range callsIn(r, "R2.typed", fn, "NewSomeValueNonCopying", named("NewSomeValueNonCopying")) {
			deref := core.CallsTo(fn, false, named("dereference"))
			ok := len(deref) == 1 && core.Dominates(deref[0], c) && len(core.UncheckedErrorsBefore(c)) == 0
			r.Check(ok, "R2.typed", "interpreter.AccountStorageBorrow: reference returned only after a successful dereference", posOf(c),
				"dereference (dynamic type check) precedes and its error is tested", "a storage reference is handed out without a successful type-checked dereference")
		}
	}
	r.Floor("R1.save", 2)
	r.Floor("R2.typed", 9)

	// R3 enumeration uses the complete iterator
	partial := func(o *types.Func) bool {
		return o != nil && strings.Contains(o.Name(), "LoadedValueIterator") || (o != nil && o.Name() == "ReadOnlyLoadedValueIterator")
	}
	for k, ps := range w.CallersOf(partial) {
		if k == "interpreter.(DomainStorageMap).ReadOnlyLoadedValueIterator" || k == "interpreter.(AccountStorageMap).ReadOnlyLoadedValueIterator" {
			continue // the wrapper method itself (its callers are what matters)
		}
		r.Bad("R3.enumeration", k+" -> loaded-values-only iterator", ps[0], "iterates only the values already loaded in memory: entries not yet loaded from storage are skipped")
	}
	for _, name := range []string{"domainPaths", "AccountStorageIterate"} {
		if fn := mustFn(r, "R3.enumeration", "interpreter", "", name); fn != nil {
			census(r, "R3.enumeration", fn, "DomainStorageMap.Iterator", func(o *types.Func) bool {
				return o != nil && o.Name() == "Iterator" && core.RecvName(o) == "DomainStorageMap"
			}, 1)
		}
	}
	r.Floor("R3.enumeration", 2)

	// R4 the VM registers each storage built-in under its own implementation (shared row rule of C34.R10, storage members only)
	vmRegistrationRows(r, "R4.vmnatives", func(tag string) bool { return strings.Contains(tag, "accountstorage") })

	// R5 first writes of several accounts keep address and slab index together: every call of writeAccountStorageSlabIndex in
	// AccountStorage.commit takes both operands from one element — the same map iteration step or the same element of the
	// sorted slice (two parallel slices of which only one is sorted pair an address with another account's slab index)
	if fn := mustFn(r, "R5.pairs", "runtime", "AccountStorage", "commit"); fn != nil {
		elem := func(v ssa.Value) ssa.Value {
			for d := 0; d < 8; d++ {
				switch x := v.(type) {
				case *ssa.Extract:
					return x.Tuple // map range step (Next) or call result
				case *ssa.UnOp:
					v = x.X
				case *ssa.Field:
					v = x.X
				case *ssa.FieldAddr:
					v = x.X
				case *ssa.IndexAddr:
					return x
				case *ssa.Convert:
					v = x.X
				case *ssa.ChangeType:
					v = x.X
				default:
					return v
				}
			}
			return v
		}
		n := 0
		for _, c := range core.CallsTo(fn, true, func(o *types.Func) bool { return o != nil && o.Name() == "writeAccountStorageSlabIndex" }) {
			args := c.Common().Args
			if len(args) < 3 {
				continue
			}
			n++
			a, b := elem(args[1]), elem(args[2])
			r.Check(a == b, "R5.pairs", core.SSAKey(fn)+": writeAccountStorageSlabIndex #"+itoa(n)+" operands come from one element", posOf(c), "address and slab index are two components of the same element",
				"the address and the slab index written for it come from different collections/elements ("+core.OriginLeaves(args[1])+" vs "+core.OriginLeaves(args[2])+"): after sorting one of them, an account's `stored` register can point at another account's slab")
		}
		if n == 0 {
			r.Undecided("R5.pairs", core.SSAKey(fn), "no register write found")
		}
	}
	r.Floor("R5.pairs", 2)
}

func retText(ret *ssa.Return) string {
	s := "return"
	for _, v := range ret.Results {
		s += " " + v.Name()
	}
	if len(ret.Results) == 1 {
		if c, ok := core.Unwrap(ret.Results[0]).(*ssa.Const); ok {
			return "return " + c.String()
		}
		return "return <computed>"
	}
	return s
}
