package rules

import (
	"go/types"
	"regexp"
	"strings"

	"golang.org/x/tools/go/ssa"

	"cadcheck/core"
)

// grounds (in core.CondDesc form) on which a forwarder may return without delegating: "x == nil" held / "x != nil" failed,
// and "usage.Intensity == 0" / "usage.Amount == 0" held
var c30ForwardExempt = regexp.MustCompile(`^(\+==|-!=)\(.*(\{const:nil\}|\{\.(Intensity|Amount) [^{}]*\},\{const:0\})\)$`)

// c30GaugeForwarding (R5.forward): a gauge that wraps another gauge (profile instance, VM config, interpreter, the
// UseComputation/UseMemory helpers) is the only way the wrapped — limit-enforcing — gauge hears about a usage. On
// every path through such a forwarder the delegating call must happen, unless the path established that there is no
// delegate (nil check) or that the usage is zero. A forwarder that returns early on any other ground (a weight, a kind,
// a flag) lets those usages escape the limit.
func c30GaugeForwarding(r *core.Run) {
	w := r.W
	rule := "R5.forward"
	names := map[string]bool{"MeterComputation": true, "MeterMemory": true, "UseComputation": true, "UseMemory": true}
	isDelegate := func(in ssa.Instruction) bool {
		c, ok := in.(ssa.CallInstruction)
		if !ok {
			return false
		}
		cc := c.Common()
		if cc.IsInvoke() {
			return cc.Method.Name() == "MeterComputation" || cc.Method.Name() == "MeterMemory"
		}
		if sc := cc.StaticCallee(); sc != nil {
			return names[sc.Name()] && sc.Pkg != nil && strings.HasPrefix(sc.Pkg.Pkg.Path(), mod)
		}
		// a call of a function value that is the receiver (FunctionComputationGauge / FunctionMemoryGauge)
		if p, ok := cc.Value.(*ssa.Parameter); ok && len(p.Parent().Params) > 0 && p.Parent().Params[0] == p {
			return true
		}
		if ct, ok := cc.Value.(*ssa.ChangeType); ok {
			if p, ok := ct.X.(*ssa.Parameter); ok && len(p.Parent().Params) > 0 && p.Parent().Params[0] == p {
				return true
			}
		}
		return false
	}
	n := 0
	for _, fn := range w.SrcFuncs() {
		if fn.Parent() != nil || !names[fn.Name()] {
			continue
		}
		if _, ok := fn.Object().(*types.Func); !ok {
			continue
		}
		has := false
		core.Instrs(fn, false, func(in ssa.Instruction) {
			if isDelegate(in) {
				has = true
			}
		})
		if !has {
			continue
		}
		sums, ok := core.PathSummaries(fn, 256, func(in ssa.Instruction) string {
			if isDelegate(in) {
				return "D"
			}
			return ""
		})
		key := core.SSAKey(fn)
		if !ok {
			r.Undecided(rule, key, "too many paths")
			continue
		}
		n++
		bad := ""
		for _, s := range sums {
			parts := strings.SplitN(s, " ⇒ ", 2)
			if len(parts) == 2 && strings.Contains(parts[1], "D") {
				continue
			}
			exempt := false
			for _, c := range strings.Split(parts[0], " ∧ ") {
				if c30ForwardExempt.MatchString(c) {
					exempt = true
				}
			}
			if !exempt {
				bad = parts[0]
			}
		}
		r.Check(bad == "", rule, key+": every path forwards to the wrapped gauge", fn.Pos(), "each return is preceded by the delegating call, or follows a nil-delegate / zero-usage test",
			"a path returns without forwarding the usage to the wrapped gauge, on the ground ["+bad+"]: usages on that path escape the limit")
	}
	r.Check(n >= 6, rule, "gauge forwarders examined", 0, "forwarders found", "fewer gauge forwarders than reviewed")
	r.Floor(rule, 6)
}

// c30ConfiguredDepth (R6.configlimit): both engines must enforce the call-depth limit the host configured
// (runtime.Config.StackDepthLimit). Every value the runtime package puts into the interpreter's depth limiter
// (newStackDepthLimiter) and into the VM's Config.StackDepthLimit must derive from that field (a default may be
// substituted for zero, but the configured field has to be among the origins of the value).
func c30ConfiguredDepth(r *core.Run) {
	w := r.W
	rule := "R6.configlimit"
	n := 0
	for _, fn := range w.SrcFuncsIn("runtime") {
		if fn.Parent() != nil {
			continue
		}
		core.Instrs(fn, true, func(in ssa.Instruction) {
			switch x := in.(type) {
			case *ssa.Store:
				fa, ok := x.Addr.(*ssa.FieldAddr)
				if !ok {
					return
				}
				pt, ok := fa.X.Type().Underlying().(*types.Pointer)
				if !ok {
					return
				}
				nt, ok := pt.Elem().(*types.Named)
				if !ok || nt.Obj().Pkg() == nil || nt.Obj().Pkg().Path() != mod+"/bbq/vm" || nt.Obj().Name() != "Config" {
					return
				}
				st := nt.Underlying().(*types.Struct)
				if st.Field(fa.Field).Name() != "StackDepthLimit" {
					return
				}
				n++
				leaves := core.OriginLeaves(x.Val)
				r.Check(strings.Contains(leaves, ".StackDepthLimit"), rule, core.SSAKey(fn)+": vm.Config.StackDepthLimit", x.Pos(), "derives from runtime.Config.StackDepthLimit "+leaves,
					"the VM's call-depth limit is set from "+leaves+", not from the configured runtime.Config.StackDepthLimit: the two engines enforce different depths")
			case *ssa.Call:
				sc := x.Call.StaticCallee()
				if sc == nil || sc.Name() != "newStackDepthLimiter" || len(x.Call.Args) < 1 {
					return
				}
				n++
				leaves := core.OriginLeaves(x.Call.Args[0])
				r.Check(strings.Contains(leaves, ".StackDepthLimit"), rule, core.SSAKey(fn)+": newStackDepthLimiter", x.Pos(), "derives from runtime.Config.StackDepthLimit "+leaves,
					"the interpreter's call-depth limiter is created from "+leaves+", not from the configured runtime.Config.StackDepthLimit")
			}
		})
	}
	r.Check(n >= 2, rule, "runtime: depth-limit configuration sites", 0, "both engines' sites found", "the sites configuring the call-depth limit of both engines were not found")
	r.Floor(rule, 3)
}
