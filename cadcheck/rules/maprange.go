package rules

import (
	"fmt"
	"go/ast"
	"go/token"
	"go/types"
	"sort"
	"strings"

	"cadcheck/core"
)

// mapRangeSite is one `range` over a Go map.
type mapRangeSite struct {
	Key   string // enclosing function key + "#n"
	Pos   token.Pos
	Class string
	Why   string
}

// classifyMapRange decides whether the loop's effect can depend on Go's random map iteration order.
// Classes: "insert" (only map/set writes, deletes), "accumulate" (commutative numeric/bool accumulation),
// "collect-sorted" (appends to slices that are sorted after the loop before any other use in the function),
// "search" (returns/breaks only with constants), "empty", or "order-dependent:<reason>".
func classifyMapRange(fd *ast.FuncDecl, rs *ast.RangeStmt, info *types.Info) (string, string) {
	classes := map[string]bool{}
	bad := ""
	collected := map[types.Object]bool{}
	// keyFields: for a collected slice whose elements are struct literals, the fields that hold the map's key (the only
	// component of an element that is unique); nil entry = the element is not a struct literal built from the key
	keyFields := map[types.Object]map[string]bool{}
	var rangeKey types.Object
	if id, ok := rs.Key.(*ast.Ident); ok && id.Name != "_" {
		rangeKey = info.ObjectOf(id)
	}
	var stmts func(list []ast.Stmt)
	isPureExpr := func(e ast.Expr) bool {
		pure := true
		ast.Inspect(e, func(n ast.Node) bool {
			if c, ok := n.(*ast.CallExpr); ok {
				// conversions, len, cap, and method-free builtins are pure; other calls are assumed to have effects
				if tv, ok := info.Types[c.Fun]; ok && tv.IsType() {
					return true
				}
				if id, ok := c.Fun.(*ast.Ident); ok {
					if _, isB := info.Uses[id].(*types.Builtin); isB && (id.Name == "len" || id.Name == "cap" || id.Name == "min" || id.Name == "max") {
						return true
					}
				}
				pure = false
			}
			return true
		})
		return pure
	}
	var stmt func(s ast.Stmt)
	stmt = func(s ast.Stmt) {
		if bad != "" {
			return
		}
		switch x := s.(type) {
		case *ast.AssignStmt:
			// append-collect
			if len(x.Lhs) == 1 && len(x.Rhs) == 1 {
				if call, ok := x.Rhs[0].(*ast.CallExpr); ok {
					if id, ok := call.Fun.(*ast.Ident); ok && id.Name == "append" {
						if _, isB := info.Uses[id].(*types.Builtin); isB {
							if lid, ok := x.Lhs[0].(*ast.Ident); ok {
								if obj := info.ObjectOf(lid); obj != nil {
									collected[obj] = true
									classes["collect"] = true
									if rangeKey != nil && len(call.Args) == 2 {
										el := call.Args[1]
										if u, ok := el.(*ast.UnaryExpr); ok && u.Op == token.AND {
											el = u.X
										}
										if cl, ok := el.(*ast.CompositeLit); ok {
											kf := map[string]bool{}
											for _, e := range cl.Elts {
												if kv, ok := e.(*ast.KeyValueExpr); ok {
													if k, ok := kv.Key.(*ast.Ident); ok {
														if v, ok := kv.Value.(*ast.Ident); ok && info.ObjectOf(v) == rangeKey {
															kf[k.Name] = true
														}
													}
												}
											}
											if len(kf) > 0 {
												keyFields[obj] = kf
											}
										}
									}
									return
								}
							}
							bad = "appends to a non-local slice"
							return
						}
					}
				}
			}
			switch x.Tok {
			case token.ADD_ASSIGN, token.OR_ASSIGN, token.AND_ASSIGN, token.XOR_ASSIGN, token.MUL_ASSIGN:
				for _, r := range x.Rhs {
					if !isPureExpr(r) {
						bad = "accumulates the result of a call"
						return
					}
				}
				classes["accumulate"] = true
				return
			case token.ASSIGN, token.DEFINE:
				for _, l := range x.Lhs {
					switch lx := l.(type) {
					case *ast.IndexExpr:
						if tv, ok := info.Types[lx.X]; ok {
							if _, isMap := tv.Type.Underlying().(*types.Map); isMap {
								classes["insert"] = true
								continue
							}
						}
						bad = "writes a slice/array element"
						return
					case *ast.Ident:
						if x.Tok == token.DEFINE || lx.Name == "_" {
							continue // loop-local temporary
						}
						// assignment to an outer variable: order-dependent unless constant (flag = true)
						for _, r := range x.Rhs {
							if !core.IsConst(r, info) {
								bad = "assigns a loop-dependent value to an outer variable (last writer wins)"
								return
							}
						}
						classes["accumulate"] = true
					default:
						bad = "assigns through a selector/pointer"
						return
					}
				}
				for _, r := range x.Rhs {
					if !isPureExpr(r) {
						bad = "calls a function inside the loop body"
						return
					}
				}
				return
			}
			bad = "assignment form " + x.Tok.String()
		case *ast.IncDecStmt:
			classes["accumulate"] = true
		case *ast.ExprStmt:
			if call, ok := x.X.(*ast.CallExpr); ok {
				if id, ok := call.Fun.(*ast.Ident); ok && id.Name == "delete" {
					classes["insert"] = true
					return
				}
			}
			bad = "calls a function inside the loop body"
		case *ast.IfStmt:
			if x.Init != nil {
				stmt(x.Init)
			}
			if !isPureExpr(x.Cond) {
				bad = "condition calls a function"
				return
			}
			stmts(x.Body.List)
			if x.Else != nil {
				stmt(x.Else)
			}
		case *ast.BlockStmt:
			stmts(x.List)
		case *ast.BranchStmt:
			if x.Tok == token.CONTINUE {
				return
			}
			if x.Tok == token.BREAK {
				classes["search"] = true
				return
			}
			bad = "goto/fallthrough"
		case *ast.ReturnStmt:
			for _, r := range x.Results {
				if !core.IsConst(r, info) {
					if id, ok := r.(*ast.Ident); ok && (id.Name == "nil" || id.Name == "true" || id.Name == "false") {
						continue
					}
					bad = "returns a loop-dependent value (first match wins)"
					return
				}
			}
			classes["search"] = true
		case *ast.DeclStmt, *ast.EmptyStmt:
		case *ast.RangeStmt, *ast.ForStmt, *ast.SwitchStmt, *ast.TypeSwitchStmt:
			// nested control flow: classify its body with the same rules
			ast.Inspect(x, func(n ast.Node) bool {
				if b, ok := n.(*ast.BlockStmt); ok && n != ast.Node(x) {
					stmts(b.List)
					return false
				}
				if cc, ok := n.(*ast.CaseClause); ok {
					stmts(cc.Body)
					return false
				}
				return true
			})
		default:
			bad = fmt.Sprintf("statement %T", s)
		}
	}
	stmts = func(list []ast.Stmt) {
		for _, s := range list {
			stmt(s)
		}
	}
	stmts(rs.Body.List)
	if bad != "" {
		return "order-dependent", bad
	}
	if classes["collect"] {
		// every collected slice must be sorted after the loop, in the same function
		nonKeySort := ""
		for obj := range collected {
			sorted := false
			ast.Inspect(fd, func(n ast.Node) bool {
				call, ok := n.(*ast.CallExpr)
				if !ok || call.Pos() < rs.End() {
					return true
				}
				sel, ok := call.Fun.(*ast.SelectorExpr)
				if !ok {
					return true
				}
				if f, ok := info.Uses[sel.Sel].(*types.Func); ok && f.Pkg() != nil && (f.Pkg().Path() == "sort" || f.Pkg().Path() == "slices") && strings.Contains(f.Name(), "Sort") || (ok && f.Pkg() != nil && f.Pkg().Path() == "sort" && (f.Name() == "Slice" || f.Name() == "Strings" || f.Name() == "Ints" || f.Name() == "Stable")) {
					mentions := false
					for _, a := range call.Args {
						ast.Inspect(a, func(m ast.Node) bool {
							if id, ok := m.(*ast.Ident); ok && info.ObjectOf(id) == obj {
								mentions = true
							}
							return true
						})
					}
					if mentions {
						sorted = true
						// elements are struct literals carrying the map key: a comparator given as a function literal
						// must order by (one of) the key field(s) — any other field can tie, and ties keep the random
						// iteration order
						if kf := keyFields[obj]; kf != nil {
							for _, a := range call.Args {
								fl, ok := a.(*ast.FuncLit)
								if !ok {
									continue
								}
								usesKey := false
								ast.Inspect(fl, func(m ast.Node) bool {
									if se, ok := m.(*ast.SelectorExpr); ok && kf[se.Sel.Name] {
										usesKey = true
									}
									return true
								})
								if !usesKey {
									nonKeySort = obj.Name()
								}
							}
						}
					}
				}
				return true
			})
			if !sorted {
				return "order-dependent", "collects into slice `" + obj.Name() + "` that is not sorted afterwards in the same function"
			}
			if nonKeySort != "" {
				return "order-dependent", "slice `" + nonKeySort + "` of elements built from the map key is sorted by a comparator that does not read the key field: elements that tie keep the random iteration order"
			}
		}
		delete(classes, "collect")
		classes["collect-sorted"] = true
	}
	if len(classes) == 0 {
		return "empty", ""
	}
	var cs []string
	for c := range classes {
		cs = append(cs, c)
	}
	sort.Strings(cs)
	return strings.Join(cs, "+"), ""
}

// mapRangeSites lists every range over a map in the given packages.
func mapRangeSites(w *core.World, rels []string) []mapRangeSite {
	var out []mapRangeSite
	for _, rel := range rels {
		p := w.Pkg(rel)
		if p == nil {
			continue
		}
		info := p.TypesInfo
		for _, fd := range w.FuncDeclsIn(rel) {
			key := core.DeclKey(p, fd)
			n := 0
			ast.Inspect(fd, func(nd ast.Node) bool {
				rs, ok := nd.(*ast.RangeStmt)
				if !ok {
					return true
				}
				tv, ok := info.Types[rs.X]
				if !ok {
					return true
				}
				if _, isMap := tv.Type.Underlying().(*types.Map); !isMap {
					return true
				}
				n++
				cl, why := classifyMapRange(fd, rs, info)
				out = append(out, mapRangeSite{Key: fmt.Sprintf("%s#%d", key, n), Pos: rs.Pos(), Class: cl, Why: why})
				return true
			})
		}
	}
	return out
}

// mapRangeRule: every map range is order-insensitive by classification, or is in the reviewed table with exactly
// the reviewed class (tables/maprange_reviewed.json: key -> {class, reason}).
func mapRangeRule(r *core.Run, rule string, rels []string) {
	var reviewed map[string]struct {
		Class  string `json:"class"`
		Reason string `json:"reason"`
	}
	if !r.Table("maprange_reviewed", &reviewed) {
		return
	}
	for _, s := range mapRangeSites(r.W, rels) {
		if s.Class != "order-dependent" {
			r.OK(rule, s.Key, s.Pos, "map iteration is order-insensitive: "+s.Class)
			continue
		}
		if rv, ok := reviewed[s.Key]; ok {
			r.OK(rule, s.Key, s.Pos, "reviewed order-dependent-looking loop: "+rv.Reason+" ["+s.Why+"]")
			continue
		}
		r.Bad(rule, s.Key, s.Pos, "range over a Go map whose effect can depend on the random iteration order: "+s.Why)
	}
}
