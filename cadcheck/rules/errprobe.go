package rules

import (
	"fmt"
	"os"

	"cadcheck/core"
)

func init() {
	if os.Getenv("CADCHECK_DEV") != "" {
		register("ERRPROBE", errProbe)
	}
}

// errProbe (development aid): module-wide scan for dropped / overwritten / swallowed error results.
func errProbe(r *core.Run) {
	w := r.W
	n, bad := 0, 0
	for _, fn := range w.SrcFuncs() {
		if fn.Parent() != nil || fn.Pkg == nil || !w.InScope(fn.Pkg.Pkg.Path()) {
			continue
		}
		for _, c := range core.Calls(fn, true) {
			if !core.ReturnsError(c) {
				continue
			}
			n++
			fl := core.FollowErr(c)
			what := ""
			switch {
			case fl.Dropped:
				what = "dropped"
			case len(fl.Sinks) == 0:
				what = "nosink"
			case fl.Swallow != nil:
				what = "swallow"
			}
			if what != "" {
				bad++
				fmt.Printf("ERRPROBE %s | %s -> %s | %s\n", what, core.SSAKey(fn), calleeName(c), w.Pos(c.Pos()))
			}
		}
	}
	fmt.Printf("ERRPROBE total=%d bad=%d\n", n, bad)
}
