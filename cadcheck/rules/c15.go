package rules

import (
	"go/types"
	"strings"

	"golang.org/x/tools/go/ssa"

	"cadcheck/core"
)

func init() { register("C15", c15) }

func c15(r *core.Run) {
	r.Explanation = "Decided clauses: (R1) interpreter.handleFixedpointError handles every error type the fixed-point library defines for arithmetic and maps PositiveOverflow→OverflowError, " +
		"NegativeOverflow→UnderflowError, DivisionByZero→DivisionByZeroError, Underflow/nil→no error, anything else→re-panic; (R2) every call into github.com/onflow/fixed-point that returns an error " +
		"has that error flow into handleFixedpointError / a saturation helper / a return / a panic (never dropped); (R3) Fix128/UFix128 Mul, Div, SaturatingMul, SaturatingDiv pass the constant fix.RoundTruncate " +
		"and MultiplyDivide passes its rounding parameter unchanged; (R4) Fix64/UFix64: every division is guarded against zero; (R5) arithmetic error kinds raised by Fix64/UFix64/Fix128/UFix128 " +
		"Plus/Minus/Mul/Div/Mod are within what the property allows and include DivisionByZero for Div."
	r.NotDecided = "exactness and truncation of the results; the fixed-point library itself (external module)."
	w := r.W
	errs := fixErrorTypes(r)

	// R1
	if fo := w.FuncObj("interpreter", "", "handleFixedpointError"); fo != nil {
		fd, pkg := w.Decl(fo)
		tab, _ := core.TypeSwitchTable(fd, pkg.TypesInfo)
		if tab == nil {
			r.Undecided("R1.errmap", "interpreter.handleFixedpointError", "no type switch")
		} else {
			want := map[string]string{
				"nil": "return", "UnderflowError": "return",
				"PositiveOverflowError": "panic:OverflowError", "NegativeOverflowError": "panic:UnderflowError",
				"DivisionByZeroError": "panic:DivisionByZeroError",
			}
			for _, e := range errs {
				if e == "OutOfDomainErrorError" {
					continue // transcendental functions only; not called by Cadence
				}
				if _, ok := want[e]; !ok {
					r.Bad("R1.errmap", "interpreter.handleFixedpointError: "+e, fd.Pos(), "library error type "+e+" is new and has no reviewed mapping")
				}
			}
			for c, oc := range want {
				r.Check(tab[c] == oc, "R1.errmap", "interpreter.handleFixedpointError: "+c, fd.Pos(), "maps to "+oc, "case "+c+" has outcome `"+tab[c]+"`, required `"+oc+"`")
			}
			r.Check(strings.HasPrefix(tab["default"], "panic:"), "R1.errmap", "interpreter.handleFixedpointError: default", fd.Pos(), "re-panics", "default arm does not re-panic the unknown error")
		}
	} else {
		r.Undecided("R1.errmap", "interpreter.handleFixedpointError", "does not resolve")
	}
	r.Floor("R1.errmap", 6)

	// R2 error discipline of library calls
	isFix := func(o *types.Func) bool {
		if o == nil || o.Pkg() == nil || o.Pkg().Path() != fixPath {
			return false
		}
		return sigReturnsError(o.Type().(*types.Signature))
	}
	for _, fn := range w.SrcFuncs() {
		if fn.Parent() != nil {
			continue
		}
		for _, c := range core.CallsTo(fn, true, isFix) {
			key := core.SSAKey(fn) + " -> " + core.FuncKey(core.Callee(c))
			fl := core.FollowErr(c)
			switch {
			case fl.Dropped:
				r.Bad("R2.liberr", key, posOf(c), "error result of the fixed-point library call is discarded")
			case len(fl.Sinks) == 0:
				r.Bad("R2.liberr", key, posOf(c), "error result of the fixed-point library call reaches no handler, return or panic")
			default:
				r.OK("R2.liberr", key, posOf(c), "error reaches "+strings.Join(uniq(fl.Sinks), ","))
			}
		}
	}
	r.Floor("R2.liberr", 25)

	// R2b the arithmetic methods use the arithmetic error mapping (in which a too-small result is not an error),
	// the saturating methods the saturation helper — never the conversion handler
	for _, t := range []string{"Fix128Value", "UFix128Value"} {
		for _, m := range []string{"Plus", "Minus", "Mul", "Div", "Mod", "Negate", "MultiplyDivide", "SaturatingPlus", "SaturatingMinus", "SaturatingMul", "SaturatingDiv"} {
			fn := w.Fn("interpreter", t, m)
			if fn == nil {
				continue
			}
			want := "handleFixedpointError"
			if strings.HasPrefix(m, "Saturating") {
				want = "SaturationArithmaticResult"
			}
			for _, c := range core.CallsTo(fn, true, isFix) {
				// the error must reach the expected handler: either as handler argument (no result) or passed to the saturation helper
				okH := false
				for _, e := range core.ErrResults(c) {
					if refs := e.Referrers(); refs != nil {
						for _, ref := range *refs {
							if cc, isCall := ref.(ssa.CallInstruction); isCall {
								if o := core.Callee(cc); o != nil && strings.Contains(o.Name(), want) {
									okH = true
								}
							}
						}
					}
				}
				r.Check(okH, "R2.handler", "interpreter.("+t+")."+m+" -> "+core.Callee(c).Name()+" error handler", posOf(c),
					"library error is mapped by "+want, "the library error of an arithmetic operation is not mapped by "+want+" (e.g. handed to the conversion handler, which treats a too-small-to-represent result as an underflow error)")
			}
		}
	}
	r.Floor("R2.handler", 16)

	// R2c checked operations never delegate to their saturating siblings (a clamped intermediate would hide an out-of-range result)
	for _, t := range []string{"Fix64Value", "UFix64Value", "Fix128Value", "UFix128Value"} {
		for _, m := range []string{"Plus", "Minus", "Mul", "Div", "Mod", "Negate", "MultiplyDivide"} {
			fn := w.Fn("interpreter", t, m)
			if fn == nil {
				continue
			}
			bad := ""
			for _, c := range core.Calls(fn, true) {
				name := ""
				if o := core.Callee(c); o != nil {
					name = o.Name()
				}
				if strings.HasPrefix(name, "Saturating") {
					bad = name
				}
			}
			r.Check(bad == "", "R2.nosaturating", "interpreter.("+t+")."+m+": no saturating delegate", fn.Pos(), "only checked operations are used",
				"the checked operation calls "+bad+": an out-of-range intermediate is clamped instead of failing")
		}
	}
	r.Floor("R2.nosaturating", 24)

	// R6 the signed and unsigned 128-bit fixed-point implementations agree wherever sign handling is not involved
	siblingRule(r, "R6.siblings", []*core.Family{famF}, func(g string) bool {
		return strings.HasPrefix(g, "interpreter.") || strings.HasPrefix(g, "fixedpoint.") || strings.HasPrefix(g, "..")
	})
	r.Floor("R6.siblings", 50)

	// R3 rounding arguments
	for _, t := range []string{"Fix128Value", "UFix128Value"} {
		for _, m := range []string{"Mul", "Div", "SaturatingMul", "SaturatingDiv", "MultiplyDivide"} {
			fn := r.W.Fn("interpreter", t, m)
			key := "interpreter.(" + t + ")." + m
			if fn == nil {
				if m == "MultiplyDivide" {
					continue
				}
				r.Undecided("R3.rounding", key, "method does not resolve")
				continue
			}
			n := 0
			for _, c := range core.Calls(fn, true) {
				o := core.Callee(c)
				if o == nil || o.Pkg() == nil || o.Pkg().Path() != fixPath {
					continue
				}
				sig := o.Type().(*types.Signature)
				for i := 0; i < sig.Params().Len(); i++ {
					_, tn := core.TypeName(sig.Params().At(i).Type())
					if tn != "RoundingMode" {
						continue
					}
					n++
					args := c.Common().Args
					a := args[len(args)-sig.Params().Len()+i]
					ckey := key + " -> " + o.Name() + " rounding"
					if m == "MultiplyDivide" {
						// must be (derived only from) the method's rounding parameter
						ok := false
						var paramName string
						for _, p := range fn.Params {
							if _, pn := core.TypeName(p.Type()); pn == "RoundingMode" {
								paramName = p.Name()
								if core.IsParamValue(a, p) {
									ok = true
								}
							}
						}
						r.Check(ok, "R3.rounding", ckey, posOf(c), "passes its own rounding parameter "+paramName, "does not pass the caller's rounding mode unchanged")
					} else {
						cst, isConst := core.Unwrap(a).(*ssa.Const)
						want := constOf(w, fixPath, "RoundTruncate")
						r.Check(isConst && want != "" && cst.Value != nil && cst.Value.ExactString() == want, "R3.rounding", ckey, posOf(c),
							"passes the constant fix.RoundTruncate", "rounding argument is not the constant fix.RoundTruncate (results would not be truncated toward zero)")
					}
				}
			}
			if n == 0 {
				r.Undecided("R3.rounding", key, "no fixed-point library call with a rounding mode found")
			}
		}
	}
	r.Floor("R3.rounding", 8)

	// R4 zero-divisor guards in Fix64/UFix64 (native and big.Int paths)
	zeroDivisorRule(r, "R4.zerodiv", []string{"interpreter", "values"}, func(key string) bool {
		return strings.HasPrefix(key, "interpreter.(Fix64Value).") || strings.HasPrefix(key, "interpreter.(UFix64Value).") ||
			strings.HasPrefix(key, "values.(UFix64Value).")
	})
	r.Floor("R4.zerodiv", 4)

	// R5 signatures
	ou := []string{"Overflow", "Underflow"}
	// (Fix128/UFix128 map library errors through the generic handleFixedpointError, whose panics over-approximate the
	// per-method signature; their mapping is decided by R1+R2 instead)
	for _, t := range []string{"Fix64Value", "UFix64Value"} {
		signatureRange(r, "R5.signature", t, "Plus", nil, ou)
		signatureRange(r, "R5.signature", t, "Minus", nil, ou)
		signatureRange(r, "R5.signature", t, "Mul", nil, ou)
		signatureRange(r, "R5.signature", t, "Div", []string{"DivisionByZero"}, ou)
		signatureRange(r, "R5.signature", t, "Mod", []string{"DivisionByZero"}, ou)
	}
	r.Floor("R5.signature", 10)
	// R7 sign hazards in the fixed-point arithmetic methods (negation of a signed raw value, same-width conversion across signedness)
	signHazards(r, "R7.signhazard", "c15_sign_hazards", func(recv, method string) bool {
		switch recv {
		case "Fix64Value", "UFix64Value", "Fix128Value", "UFix128Value":
			return true
		}
		return false
	})
}

// constOf returns the exact string of a package-level constant.
func constOf(w *core.World, pkgPath, name string) string {
	p := w.ExtPkg(pkgPath)
	if p == nil {
		return ""
	}
	c, ok := p.Types.Scope().Lookup(name).(*types.Const)
	if !ok {
		return ""
	}
	return c.Val().ExactString()
}
