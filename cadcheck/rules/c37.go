package rules

import (
	"go/token"
	"go/types"
	"strings"

	"golang.org/x/tools/go/ssa"

	"cadcheck/core"
)

func init() { register("C37", c37) }

func c37(r *core.Run) {
	r.Explanation = "Decided clauses: (R1) boundaries: the recover() sites of lexer.run, parser.ParseTokenStream and sema.Checker.Check convert every panic into a returned error exactly as reviewed (arm summaries of the C01 table); " +
		"(R2) resource bounds: parseExpression and parseType increase their depth counter only after the `depth == limit` test failed (returning the depth-limit error otherwise) and decrease it in a deferred function; the lexer's emit appends a token only after the token-limit test; " +
		"(R3) the pooled lexer resets every field before reuse (C36.R1), so positions cannot depend on an earlier input."
	r.NotDecided = "termination of backtracking, position arithmetic, absence of Go run-time panics on arbitrary byte strings."
	w := r.W
	// R1
	want := map[string]bool{"parser/lexer.(lexer).run": true, "parser.ParseTokenStream": true, "sema.(Checker).Check": true}
	for _, s := range w.RecoverSites() {
		k := core.SSAKey(s.Decl)
		if !want[k] {
			continue
		}
		exp := recoverTable[k][0]
		r.Check(s.Summary() == exp && exp != "", "R1.boundary", k+": recover arms", s.Call.Pos(), s.Summary(), "recover arms changed: now ["+s.Summary()+"], reviewed ["+exp+"]")
		delete(want, k)
	}
	for k := range want {
		r.Bad("R1.boundary", k+": recover arms", 0, "the recover boundary was removed: panics of the lexer/parser/checker escape to the caller")
	}
	r.Floor("R1.boundary", 3)

	// R2 depth guards
	for _, g := range []struct{ fn, field, limit, errT string }{
		{"parseExpression", "expressionDepth", "expressionDepthLimit", "ExpressionDepthLimitReachedError"},
		{"parseType", "typeDepth", "typeDepthLimit", "TypeDepthLimitReachedError"},
	} {
		fn := mustFn(r, "R2.limits", "parser", "", g.fn)
		if fn == nil {
			continue
		}
		limit := constOfRel(w, "parser", g.limit)
		var inc *ssa.Store
		core.Instrs(fn, false, func(in ssa.Instruction) {
			if storesField(in, g.field) {
				if st := in.(*ssa.Store); inc == nil {
					inc = st
				}
			}
		})
		key := "parser." + g.fn + ": depth limit"
		if inc == nil || limit == "" {
			r.Bad("R2.limits", key, fn.Pos(), "the depth counter "+g.field+" is no longer maintained in "+g.fn)
			continue
		}
		guarded := false
		for _, a := range core.ControllingConds(inc) {
			bo, ok := a.Var.Call.(*ssa.BinOp)
			if !ok {
				continue
			}
			c, isC := bo.Y.(*ssa.Const)
			if !isC || c.Value == nil || c.Value.ExactString() != limit {
				continue
			}
			if (bo.Op == token.EQL || bo.Op == token.GEQ) && !a.Val {
				guarded = true
			}
		}
		r.Check(guarded, "R2.limits", key, inc.Pos(), "recursion proceeds only when depth == "+g.limit+" is false", "the depth counter is increased without the limit test: unbounded nesting overflows the Go stack")
		// decrement in a defer
		dec := false
		core.Instrs(fn, false, func(in ssa.Instruction) {
			if d, ok := in.(*ssa.Defer); ok {
				lit := d.Call.StaticCallee()
				if mc, ok := d.Call.Value.(*ssa.MakeClosure); ok {
					lit = mc.Fn.(*ssa.Function)
				}
				if lit != nil {
					core.Instrs(lit, true, func(x ssa.Instruction) {
						if storesField(x, g.field) {
							dec = true
						}
					})
				}
			}
		})
		r.Check(dec, "R2.limits", "parser."+g.fn+": depth restored by defer", fn.Pos(), "the counter is decreased on every exit", "the depth counter is not decreased in a deferred function: an error path leaves it raised and later input is rejected spuriously")
		// the limit error is raised
		found := false
		core.Instrs(fn, false, func(in ssa.Instruction) {
			if mi, ok := in.(*ssa.MakeInterface); ok {
				if _, tn := core.TypeName(mi.X.Type()); tn == g.errT {
					found = true
				}
			}
		})
		r.Check(found, "R2.limits", "parser."+g.fn+": "+g.errT, fn.Pos(), "limit error returned", "the depth-limit error is no longer produced")
	}
	// token limit
	if fn := mustFn(r, "R2.limits", "parser/lexer", "lexer", "emit"); fn != nil {
		limit := constOfRel(w, "parser/lexer", "tokenLimit")
		var app ssa.Instruction
		core.Instrs(fn, false, func(in ssa.Instruction) {
			if c, ok := in.(*ssa.Call); ok {
				if b, ok := c.Call.Value.(*ssa.Builtin); ok && b.Name() == "append" {
					app = in
				}
			}
		})
		ok := false
		if app != nil {
			for _, a := range core.ControllingConds(app) {
				if bo, isB := a.Var.Call.(*ssa.BinOp); isB && !a.Val && (bo.Op == token.GEQ || bo.Op == token.GTR) {
					if c, isC := bo.Y.(*ssa.Const); isC && c.Value != nil && c.Value.ExactString() == limit {
						ok = true
					}
				}
			}
		}
		r.Check(ok, "R2.limits", "parser/lexer.(lexer).emit: token limit", fn.Pos(), "a token is appended only when len(tokens) >= tokenLimit is false", "tokens are appended without the token-limit test")
	}
	r.Floor("R2.limits", 7)
	_ = types.Typ
	_ = strings.TrimSpace
}
