package rules

import (
	"go/token"
	"go/types"
	"strings"

	"golang.org/x/tools/go/ssa"

	"cadcheck/core"
)

func init() { register("C37", c37) }

func c37(r *core.Run) {
	r.Explanation = "Decided clauses: (R1) boundaries: the recover() sites of lexer.run, parser.ParseTokenStream and sema.Checker.Check convert every panic into a returned error exactly as reviewed (arm summaries of the C01 table); " +
		"(R2) resource bounds: parseExpression and parseType increase their depth counter only after the `depth == limit` test failed (returning the depth-limit error otherwise) and decrease it in a deferred function; the lexer's emit appends a token only after the token-limit test; " +
		"(R3) the pooled lexer resets every field before reuse (C36.R1), so positions cannot depend on an earlier input; " +
		"(R4) in parser, lexer and checker a slice x[L:len(x)-K] is taken only under an established len(x) ≥ L+K; (R5) the result of a comma-ok type assertion is dereferenced only where ok is known true or the value non-nil (sites unguarded on the reviewed tree are a recorded baseline)."
	r.NotDecided = "termination of backtracking, position arithmetic, absence of Go run-time panics on arbitrary byte strings."
	w := r.W
	// R1
	want := map[string]bool{"parser/lexer.(lexer).run": true, "parser.ParseTokenStream": true, "sema.(Checker).Check": true}
	for _, s := range w.RecoverSites() {
		k := core.SSAKey(s.Decl)
		if !want[k] {
			continue
		}
		exp := recoverTable[k][0]
		r.Check(s.Summary() == exp && exp != "", "R1.boundary", k+": recover arms", s.Call.Pos(), s.Summary(), "recover arms changed: now ["+s.Summary()+"], reviewed ["+exp+"]")
		delete(want, k)
	}
	for k := range want {
		r.Bad("R1.boundary", k+": recover arms", 0, "the recover boundary was removed: panics of the lexer/parser/checker escape to the caller")
	}
	r.Floor("R1.boundary", 3)

	// R2 depth guards
	for _, g := range []struct{ fn, field, limit, errT string }{
		{"parseExpression", "expressionDepth", "expressionDepthLimit", "ExpressionDepthLimitReachedError"},
		{"parseType", "typeDepth", "typeDepthLimit", "TypeDepthLimitReachedError"},
	} {
		fn := mustFn(r, "R2.limits", "parser", "", g.fn)
		if fn == nil {
			continue
		}
		limit := constOfRel(w, "parser", g.limit)
		var inc *ssa.Store
		core.Instrs(fn, false, func(in ssa.Instruction) {
			if storesField(in, g.field) {
				if st := in.(*ssa.Store); inc == nil {
					inc = st
				}
			}
		})
		key := "parser." + g.fn + ": depth limit"
		if inc == nil || limit == "" {
			r.Bad("R2.limits", key, fn.Pos(), "the depth counter "+g.field+" is no longer maintained in "+g.fn)
			continue
		}
		guarded := false
		for _, a := range core.ControllingConds(inc) {
			bo, ok := a.Var.Call.(*ssa.BinOp)
			if !ok {
				continue
			}
			c, isC := bo.Y.(*ssa.Const)
			if !isC || c.Value == nil || c.Value.ExactString() != limit {
				continue
			}
			if (bo.Op == token.EQL || bo.Op == token.GEQ) && !a.Val {
				guarded = true
			}
		}
		r.Check(guarded, "R2.limits", key, inc.Pos(), "recursion proceeds only when depth == "+g.limit+" is false", "the depth counter is increased without the limit test: unbounded nesting overflows the Go stack")
		// decrement in a defer
		dec := false
		core.Instrs(fn, false, func(in ssa.Instruction) {
			if d, ok := in.(*ssa.Defer); ok {
				lit := d.Call.StaticCallee()
				if mc, ok := d.Call.Value.(*ssa.MakeClosure); ok {
					lit = mc.Fn.(*ssa.Function)
				}
				if lit != nil {
					core.Instrs(lit, true, func(x ssa.Instruction) {
						if storesField(x, g.field) {
							dec = true
						}
					})
				}
			}
		})
		r.Check(dec, "R2.limits", "parser."+g.fn+": depth restored by defer", fn.Pos(), "the counter is decreased on every exit", "the depth counter is not decreased in a deferred function: an error path leaves it raised and later input is rejected spuriously")
		// the limit error is raised
		found := false
		core.Instrs(fn, false, func(in ssa.Instruction) {
			if mi, ok := in.(*ssa.MakeInterface); ok {
				if _, tn := core.TypeName(mi.X.Type()); tn == g.errT {
					found = true
				}
			}
		})
		r.Check(found, "R2.limits", "parser."+g.fn+": "+g.errT, fn.Pos(), "limit error returned", "the depth-limit error is no longer produced")
	}
	// token limit
	if fn := mustFn(r, "R2.limits", "parser/lexer", "lexer", "emit"); fn != nil {
		limit := constOfRel(w, "parser/lexer", "tokenLimit")
		var app ssa.Instruction
		core.Instrs(fn, false, func(in ssa.Instruction) {
			if c, ok := in.(*ssa.Call); ok {
				if b, ok := c.Call.Value.(*ssa.Builtin); ok && b.Name() == "append" {
					app = in
				}
			}
		})
		ok := false
		if app != nil {
			for _, a := range core.ControllingConds(app) {
				if bo, isB := a.Var.Call.(*ssa.BinOp); isB && !a.Val && (bo.Op == token.GEQ || bo.Op == token.GTR) {
					if c, isC := bo.Y.(*ssa.Const); isC && c.Value != nil && c.Value.ExactString() == limit {
						ok = true
					}
				}
			}
		}
		r.Check(ok, "R2.limits", "parser/lexer.(lexer).emit: token limit", fn.Pos(), "a token is appended only when len(tokens) >= tokenLimit is false", "tokens are appended without the token-limit test")
	}
	r.Floor("R2.limits", 7)
	_ = types.Typ
	_ = strings.TrimSpace
	c37Crashes(r)
}

// c37Crashes: R4/R5 — two Go run-time panics the front end can raise on well-formed-but-unusual input, decided on the SSA
// form of parser, parser/lexer and sema:
// R4.slices: a slice expression x[L : len(x)-K] (constant L, K > 0) is dominated by a branch that establishes len(x) ≥ L+K;
// R5.commaok: the value of a comma-ok type assertion to a pointer type is dereferenced (field access) only where the ok flag
// is known to be true or the value is known to be non-nil. Sites that were unguarded on the reviewed tree are a recorded baseline.
func c37Crashes(r *core.Run) {
	w := r.W
	pkgs := map[string]bool{mod + "/parser": true, mod + "/parser/lexer": true, mod + "/sema": true}
	var all []*ssa.Function
	var collect func(f *ssa.Function)
	collect = func(f *ssa.Function) {
		all = append(all, f)
		for _, a := range f.AnonFuncs {
			collect(a)
		}
	}
	for _, fn := range w.SrcFuncs() {
		if fn.Pkg != nil && pkgs[fn.Pkg.Pkg.Path()] && fn.Parent() == nil {
			collect(fn)
		}
	}
	stripConv := func(v ssa.Value) ssa.Value {
		for {
			switch x := v.(type) {
			case *ssa.Convert:
				v = x.X
			case *ssa.ChangeType:
				v = x.X
			default:
				return v
			}
		}
	}
	lenOf := func(v ssa.Value) ssa.Value {
		if c, ok := stripConv(v).(*ssa.Call); ok {
			if b, ok := c.Call.Value.(*ssa.Builtin); ok && b.Name() == "len" {
				return c.Call.Args[0]
			}
		}
		return nil
	}
	constInt := func(v ssa.Value) (int64, bool) {
		c, ok := stripConv(v).(*ssa.Const)
		if !ok || c.Value == nil {
			return 0, false
		}
		return c.Int64(), true
	}
	nslice, ncomma := 0, 0
	gotSlices := map[string]int{}
	gotComma := map[string]int{}
	for _, fn := range all {
		top := fn
		for top.Parent() != nil {
			top = top.Parent()
		}
		for _, b := range fn.Blocks {
			for _, in := range b.Instrs {
				switch x := in.(type) {
				case *ssa.Slice:
					if x.High == nil {
						continue
					}
					var l int64
					if x.Low != nil {
						var okL bool
						if l, okL = constInt(x.Low); !okL {
							continue
						}
					}
					// the upper bound, or each value a phi upper bound can take together with the point where it is chosen
					type cand struct {
						v   ssa.Value
						ctx ssa.Instruction
					}
					cands := []cand{{x.High, in}}
					if phi, isPhi := stripConv(x.High).(*ssa.Phi); isPhi {
						cands = nil
						for i, e := range phi.Edges {
							pb := phi.Block().Preds[i]
							cands = append(cands, cand{e, pb.Instrs[len(pb.Instrs)-1]})
						}
					}
					for _, cd := range cands {
						bo, ok := stripConv(cd.v).(*ssa.BinOp)
						if !ok || bo.Op != token.SUB {
							continue
						}
						k, ok := constInt(bo.Y)
						if !ok || k <= 0 {
							continue
						}
						lenVal := stripConv(bo.X) // the length value (len(x) or a variable holding it)
						need := l + k
						nslice++
						guarded := false
						for _, a := range core.ControllingConds(cd.ctx) {
							cmp, ok := a.Var.Call.(*ssa.BinOp)
							if !ok {
								continue
							}
							lhs, rhs := stripConv(cmp.X), stripConv(cmp.Y)
							sameLen := func(v ssa.Value) bool {
								if v == lenVal {
									return true
								}
								a1, a2 := lenOf(v), lenOf(lenVal)
								return a1 != nil && a2 != nil && a1 == a2
							}
							c, isC := constInt(rhs)
							if !sameLen(lhs) || !isC {
								continue
							}
							op := cmp.Op
							val := a.Val
							// normalise to a lower bound on the length
							switch {
							case op == token.GEQ && val && c >= need, op == token.GTR && val && c+1 >= need,
								op == token.LSS && !val && c >= need, op == token.LEQ && !val && c+1 >= need,
								op == token.EQL && val && c >= need:
								guarded = true
							}
						}
						key := core.SSAKey(top) + ": x[" + itoa(int(l)) + ":len-" + itoa(int(k)) + "]"
						if !guarded {
							gotSlices[key]++
						}
					}
				case *ssa.FieldAddr:
					ex, ok := x.X.(*ssa.Extract)
					if !ok || ex.Index != 0 {
						continue
					}
					ta, ok := ex.Tuple.(*ssa.TypeAssert)
					if !ok || !ta.CommaOk {
						continue
					}
					if _, isPtr := ta.AssertedType.Underlying().(*types.Pointer); !isPtr {
						continue
					}
					ncomma++
					guarded := false
					for _, a := range core.ControllingConds(in) {
						switch c := a.Var.Call.(type) {
						case *ssa.Extract:
							if c.Tuple == ex.Tuple && c.Index == 1 && a.Val {
								guarded = true
							}
						case *ssa.BinOp:
							isNil := func(v ssa.Value) bool { k, ok := v.(*ssa.Const); return ok && k.IsNil() }
							if (c.X == ssa.Value(ex) && isNil(c.Y)) || (c.Y == ssa.Value(ex) && isNil(c.X)) {
								if (c.Op == token.NEQ && a.Val) || (c.Op == token.EQL && !a.Val) {
									guarded = true
								}
							}
						}
					}
					if !guarded {
						gotComma[core.SSAKey(top)+": "+types.TypeString(ta.AssertedType, shortQual)+" dereferenced"]++
					}
				}
			}
		}
	}
	if genMode() {
		genJSON(r, "c37_unguarded_slices", gotSlices)
		genJSON(r, "c37_unguarded_commaok", gotComma)
		return
	}
	for _, x := range []struct {
		rule, table, why string
		got  map[string]int
		n    int
	}{
		{"R4.slices", "c37_unguarded_slices", "a slice x[L:len(x)-K] is taken without an established len(x) ≥ L+K: an input one byte short raises a Go slice-bounds panic, reported as an internal error instead of a syntax error", gotSlices, nslice},
		{"R5.commaok", "c37_unguarded_commaok", "the result of a comma-ok type assertion is dereferenced where the ok flag is not known to be true: an ill-typed but parseable program raises a nil-pointer panic in the checker instead of a semantic error", gotComma, ncomma},
	} {
		var base map[string]int
		if !r.Table(x.table, &base) {
			continue
		}
		for _, k := range sortedKeys(x.got) {
			if x.got[k] <= base[k] {
				r.OK(x.rule, k, 0, "unguarded on the reviewed tree as well (recorded baseline: protected by an invariant this rule does not see)")
			} else {
				r.Bad(x.rule, k, 0, x.why)
			}
		}
		r.OK(x.rule, "front-end scan", 0, itoa(x.n)+" sites examined")
		r.Floor(x.rule, 1)
	}
}
