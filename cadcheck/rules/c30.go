package rules

import (
	"go/ast"
	"go/token"
	"go/types"
	"sort"
	"strings"

	"golang.org/x/tools/go/ssa"

	"cadcheck/core"
)

func init() { register("C30", c30) }

// meteringEdges: for every declared module function, the computation kinds and memory-usage constructors/variables
// it passes to common.UseComputation / common.UseMemory (closures attributed to the enclosing declaration).
func meteringEdges(w *core.World) map[string][]string {
	out := map[string][]string{}
	for path, p := range w.ByPath {
		if !core.InMod(path) || !w.InScope(path) {
			continue
		}
		info := p.TypesInfo
		for _, f := range p.Syntax {
			for _, d := range f.Decls {
				fd, ok := d.(*ast.FuncDecl)
				if !ok || fd.Body == nil {
					continue
				}
				key := core.DeclKey(p, fd)
				set := map[string]bool{}
				// local variables holding a usage: `u := common.NewXMemoryUsage(kind); common.UseMemory(g, u)`
				localDefs := map[types.Object][]ast.Expr{}
				ast.Inspect(fd.Body, func(n ast.Node) bool {
					switch st := n.(type) {
					case *ast.AssignStmt:
						if len(st.Lhs) == len(st.Rhs) {
							for i, l := range st.Lhs {
								if id, ok := l.(*ast.Ident); ok {
									obj := info.Defs[id]
									if obj == nil {
										obj = info.Uses[id]
									}
									if obj != nil {
										localDefs[obj] = append(localDefs[obj], st.Rhs[i])
									}
								}
							}
						}
					case *ast.ValueSpec:
						if len(st.Names) == len(st.Values) {
							for i, id := range st.Names {
								if obj := info.Defs[id]; obj != nil {
									localDefs[obj] = append(localDefs[obj], st.Values[i])
								}
							}
						}
					}
					return true
				})
				ast.Inspect(fd.Body, func(n ast.Node) bool {
					call, ok := n.(*ast.CallExpr)
					if !ok {
						return true
					}
					var callee *types.Func
					switch fx := call.Fun.(type) {
					case *ast.SelectorExpr:
						callee, _ = info.Uses[fx.Sel].(*types.Func)
					case *ast.Ident:
						callee, _ = info.Uses[fx].(*types.Func)
					}
					if callee == nil || callee.Pkg() == nil || callee.Pkg().Path() != mod+"/common" {
						return true
					}
					if callee.Name() != "UseComputation" && callee.Name() != "UseMemory" {
						return true
					}
					var visitArg func(a ast.Node, depth int)
					visitArg = func(a ast.Node, depth int) {
						ast.Inspect(a, func(m ast.Node) bool {
							id, ok := m.(*ast.Ident)
							if !ok {
								return true
							}
							obj := info.Uses[id]
							if obj == nil || obj.Pkg() == nil {
								return true
							}
							if defs, isLocal := localDefs[obj]; isLocal && depth < 3 {
								for _, d := range defs {
									visitArg(d, depth+1)
								}
							}
							switch o := obj.(type) {
							case *types.Const:
								if nt, ok := o.Type().(*types.Named); ok && (nt.Obj().Name() == "ComputationKind" || nt.Obj().Name() == "MemoryKind") {
									set[o.Name()] = true
								}
							case *types.Func:
								if strings.Contains(o.Name(), "MemoryUsage") && o.Parent() == o.Pkg().Scope() {
									set[o.Name()] = true
								}
							case *types.Var:
								if strings.Contains(o.Name(), "MemoryUsage") && o.Parent() == o.Pkg().Scope() {
									set[o.Name()] = true
								}
							}
							return true
						})
					}
					for _, a := range call.Args[1:] {
						visitArg(a, 0)
					}
					return true
				})
				if len(set) > 0 {
					var ks []string
					for k := range set {
						ks = append(ks, k)
					}
					sort.Strings(ks)
					out[key] = ks
				}
			}
		}
	}
	return out
}

func c30(r *core.Run) {
	r.Explanation = "Decided clauses: (R1) metering census: every (function → computation kind / memory-usage kind) metering edge recorded from the reviewed tree still exists (a metering call that is removed, or whose kind disappears from a function, is reported); " +
		"(R2) interpreter: while and for-in loops call reportLoopIteration inside the loop body on every iteration path; invocation reports the call-depth increment before the call, every return after it passes the decrement, and the decrement (or its defer) is never reached without the increment; " +
		"(R3) VM/compiler: every loop construct emits InstructionLoop, statements emit InstructionStatement, opLoop/opStatement/invoke meter, and pushCallFrame tests StackDepthLimit before pushing; no peephole pattern contains a metering or jump opcode; " +
		"(R5) every gauge forwarder (MeterComputation/MeterMemory wrappers, UseComputation/UseMemory) reaches the delegating call on every path, except after a nil-delegate or zero-usage test; " +
		"(R6) the call-depth limit of both engines derives from runtime.Config.StackDepthLimit."
	r.NotDecided = "termination; that the metered amounts are adequate beyond R4 (R4: a per-append memory usage of a string builder is computed from the length of the value appended)."
	w := r.W
	named := func(n string) func(*types.Func) bool {
		return func(o *types.Func) bool { return o != nil && o.Name() == n }
	}

	// R1 census
	edges := meteringEdges(w)
	if genMode() {
		genJSON(r, "c30_metering", edges)
	}
	// measure the current tree through helpers (static callees, depth 2): moving a metering call into a helper is not a violation
	direct := map[string]map[string]int{}
	for k, ks := range edges {
		direct[k] = map[string]int{}
		for _, x := range ks {
			direct[k][x] = 1
		}
	}
	deepEdges := map[string][]string{}
	for k, items := range w.DeepCounts(direct, 2) {
		for it := range items {
			deepEdges[k] = append(deepEdges[k], it)
		}
	}
	edges = deepEdges
	var pinned map[string][]string
	if r.Table("c30_metering", &pinned) {
		for k, kinds := range pinned {
			cur := map[string]bool{}
			for _, x := range edges[k] {
				cur[x] = true
			}
			var missing []string
			for _, x := range kinds {
				if !cur[x] {
					missing = append(missing, x)
				}
			}
			r.Check(len(missing) == 0, "R1.census", k+": metering kinds", 0, strings.Join(kinds, ","),
				"metering edge(s) removed: "+strings.Join(missing, ",")+" — the work done by this function is no longer charged (or charged under another kind)")
		}
	}
	r.Floor("R1.census", 400)

	// R2 interpreter loops
	if body := mustFn(r, "R2.loops", "interpreter", "Interpreter", "visitForStatementBody"); body != nil {
		rep := core.CallsTo(body, false, named("reportLoopIteration"))
		ok := len(rep) == 1
		if ok {
			for _, ret := range core.Returns(body) {
				if !core.MustPass(ret, func(in ssa.Instruction) bool { return in == rep[0].(ssa.Instruction) }) {
					ok = false
				}
			}
		}
		r.Check(ok, "R2.loops", "interpreter.(Interpreter).visitForStatementBody: reportLoopIteration on every path", body.Pos(), "each for-in iteration is metered", "a for-in iteration can complete without reporting the loop iteration")
		if vf := mustFn(r, "R2.loops", "interpreter", "Interpreter", "VisitForStatement"); vf != nil {
			census(r, "R2.loops", vf, "visitForStatementBody", named("visitForStatementBody"), 2)
		}
	}
	for _, v := range []string{"VisitWhileStatement"} {
		fn := mustFn(r, "R2.loops", "interpreter", "Interpreter", v)
		if fn == nil {
			continue
		}
		rep := core.CallsTo(fn, true, named("reportLoopIteration"))
		ok := len(rep) >= 1
		why := "the loop no longer reports its iterations"
		if ok {
			// the report lies in a cycle of the CFG (it is executed once per iteration)
			inLoop := false
			for _, c := range rep {
				if core.ReachableAfter(c, c) {
					inLoop = true
				}
				// for-in loops iterate through a callback closure: a report inside a closure passed to an iteration function counts
				if c.Parent() != fn {
					inLoop = true
				}
			}
			ok, why = inLoop, "reportLoopIteration is outside the loop (executed once, not per iteration)"
		}
		r.Check(ok, "R2.loops", core.SSAKey(fn)+": reportLoopIteration per iteration", fn.Pos(), "loop iteration is metered inside the loop", why)
	}
	// invocation depth pairing
	for _, fn := range w.SrcFuncsIn("interpreter") {
		if fn.Parent() != nil {
			continue
		}
		inc := core.CallsTo(fn, false, named("reportFunctionInvocation"))
		dec := core.CallsTo(fn, false, named("reportInvokedFunctionReturn"))
		if len(inc) == 0 && len(dec) == 0 {
			continue
		}
		if k := core.SSAKey(fn); k == "interpreter.(Interpreter).reportFunctionInvocation" || k == "interpreter.(Interpreter).reportInvokedFunctionReturn" {
			continue
		}
		key := core.SSAKey(fn) + ": call-depth increment/decrement pairing"
		bad := ""
		if len(inc) != 1 || len(dec) < 1 {
			bad = "expected exactly one depth increment and at least one decrement"
		} else {
			for _, d := range dec {
				if !core.Dominates(inc[0], d) {
					bad = "the depth decrement (or its defer) at " + w.Pos(d.Pos()) + " can run without the increment: the tracked depth drifts below the real depth"
				}
			}
			if bad == "" {
				for _, ret := range core.Returns(fn) {
					if core.ReachableAfter(inc[0], ret) {
						if !core.MustPass(ret, func(in ssa.Instruction) bool {
							for _, d := range dec {
								if in == d.(ssa.Instruction) && core.Dominates(inc[0], d) {
									return true
								}
							}
							return false
						}) {
							bad = "a return after the depth increment skips the decrement"
						}
					}
				}
			}
		}
		r.Check(bad == "", "R2.depth", key, fn.Pos(), "increment dominates every decrement and every return after it passes a decrement", bad)
	}
	r.Floor("R2.loops", 3)
	r.Floor("R2.depth", 1)

	// R3 VM
	if fn := mustFn(r, "R3.vm", "bbq/vm", "VM", "pushCallFrame"); fn != nil {
		// a panic with CallStackLimitExceededError controlled by a comparison involving StackDepthLimit, before the append
		found := false
		for _, ps := range core.Panics(fn, false) {
			if _, n := core.TypeName(ps.Type); n == "CallStackLimitExceededError" {
				found = true
			}
		}
		r.Check(found, "R3.vm", "bbq/vm.(VM).pushCallFrame: stack depth limit", fn.Pos(), "raises CallStackLimitExceededError", "pushCallFrame no longer enforces StackDepthLimit")
	}
	// compiler: loops emit InstructionLoop
	for _, v := range []string{"VisitWhileStatement", "VisitForStatement"} {
		fo := w.FuncObj("bbq/compiler", "Compiler", v)
		fn := w.Prog.FuncValue(fo)
		if fn == nil {
			r.Undecided("R3.vm", "bbq/compiler.(Compiler)."+v, "does not resolve")
			continue
		}
		emits := false
		core.Instrs(fn, true, func(in ssa.Instruction) {
			if mi, ok := in.(*ssa.MakeInterface); ok {
				if _, n := core.TypeName(mi.X.Type()); n == "InstructionLoop" {
					emits = true
				}
			}
		})
		r.Check(emits, "R3.vm", "bbq/compiler.(Compiler)."+v+": emits InstructionLoop", fn.Pos(), "loop iterations are metered by the VM", "the compiled loop contains no InstructionLoop: VM loop iterations are not metered")
	}
	for _, h := range []string{"opLoop", "opStatement"} {
		if fn := mustFn(r, "R3.vm", "bbq/vm", "", h); fn != nil {
			census(r, "R3.vm", fn, "common.UseComputation", funcOf(mod+"/common", "UseComputation"), 2)
		}
	}
	// peephole patterns contain no metering/jump opcodes
	{
		p := w.Pkg("bbq/compiler")
		badOps := []string{}
		nOps := 0
		for _, f := range p.Syntax {
			if !strings.HasSuffix(w.Fset.Position(f.Pos()).Filename, "peephole_patterns.go") {
				continue
			}
			ast.Inspect(f, func(n ast.Node) bool {
				kv, ok := n.(*ast.KeyValueExpr)
				if !ok {
					return true
				}
				if id, ok := kv.Key.(*ast.Ident); !ok || id.Name != "Opcodes" {
					return true
				}
				ast.Inspect(kv.Value, func(m ast.Node) bool {
					if id, ok := m.(*ast.Ident); ok {
						if c, ok := p.TypesInfo.Uses[id].(*types.Const); ok && c.Pkg() != nil && c.Pkg().Path() == mod+"/bbq/opcode" {
							nOps++
							switch c.Name() {
							case "Loop", "Statement", "Jump", "JumpIfFalse", "JumpIfTrue", "JumpIfNil":
								badOps = append(badOps, c.Name())
							}
						}
					}
					return true
				})
				return true
			})
		}
		if nOps == 0 {
			r.Undecided("R3.vm", "bbq/compiler peephole patterns", "no Opcodes lists found in peephole_patterns.go")
		} else {
			r.Check(len(badOps) == 0, "R3.vm", "bbq/compiler peephole patterns: no metering or jump opcode", 0, "optimisation patterns cannot remove metering instructions or jump targets",
				"a peephole pattern lists "+strings.Join(badOps, ",")+": optimisation can delete metering instructions or invalidate jump targets")
		}
	}
	r.Floor("R3.vm", 6)
	c30PairedMetering(r)
	c30GaugeForwarding(r)
	c30ConfiguredDepth(r)
}

// c30PairedMetering: R4 — incremental string metering is paired with the bytes written. Wherever a function appends to a
// strings.Builder and meters memory per append from a length (`UseMemory(… len(y) …)` dominating `builder.WriteString(x)` in
// the same function body), one of the dominating usages must be computed from the length of the very value written
// (x and y the same SSA value, or the same field of the same base value). Metering the length of another operand leaves the
// growth of the result unmetered.
func c30PairedMetering(r *core.Run) {
	const rule = "R4.paired"
	w := r.W
	isUseMemory := funcOf(mod+"/common", "UseMemory")
	strip := func(v ssa.Value) ssa.Value {
		for {
			switch x := v.(type) {
			case *ssa.Convert:
				v = x.X
			case *ssa.ChangeType:
				v = x.X
			default:
				return v
			}
		}
	}
	sameValue := func(a, b ssa.Value) bool {
		a, b = strip(a), strip(b)
		if a == b || sameLoad(a, b) {
			return true
		}
		// loads of the same field of the same base
		la, ok1 := a.(*ssa.UnOp)
		lb, ok2 := b.(*ssa.UnOp)
		if ok1 && ok2 && la.Op == token.MUL && lb.Op == token.MUL {
			fa, ok1 := la.X.(*ssa.FieldAddr)
			fb, ok2 := lb.X.(*ssa.FieldAddr)
			if ok1 && ok2 && fa.Field == fb.Field && (fa.X == fb.X || sameLoad(fa.X, fb.X)) {
				return true
			}
		}
		fa, ok1 := a.(*ssa.Field)
		fb, ok2 := b.(*ssa.Field)
		if ok1 && ok2 && fa.Field == fb.Field && (fa.X == fb.X || sameLoad(fa.X, fb.X)) {
			return true
		}
		return false
	}
	// lenSources: operands of len(...) calls in the backward slice of a value
	var lenSources func(v ssa.Value, d int, seen map[ssa.Value]bool, out *[]ssa.Value)
	lenSources = func(v ssa.Value, d int, seen map[ssa.Value]bool, out *[]ssa.Value) {
		if v == nil || seen[v] || d > 8 {
			return
		}
		seen[v] = true
		switch x := v.(type) {
		case *ssa.Call:
			if b, ok := x.Call.Value.(*ssa.Builtin); ok && b.Name() == "len" {
				*out = append(*out, x.Call.Args[0])
				return
			}
			for _, a := range x.Call.Args {
				lenSources(a, d+1, seen, out)
			}
		case *ssa.UnOp:
			if al, ok := x.X.(*ssa.Alloc); ok && x.Op == token.MUL {
				// a struct literal: values stored into its fields
				if refs := al.Referrers(); refs != nil {
					for _, ref := range *refs {
						switch y := ref.(type) {
						case *ssa.FieldAddr:
							if rr := y.Referrers(); rr != nil {
								for _, s := range *rr {
									if st, ok := s.(*ssa.Store); ok && st.Addr == y {
										lenSources(st.Val, d+1, seen, out)
									}
								}
							}
						case *ssa.Store:
							if y.Addr == al {
								lenSources(y.Val, d+1, seen, out)
							}
						}
					}
				}
				return
			}
			lenSources(x.X, d+1, seen, out)
		case *ssa.Convert:
			lenSources(x.X, d+1, seen, out)
		case *ssa.ChangeType:
			lenSources(x.X, d+1, seen, out)
		case *ssa.BinOp:
			lenSources(x.X, d+1, seen, out)
			lenSources(x.Y, d+1, seen, out)
		case *ssa.MakeInterface:
			lenSources(x.X, d+1, seen, out)
		}
	}
	n := 0
	for _, fn := range w.SrcFuncs() {
		if fn.Pkg == nil || !w.InScope(fn.Pkg.Pkg.Path()) {
			continue
		}
		var fns []*ssa.Function
		var collect func(f *ssa.Function)
		collect = func(f *ssa.Function) {
			fns = append(fns, f)
			for _, a := range f.AnonFuncs {
				collect(a)
			}
		}
		if fn.Parent() != nil {
			continue
		}
		collect(fn)
		for _, f := range fns {
			var uses []ssa.CallInstruction
			for _, c := range core.Calls(f, false) {
				if isUseMemory(core.Callee(c)) && len(c.Common().Args) == 2 {
					uses = append(uses, c)
				}
			}
			if len(uses) == 0 {
				continue
			}
			wi := 0
			for _, c := range core.Calls(f, false) {
				o := core.Callee(c)
				if o == nil || o.Pkg() == nil || o.Pkg().Path() != "strings" || o.Name() != "WriteString" || len(c.Common().Args) < 2 {
					continue
				}
				written := c.Common().Args[1]
				var doms [][]ssa.Value
				for _, u := range uses {
					if !core.Dominates(u, c) {
						continue
					}
					var srcs []ssa.Value
					lenSources(u.Common().Args[1], 0, map[ssa.Value]bool{}, &srcs)
					if len(srcs) > 0 {
						doms = append(doms, srcs)
					}
				}
				if len(doms) == 0 {
					continue // not the incremental idiom: the total is metered elsewhere
				}
				wi++
				n++
				ok := false
				for _, srcs := range doms {
					for _, s := range srcs {
						if sameValue(s, written) {
							ok = true
						}
					}
				}
				r.Check(ok, rule, core.SSAKey(f)+": WriteString #"+itoa(wi), c.Pos(), "a dominating memory usage is computed from the length of the value written",
					"bytes are appended to the builder but the dominating memory usage is computed from the length of a different value: the growth of the result is not metered")
			}
		}
	}
	r.Floor(rule, 5)
}

func sameLoad(a, b ssa.Value) bool {
	la, ok1 := a.(*ssa.UnOp)
	lb, ok2 := b.(*ssa.UnOp)
	return ok1 && ok2 && la.Op == token.MUL && lb.Op == token.MUL && la.X == lb.X
}
