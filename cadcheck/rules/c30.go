package rules

import (
	"go/ast"
	"go/types"
	"sort"
	"strings"

	"golang.org/x/tools/go/ssa"

	"cadcheck/core"
)

func init() { register("C30", c30) }

// meteringEdges: for every declared module function, the computation kinds and memory-usage constructors/variables
// it passes to common.UseComputation / common.UseMemory (closures attributed to the enclosing declaration).
func meteringEdges(w *core.World) map[string][]string {
	out := map[string][]string{}
	for path, p := range w.ByPath {
		if !core.InMod(path) || !w.InScope(path) {
			continue
		}
		info := p.TypesInfo
		for _, f := range p.Syntax {
			for _, d := range f.Decls {
				fd, ok := d.(*ast.FuncDecl)
				if !ok || fd.Body == nil {
					continue
				}
				key := core.DeclKey(p, fd)
				set := map[string]bool{}
				ast.Inspect(fd.Body, func(n ast.Node) bool {
					call, ok := n.(*ast.CallExpr)
					if !ok {
						return true
					}
					var callee *types.Func
					switch fx := call.Fun.(type) {
					case *ast.SelectorExpr:
						callee, _ = info.Uses[fx.Sel].(*types.Func)
					case *ast.Ident:
						callee, _ = info.Uses[fx].(*types.Func)
					}
					if callee == nil || callee.Pkg() == nil || callee.Pkg().Path() != mod+"/common" {
						return true
					}
					if callee.Name() != "UseComputation" && callee.Name() != "UseMemory" {
						return true
					}
					for _, a := range call.Args[1:] {
						ast.Inspect(a, func(m ast.Node) bool {
							id, ok := m.(*ast.Ident)
							if !ok {
								return true
							}
							obj := info.Uses[id]
							if obj == nil || obj.Pkg() == nil {
								return true
							}
							switch o := obj.(type) {
							case *types.Const:
								if nt, ok := o.Type().(*types.Named); ok && (nt.Obj().Name() == "ComputationKind" || nt.Obj().Name() == "MemoryKind") {
									set[o.Name()] = true
								}
							case *types.Func:
								if strings.Contains(o.Name(), "MemoryUsage") && o.Parent() == o.Pkg().Scope() {
									set[o.Name()] = true
								}
							case *types.Var:
								if strings.Contains(o.Name(), "MemoryUsage") && o.Parent() == o.Pkg().Scope() {
									set[o.Name()] = true
								}
							}
							return true
						})
					}
					return true
				})
				if len(set) > 0 {
					var ks []string
					for k := range set {
						ks = append(ks, k)
					}
					sort.Strings(ks)
					out[key] = ks
				}
			}
		}
	}
	return out
}

func c30(r *core.Run) {
	r.Explanation = "Decided clauses: (R1) metering census: every (function → computation kind / memory-usage kind) metering edge recorded from the reviewed tree still exists (a metering call that is removed, or whose kind disappears from a function, is reported); " +
		"(R2) interpreter: while and for-in loops call reportLoopIteration inside the loop body on every iteration path; invocation reports the call-depth increment before the call, every return after it passes the decrement, and the decrement (or its defer) is never reached without the increment; " +
		"(R3) VM/compiler: every loop construct emits InstructionLoop, statements emit InstructionStatement, opLoop/opStatement/invoke meter, and pushCallFrame tests StackDepthLimit before pushing; no peephole pattern contains a metering or jump opcode."
	r.NotDecided = "termination; that the metered amounts are adequate (e.g. which operand's length a usage is computed from)."
	w := r.W
	named := func(n string) func(*types.Func) bool {
		return func(o *types.Func) bool { return o != nil && o.Name() == n }
	}

	// R1 census
	edges := meteringEdges(w)
	if genMode() {
		genJSON(r, "c30_metering", edges)
	}
	// measure the current tree through helpers (static callees, depth 2): moving a metering call into a helper is not a violation
	direct := map[string]map[string]int{}
	for k, ks := range edges {
		direct[k] = map[string]int{}
		for _, x := range ks {
			direct[k][x] = 1
		}
	}
	deepEdges := map[string][]string{}
	for k, items := range w.DeepCounts(direct, 2) {
		for it := range items {
			deepEdges[k] = append(deepEdges[k], it)
		}
	}
	edges = deepEdges
	var pinned map[string][]string
	if r.Table("c30_metering", &pinned) {
		for k, kinds := range pinned {
			cur := map[string]bool{}
			for _, x := range edges[k] {
				cur[x] = true
			}
			var missing []string
			for _, x := range kinds {
				if !cur[x] {
					missing = append(missing, x)
				}
			}
			r.Check(len(missing) == 0, "R1.census", k+": metering kinds", 0, strings.Join(kinds, ","),
				"metering edge(s) removed: "+strings.Join(missing, ",")+" — the work done by this function is no longer charged (or charged under another kind)")
		}
	}
	r.Floor("R1.census", 400)

	// R2 interpreter loops
	if body := mustFn(r, "R2.loops", "interpreter", "Interpreter", "visitForStatementBody"); body != nil {
		rep := core.CallsTo(body, false, named("reportLoopIteration"))
		ok := len(rep) == 1
		if ok {
			for _, ret := range core.Returns(body) {
				if !core.MustPass(ret, func(in ssa.Instruction) bool { return in == rep[0].(ssa.Instruction) }) {
					ok = false
				}
			}
		}
		r.Check(ok, "R2.loops", "interpreter.(Interpreter).visitForStatementBody: reportLoopIteration on every path", body.Pos(), "each for-in iteration is metered", "a for-in iteration can complete without reporting the loop iteration")
		if vf := mustFn(r, "R2.loops", "interpreter", "Interpreter", "VisitForStatement"); vf != nil {
			census(r, "R2.loops", vf, "visitForStatementBody", named("visitForStatementBody"), 2)
		}
	}
	for _, v := range []string{"VisitWhileStatement"} {
		fn := mustFn(r, "R2.loops", "interpreter", "Interpreter", v)
		if fn == nil {
			continue
		}
		rep := core.CallsTo(fn, true, named("reportLoopIteration"))
		ok := len(rep) >= 1
		why := "the loop no longer reports its iterations"
		if ok {
			// the report lies in a cycle of the CFG (it is executed once per iteration)
			inLoop := false
			for _, c := range rep {
				if core.ReachableAfter(c, c) {
					inLoop = true
				}
				// for-in loops iterate through a callback closure: a report inside a closure passed to an iteration function counts
				if c.Parent() != fn {
					inLoop = true
				}
			}
			ok, why = inLoop, "reportLoopIteration is outside the loop (executed once, not per iteration)"
		}
		r.Check(ok, "R2.loops", core.SSAKey(fn)+": reportLoopIteration per iteration", fn.Pos(), "loop iteration is metered inside the loop", why)
	}
	// invocation depth pairing
	for _, fn := range w.SrcFuncsIn("interpreter") {
		if fn.Parent() != nil {
			continue
		}
		inc := core.CallsTo(fn, false, named("reportFunctionInvocation"))
		dec := core.CallsTo(fn, false, named("reportInvokedFunctionReturn"))
		if len(inc) == 0 && len(dec) == 0 {
			continue
		}
		if k := core.SSAKey(fn); k == "interpreter.(Interpreter).reportFunctionInvocation" || k == "interpreter.(Interpreter).reportInvokedFunctionReturn" {
			continue
		}
		key := core.SSAKey(fn) + ": call-depth increment/decrement pairing"
		bad := ""
		if len(inc) != 1 || len(dec) < 1 {
			bad = "expected exactly one depth increment and at least one decrement"
		} else {
			for _, d := range dec {
				if !core.Dominates(inc[0], d) {
					bad = "the depth decrement (or its defer) at " + w.Pos(d.Pos()) + " can run without the increment: the tracked depth drifts below the real depth"
				}
			}
			if bad == "" {
				for _, ret := range core.Returns(fn) {
					if core.ReachableAfter(inc[0], ret) {
						if !core.MustPass(ret, func(in ssa.Instruction) bool {
							for _, d := range dec {
								if in == d.(ssa.Instruction) && core.Dominates(inc[0], d) {
									return true
								}
							}
							return false
						}) {
							bad = "a return after the depth increment skips the decrement"
						}
					}
				}
			}
		}
		r.Check(bad == "", "R2.depth", key, fn.Pos(), "increment dominates every decrement and every return after it passes a decrement", bad)
	}
	r.Floor("R2.loops", 3)
	r.Floor("R2.depth", 1)

	// R3 VM
	if fn := mustFn(r, "R3.vm", "bbq/vm", "VM", "pushCallFrame"); fn != nil {
		// a panic with CallStackLimitExceededError controlled by a comparison involving StackDepthLimit, before the append
		found := false
		for _, ps := range core.Panics(fn, false) {
			if _, n := core.TypeName(ps.Type); n == "CallStackLimitExceededError" {
				found = true
			}
		}
		r.Check(found, "R3.vm", "bbq/vm.(VM).pushCallFrame: stack depth limit", fn.Pos(), "raises CallStackLimitExceededError", "pushCallFrame no longer enforces StackDepthLimit")
	}
	// compiler: loops emit InstructionLoop
	for _, v := range []string{"VisitWhileStatement", "VisitForStatement"} {
		fo := w.FuncObj("bbq/compiler", "Compiler", v)
		fn := w.Prog.FuncValue(fo)
		if fn == nil {
			r.Undecided("R3.vm", "bbq/compiler.(Compiler)."+v, "does not resolve")
			continue
		}
		emits := false
		core.Instrs(fn, true, func(in ssa.Instruction) {
			if mi, ok := in.(*ssa.MakeInterface); ok {
				if _, n := core.TypeName(mi.X.Type()); n == "InstructionLoop" {
					emits = true
				}
			}
		})
		r.Check(emits, "R3.vm", "bbq/compiler.(Compiler)."+v+": emits InstructionLoop", fn.Pos(), "loop iterations are metered by the VM", "the compiled loop contains no InstructionLoop: VM loop iterations are not metered")
	}
	for _, h := range []string{"opLoop", "opStatement"} {
		if fn := mustFn(r, "R3.vm", "bbq/vm", "", h); fn != nil {
			census(r, "R3.vm", fn, "common.UseComputation", funcOf(mod+"/common", "UseComputation"), 2)
		}
	}
	// peephole patterns contain no metering/jump opcodes
	{
		p := w.Pkg("bbq/compiler")
		badOps := []string{}
		nOps := 0
		for _, f := range p.Syntax {
			if !strings.HasSuffix(w.Fset.Position(f.Pos()).Filename, "peephole_patterns.go") {
				continue
			}
			ast.Inspect(f, func(n ast.Node) bool {
				kv, ok := n.(*ast.KeyValueExpr)
				if !ok {
					return true
				}
				if id, ok := kv.Key.(*ast.Ident); !ok || id.Name != "Opcodes" {
					return true
				}
				ast.Inspect(kv.Value, func(m ast.Node) bool {
					if id, ok := m.(*ast.Ident); ok {
						if c, ok := p.TypesInfo.Uses[id].(*types.Const); ok && c.Pkg() != nil && c.Pkg().Path() == mod+"/bbq/opcode" {
							nOps++
							switch c.Name() {
							case "Loop", "Statement", "Jump", "JumpIfFalse", "JumpIfTrue", "JumpIfNil":
								badOps = append(badOps, c.Name())
							}
						}
					}
					return true
				})
				return true
			})
		}
		if nOps == 0 {
			r.Undecided("R3.vm", "bbq/compiler peephole patterns", "no Opcodes lists found in peephole_patterns.go")
		} else {
			r.Check(len(badOps) == 0, "R3.vm", "bbq/compiler peephole patterns: no metering or jump opcode", 0, "optimisation patterns cannot remove metering instructions or jump targets",
				"a peephole pattern lists "+strings.Join(badOps, ",")+": optimisation can delete metering instructions or invalidate jump targets")
		}
	}
	r.Floor("R3.vm", 6)
}
