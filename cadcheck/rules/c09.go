package rules

import (
	"go/types"
	"sort"
	"strings"

	"golang.org/x/tools/go/ssa"

	"cadcheck/core"
)

func init() { register("C09", c09) }

// unboxGuard returns the normalised names of the type constants whose comparison controls the Unbox call in fn.
func unboxGuard(fn *ssa.Function) ([]string, bool) {
	var unbox ssa.CallInstruction
	for _, c := range core.Calls(fn, false) {
		if o := core.Callee(c); o != nil && o.Name() == "Unbox" {
			unbox = c
		}
	}
	if unbox == nil {
		return nil, false
	}
	set := map[string]bool{}
	// the guard `!(t == A || t == B)` compiles to a chain of comparisons; collect every type constant compared on
	// a branch that decides whether the Unbox call runs
	for _, b := range fn.Blocks {
		if len(b.Instrs) == 0 {
			continue
		}
		iff, ok := b.Instrs[len(b.Instrs)-1].(*ssa.If)
		if !ok {
			continue
		}
		bo, ok := iff.Cond.(*ssa.BinOp)
		if !ok {
			continue
		}
		// the branch must be able to skip the unbox call: one successor cannot reach it
		r0 := reachesFrom(b.Succs[0], unbox)
		r1 := reachesFrom(b.Succs[1], unbox)
		if r0 == r1 {
			continue
		}
		// the value compared must be the optional-unwrapped target (UnwrapOptionalType(target)), not the raw target:
		// `T?` with T a top type has to keep optionals as well
		unwrapped := false
		for _, side := range []ssa.Value{bo.X, bo.Y} {
			if strings.Contains(core.OriginLeavesVia(side), "via:UnwrapOptionalType") {
				unwrapped = true
			}
		}
		if !unwrapped {
			set["(raw target compared at "+fn.Prog.Fset.Position(bo.Pos()).String()[strings.LastIndex(fn.Prog.Fset.Position(bo.Pos()).String(), "/")+1:]+")"] = true
		}
		for _, side := range []ssa.Value{bo.X, bo.Y} {
			v := core.Unwrap(side)
			switch x := v.(type) {
			case *ssa.UnOp:
				if g, ok := x.X.(*ssa.Global); ok {
					set[normTypeName(g.Name())] = true
				}
			case *ssa.Const:
				// primitive static type constants are untyped-named constants: recover the name through the type
			}
			if mi, ok := side.(*ssa.MakeInterface); ok {
				if c, ok := mi.X.(*ssa.Const); ok && c.Value != nil {
					set["const:"+c.Value.ExactString()] = true
				}
			}
		}
	}
	var out []string
	for k := range set {
		out = append(out, k)
	}
	sort.Strings(out)
	return out, true
}

func normTypeName(s string) string {
	s = strings.TrimPrefix(s, "PrimitiveStaticType")
	return strings.TrimSuffix(s, "Type")
}

func c09(r *core.Run) {
	r.Explanation = "Decided clauses: (R1) single source of the decision: the interpreter's casting visitor, the VM's opFailableCast/opForceCast, isInstance and Type.isSubtype obtain their verdict from the subtype relation (sema.IsSubType / IsSubType / IsSubTypeOfSemaType) on the value's dynamic type; " +
		"the failable cast yields nil and the force cast raises ForceCastTypeMismatchError exactly on the false outcome of that same test; (R2) the optional-unboxing guard that precedes the test is the same in both engines: " +
		"both keep optionals exactly for the targets AnyStruct and AnyResource; " +
		"(R3) the run-time subtype test starts with a type-equality shortcut: every Equal method of the static types that compares collections element-wise uses a universal quantifier (ForAllKeys / ForAll), never an existential one, and only after comparing the sizes."
	r.NotDecided = "equality of cast results and type-test results on all values."
	w := r.W
	named := func(n string) func(*types.Func) bool {
		return func(o *types.Func) bool { return o != nil && o.Name() == n }
	}
	isSub := func(o *types.Func) bool {
		return o != nil && (o.Name() == "IsSubType" || o.Name() == "IsSubTypeOfSemaType")
	}
	// R1 census
	for _, f := range [][3]string{{"interpreter", "Interpreter", "VisitCastingExpression"}, {"bbq/vm", "", "opFailableCast"}, {"bbq/vm", "", "opForceCast"}, {"interpreter", "", "IsInstance"}, {"interpreter", "", "MetaTypeIsSubType"}} {
		fn := mustFn(r, "R1.source", f[0], f[1], f[2])
		if fn == nil {
			continue
		}
		census(r, "R1.source", fn, "subtype relation (IsSubType/IsSubTypeOfSemaType)", isSub, 2)
	}
	// force cast fails exactly on the false outcome of the test
	for _, f := range [][3]string{{"bbq/vm", "", "opForceCast"}, {"interpreter", "Interpreter", "VisitCastingExpression"}} {
		fn := w.Fn(f[0], f[1], f[2])
		if fn == nil {
			continue
		}
		for _, ps := range core.Panics(fn, false) {
			if _, tn := core.TypeName(ps.Type); tn != "ForceCastTypeMismatchError" {
				continue
			}
			ok := false
			for _, a := range core.ControllingConds(ps.Instr) {
				if c, isCall := core.Origin(a.Var.Call).(*ssa.Call); isCall && !a.Val {
					if o := core.Callee(c); o != nil && isSub(o) {
						ok = true
					}
				}
			}
			r.Check(ok, "R1.source", core.SSAKey(fn)+": ForceCastTypeMismatchError on the failed subtype test", ps.Instr.Pos(), "raised exactly when the subtype test is false", "the force-cast failure is not controlled by the subtype test's false outcome")
		}
	}
	r.Floor("R1.source", 7)

	castUnboxAgreement(r, "R2.unbox")
	r.Floor("R2.unbox", 1)
	c09EqualQuantifiers(r)
	_ = named
}

// castUnboxAgreement: the optional-unboxing guards of the interpreter's and the VM's cast helpers agree.
func castUnboxAgreement(r *core.Run, rule string) {
	w := r.W
	// R2 the unboxing guards agree
	fi := w.Fn("interpreter", "Interpreter", "castValueAndValueType")
	fv := w.Fn("bbq/vm", "", "castValueAndValueType")
	if fi == nil || fv == nil {
		r.Undecided(rule, "castValueAndValueType (interpreter / bbq/vm)", "the twin cast helpers do not resolve")
	} else {
		gi, ok1 := unboxGuard(fi)
		gv, ok2 := unboxGuard(fv)
		// the VM compares PrimitiveStaticType constants: map their numeric values back to names
		p := w.Pkg("interpreter")
		for i, g := range gv {
			if strings.HasPrefix(g, "const:") {
				val := strings.TrimPrefix(g, "const:")
				sc := p.Types.Scope()
				for _, n := range sc.Names() {
					if c, ok := sc.Lookup(n).(*types.Const); ok && strings.HasPrefix(n, "PrimitiveStaticType") && c.Val().ExactString() == val {
						if nt, ok := c.Type().(*types.Named); ok && nt.Obj().Name() == "PrimitiveStaticType" && !strings.Contains(n, "_") {
							gv[i] = normTypeName(n)
						}
					}
				}
			}
		}
		sort.Strings(gv)
		r.Check(ok1 && ok2 && strings.Join(gi, ",") == strings.Join(gv, ",") && len(gi) == 2, rule, "castValueAndValueType: optional-preserving targets agree", fi.Pos(),
			"both engines keep optionals for {"+strings.Join(gi, ",")+"}", "interpreter keeps optionals for {"+strings.Join(gi, ",")+"}, the VM for {"+strings.Join(gv, ",")+"}: a dynamic cast yields values of different dynamic type in the two engines")
	}
}

// c09EqualQuantifiers: R3 — interpreter.IsSubType answers true as soon as subType.Equal(superType): an Equal of a static
// type (or authorization) that is too generous makes isInstance and the VM's casts accept values whose run-time type is
// not a subtype of the target. Where such an Equal compares two key sets with an ordered-map quantifier it must be the
// universal one, guarded by a comparison of the two sizes.
func c09EqualQuantifiers(r *core.Run) {
	const rule = "R3.equalquant"
	w := r.W
	n := 0
	for _, fn := range w.SrcFuncsIn("interpreter") {
		if fn.Parent() != nil || fn.Name() != "Equal" || fn.Signature.Recv() == nil || w.File(fn.Pos()) != "interpreter/statictype.go" {
			continue
		}
		for _, c := range core.Calls(fn, true) {
			o := core.Callee(c)
			if o == nil || o.Pkg() == nil || !strings.HasSuffix(o.Pkg().Path(), "/common/orderedmap") {
				continue
			}
			switch o.Name() {
			case "ForAllKeys", "ForAll", "ForAnyKey", "ForAny":
			default:
				continue
			}
			n++
			universal := strings.HasPrefix(o.Name(), "ForAll")
			// a size comparison (Len() != Len()) controls the quantified comparison
			sized := false
			if in, ok := c.(ssa.Instruction); ok {
				for _, a := range core.ControllingConds(in) {
					if a.Var.Call == nil {
						continue
					}
					if strings.Contains(core.ValueDesc(a.Var.Call), "via:Len") {
						sized = true
					}
				}
			}
			key := core.SSAKey(fn) + ": " + o.Name()
			r.Check(universal && sized, rule, key, c.Pos(), "universal quantifier after a size comparison",
				"an Equal of a static type compares two key sets with "+o.Name()+" (existential) or without comparing their sizes: different types compare equal, and the equality shortcut of the run-time subtype test accepts them")
		}
	}
	r.Check(n >= 1, rule, "interpreter/statictype.go Equal methods: set comparisons", 0, itoa(n)+" found", "the set comparison of EntitlementSetAuthorization.Equal was not found")
	r.Floor(rule, 2)
}
