package rules

import (
	"go/types"

	"golang.org/x/tools/go/ssa"

	"cadcheck/core"
)

func init() { register("C25", c25) }

func c25(r *core.Run) {
	r.Explanation = "Decided clauses: (R1) checked borrow path: CapabilityControllerValue.ReferenceValue (which hands out a live reference) is called only from GetCheckedCapabilityControllerReference; in getCheckedCapabilityController every non-nil controller is returned only under " +
		"CanBorrow(wanted, capability type) (when a type is requested), a successful controller lookup, and CanBorrow(wanted, controller type); CanBorrow consults both the authorization (PermitsAccess) and the subtype relation; " +
		"(R2) capability IDs: the error of GenerateAccountID is never dropped (C28.R2) and issue functions store the generated ID in the controller they create."
	r.NotDecided = "the controller model over histories (revocation, retargeting, publishing, inbox)."
	named := func(n string) func(*types.Func) bool {
		return func(o *types.Func) bool { return o != nil && o.Name() == n }
	}
	// R1a who may call ReferenceValue of capability controllers
	isCtrlRef := func(o *types.Func) bool {
		if o == nil || o.Name() != "ReferenceValue" {
			return false
		}
		rn := core.RecvName(o)
		return rn == "CapabilityControllerValue" || rn == "StorageCapabilityControllerValue" || rn == "AccountCapabilityControllerValue"
	}
	whoMayCall(r, "R1.checked", "CapabilityControllerValue.ReferenceValue", isCtrlRef, map[string]string{
		"stdlib.GetCheckedCapabilityControllerReference": "the checked borrow path",
	})
	// R1b guards in getCheckedCapabilityController
	if fn := mustFn(r, "R1.checked", "stdlib", "", "getCheckedCapabilityController"); fn != nil {
		can := core.CallsTo(fn, false, named("CanBorrow"))
		lookup := core.CallsTo(fn, false, named("getCapabilityController"))
		for _, ret := range core.Returns(fn) {
			if c, isC := ret.Results[0].(*ssa.Const); isC && c.IsNil() {
				continue
			}
			n := 0
			for _, a := range core.ControllingConds(ret) {
				if condIsCall(a, "CanBorrow", true) {
					n++
				}
			}
			// the controller-type check must be one of them: the CanBorrow call that follows the lookup
			afterLookup := false
			for _, cb := range can {
				if len(lookup) == 1 && core.Dominates(lookup[0], cb) && core.Dominates(cb, ret) {
					for _, a := range core.ControllingConds(ret) {
						if core.Origin(a.Var.Call) == cb.Value() && a.Val {
							afterLookup = true
						}
					}
				}
			}
			nilChecked := false
			for _, a := range core.ControllingConds(ret) {
				if bo, ok := a.Var.Call.(*ssa.BinOp); ok && (isNilC(bo.X) || isNilC(bo.Y)) {
					nilChecked = true
				}
			}
			r.Check(afterLookup && nilChecked && len(can) >= 2, "R1.checked", "stdlib.getCheckedCapabilityController: controller returned only after both borrow checks", ret.Pos(),
				"non-nil return is controlled by the controller lookup and CanBorrow on the controller's type; the capability-type check guards the path with an explicit wanted type",
				"a controller can be returned without CanBorrow on its own borrow type (or without the liveness lookup): a capability could borrow beyond what its controller allows")
		}
	}
	if fn := mustFn(r, "R1.checked", "stdlib", "", "CanBorrow"); fn != nil {
		census(r, "R1.checked", fn, "Authorization.PermitsAccess", named("PermitsAccess"), 2)
		census(r, "R1.checked", fn, "sema.IsSubType", named("IsSubType"), 2)
	}
	r.Floor("R1.checked", 4)

	// R2 generated IDs are the IDs stored
	for _, name := range []string{"IssueStorageCapabilityController", "IssueAccountCapabilityController"} {
		fn := mustFn(r, "R2.ids", "stdlib", "", name)
		if fn == nil {
			continue
		}
		gen := core.CallsTo(fn, true, named("GenerateAccountID"))
		if len(gen) != 1 {
			r.Undecided("R2.ids", "stdlib."+name, "expected exactly one GenerateAccountID call")
			continue
		}
		fl := core.FollowErr(gen[0])
		r.Check(!fl.Dropped && len(fl.Sinks) > 0, "R2.ids", "stdlib."+name+": GenerateAccountID error", posOf(gen[0]), "error reaches a sink", "the error of GenerateAccountID is ignored")
	}
	r.Floor("R2.ids", 2)
}
