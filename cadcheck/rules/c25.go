package rules

import (
	"go/types"
	"sort"
	"strings"

	"golang.org/x/tools/go/ssa"

	"cadcheck/core"
)

func init() { register("C25", c25) }

func c25(r *core.Run) {
	r.Explanation = "Decided clauses: (R1) checked borrow path: CapabilityControllerValue.ReferenceValue (which hands out a live reference) is called only from GetCheckedCapabilityControllerReference; in getCheckedCapabilityController every non-nil controller is returned only under " +
		"CanBorrow(wanted, capability type) (when a type is requested), a successful controller lookup, and CanBorrow(wanted, controller type); CanBorrow consults both the authorization (PermitsAccess) and the subtype relation; " +
		"(R2) capability IDs: the error of GenerateAccountID is never dropped (C28.R2) and issue functions store the generated ID in the controller they create."
	r.NotDecided = "the controller model over histories (revocation, retargeting, publishing, inbox)."
	named := func(n string) func(*types.Func) bool {
		return func(o *types.Func) bool { return o != nil && o.Name() == n }
	}
	// R1a who may call ReferenceValue of capability controllers
	isCtrlRef := func(o *types.Func) bool {
		if o == nil || o.Name() != "ReferenceValue" {
			return false
		}
		rn := core.RecvName(o)
		return rn == "CapabilityControllerValue" || rn == "StorageCapabilityControllerValue" || rn == "AccountCapabilityControllerValue"
	}
	whoMayCall(r, "R1.checked", "CapabilityControllerValue.ReferenceValue", isCtrlRef, map[string]string{
		"stdlib.GetCheckedCapabilityControllerReference": "the checked borrow path",
	})
	// R1b guards in getCheckedCapabilityController
	if fn := mustFn(r, "R1.checked", "stdlib", "", "getCheckedCapabilityController"); fn != nil {
		can := core.CallsTo(fn, false, named("CanBorrow"))
		lookup := core.CallsTo(fn, false, named("getCapabilityController"))
		for _, ret := range core.Returns(fn) {
			if c, isC := ret.Results[0].(*ssa.Const); isC && c.IsNil() {
				continue
			}
			n := 0
			for _, a := range core.ControllingConds(ret) {
				if condIsCall(a, "CanBorrow", true) {
					n++
				}
			}
			// the controller-type check must be one of them: the CanBorrow call that follows the lookup
			afterLookup := false
			for _, cb := range can {
				if len(lookup) == 1 && core.Dominates(lookup[0], cb) && core.Dominates(cb, ret) {
					for _, a := range core.ControllingConds(ret) {
						if core.Origin(a.Var.Call) == cb.Value() && a.Val {
							afterLookup = true
						}
					}
				}
			}
			nilChecked := false
			for _, a := range core.ControllingConds(ret) {
				if bo, ok := a.Var.Call.(*ssa.BinOp); ok && (isNilC(bo.X) || isNilC(bo.Y)) {
					nilChecked = true
				}
			}
			r.Check(afterLookup && nilChecked && len(can) >= 2, "R1.checked", "stdlib.getCheckedCapabilityController: controller returned only after both borrow checks", ret.Pos(),
				"non-nil return is controlled by the controller lookup and CanBorrow on the controller's type; the capability-type check guards the path with an explicit wanted type",
				"a controller can be returned without CanBorrow on its own borrow type (or without the liveness lookup): a capability could borrow beyond what its controller allows")
		}
	}
	if fn := mustFn(r, "R1.checked", "stdlib", "", "CanBorrow"); fn != nil {
		census(r, "R1.checked", fn, "Authorization.PermitsAccess", named("PermitsAccess"), 2)
		census(r, "R1.checked", fn, "sema.IsSubType", named("IsSubType"), 2)
	}
	r.Floor("R1.checked", 4)

	// R2 generated IDs are the IDs stored
	for _, name := range []string{"IssueStorageCapabilityController", "IssueAccountCapabilityController"} {
		fn := mustFn(r, "R2.ids", "stdlib", "", name)
		if fn == nil {
			continue
		}
		gen := core.CallsTo(fn, true, named("GenerateAccountID"))
		if len(gen) != 1 {
			r.Undecided("R2.ids", "stdlib."+name, "expected exactly one GenerateAccountID call")
			continue
		}
		fl := core.FollowErr(gen[0])
		r.Check(!fl.Dropped && len(fl.Sinks) > 0, "R2.ids", "stdlib."+name+": GenerateAccountID error", posOf(gen[0]), "error reaches a sink", "the error of GenerateAccountID is ignored")
	}
	r.Floor("R2.ids", 2)

	// R3 operands of every CanBorrow call: which borrow type is compared with which (ORIGIN leaves pinned per function)
	operandOrigins(r, "R3.operands", "c25_canborrow", func(o *types.Func) bool {
		return o != nil && o.Name() == "CanBorrow" && o.Pkg() != nil && o.Pkg().Path() == mod+"/stdlib"
	}, "the wanted type is no longer compared with the type it was compared with on the reviewed tree (e.g. the capability's type instead of the requested one is checked against the controller): a borrow with an unrelated type succeeds")
	r.Floor("R3.operands", 2)

	// R4 the per-path index of storage capability controllers is updated old-path-first: wherever a function both unrecords and
	// records a controller ID (retarget), the removal from the old path's set dominates the insertion into the new path's set
	// (the insertion asserts that the ID is not yet present; retargeting to the current path is a valid no-op on the sets)
	n := 0
	for _, top := range r.W.SrcFuncsIn("stdlib") {
		if top.Parent() != nil {
			continue
		}
		// group the calls by the function (literal) they stand in
		byFn := map[*ssa.Function][2][]ssa.CallInstruction{}
		for _, c := range core.CallsTo(top, true, named("recordStorageCapabilityController")) {
			e := byFn[c.Parent()]
			e[0] = append(e[0], c)
			byFn[c.Parent()] = e
		}
		for _, c := range core.CallsTo(top, true, named("unrecordStorageCapabilityController")) {
			e := byFn[c.Parent()]
			e[1] = append(e[1], c)
			byFn[c.Parent()] = e
		}
		for fn, e := range byFn {
			rec, unrec := e[0], e[1]
			if len(rec) == 0 || len(unrec) == 0 {
				continue
			}
			n++
			ok := true
			for _, rc := range rec {
				dom := false
				for _, u := range unrec {
					if core.Dominates(u, rc) {
						dom = true
					}
				}
				if !dom {
					ok = false
				}
			}
			r.Check(ok, "R4.retarget", core.SSAKey(top)+": unrecord before record", fn.Pos(), "the ID leaves the old path's set before it enters the new one",
				"the controller ID is recorded under the new path before it is removed from the old one: retargeting a controller to its current path hits the duplicate assertion (internal error) instead of being a no-op")
		}
	}
	if n == 0 {
		r.Undecided("R4.retarget", "stdlib", "no function both records and unrecords a storage capability controller")
	}
	r.Floor("R4.retarget", 1)

	// R5 a retargeted controller is written back: the controller value lives in the account's capability-controller storage
	// map; assigning its TargetPath in memory does not mark the containing slab as changed, so the closure installed by
	// newStorageCapabilityControllerSetTargetFunction must assign the new target and then WriteStored the controller on
	// every returning path (otherwise the new target is lost on commit while the path index is updated)
	if top := mustFn(r, "R5.persist", "stdlib", "", "newStorageCapabilityControllerSetTargetFunction"); top != nil {
		if len(top.AnonFuncs) != 1 {
			r.Undecided("R5.persist", core.SSAKey(top), "expected one function literal")
		} else {
			fn := top.AnonFuncs[0]
			var stores []ssa.Instruction
			core.Instrs(fn, false, func(in ssa.Instruction) {
				if st, ok := in.(*ssa.Store); ok {
					if fa, ok := st.Addr.(*ssa.FieldAddr); ok {
						if tn, f := structFieldOf(fa); tn == "StorageCapabilityControllerValue" && f == "TargetPath" {
							stores = append(stores, in)
						}
					}
				}
			})
			isWriteBack := func(in ssa.Instruction) bool {
				c, ok := in.(ssa.CallInstruction)
				if !ok {
					return false
				}
				if c.Common().Method == nil || c.Common().Method.Name() != "WriteStored" {
					if o := core.Callee(c); o == nil || o.Name() != "WriteStored" {
						return false
					}
				}
				// the value written is the controller, and a store of the new target precedes the call
				args := c.Common().Args
				if len(args) == 0 {
					return false
				}
				if _, tn := core.TypeName(core.Unwrap(args[len(args)-1]).Type()); tn != "StorageCapabilityControllerValue" {
					return false
				}
				for _, st := range stores {
					if core.Dominates(st, in) {
						return true
					}
				}
				return false
			}
			ok := len(core.Returns(fn)) > 0
			for _, ret := range core.Returns(fn) {
				if !core.MustPass(ret, isWriteBack) {
					ok = false
				}
			}
			r.Check(ok, "R5.persist", core.SSAKey(top)+": retargeted controller written back", fn.Pos(), "TargetPath is assigned and the controller is written to storage on every returning path",
				"retarget updates the path index but does not write the controller with its new target back to storage: once the controller map is not inlined in the account's root slab the new target is lost on commit (target() reports the old path, delete() hits an internal error)")
		}
	}
	r.Floor("R5.persist", 1)
	c25LateReads(r)
	c25ClaimOrder(r)
}

// operandOrigins: ORIGIN engine as a pinned census — for every call of the selected callees, the data-flow origin leaves of
// each operand, collected per top-level caller, must still contain the signatures recorded from the reviewed tree.
func operandOrigins(r *core.Run, rule, table string, sel func(*types.Func) bool, why string) {
	w := r.W
	got := map[string][]string{}
	for _, fn := range w.SrcFuncs() {
		if fn.Pkg == nil || !w.InScope(fn.Pkg.Pkg.Path()) {
			continue
		}
		top := fn
		for top.Parent() != nil {
			top = top.Parent()
		}
		for _, c := range core.Calls(fn, false) {
			o := core.Callee(c)
			if !sel(o) {
				continue
			}
			cc := c.Common()
			var ops []ssa.Value
			if cc.IsInvoke() {
				ops = append(ops, cc.Value)
			}
			ops = append(ops, cc.Args...)
			var parts []string
			for _, op := range ops {
				parts = append(parts, core.OriginLeaves(op))
			}
			got[core.SSAKey(top)] = append(got[core.SSAKey(top)], o.Name()+"("+strings.Join(parts, ", ")+")")
		}
	}
	for k := range got {
		sort.Strings(got[k])
	}
	if genMode() {
		genJSON(r, table, got)
		return
	}
	var pinned map[string][]string
	if !r.Table(table, &pinned) {
		return
	}
	for _, k := range sortedKeys(pinned) {
		have := map[string]int{}
		for _, s := range got[k] {
			have[s]++
		}
		for _, s := range pinned[k] {
			if have[s] > 0 {
				have[s]--
				r.OK(rule, k+": "+s, 0, "operands have their reviewed origins")
				continue
			}
			now := "the call is gone from this function"
			if len(got[k]) > 0 {
				now = "now: " + strings.Join(got[k], " // ")
			}
			r.Bad(rule, k+": "+s, 0, why+" ("+now+")")
		}
	}
}

// c25LateReads: R6 — the native functions injected into a controller value (delete, retarget) are closures created when a
// reference to the controller is obtained and invoked later, possibly after the controller was retargeted through the
// same reference. The controller's mutable state (TargetPath) must be read when the closure runs: a builder that reads
// it eagerly and lets the closure capture the copy makes a later delete()/retarget() work on the stale target.
func c25LateReads(r *core.Run) {
	const rule = "R6.lateread"
	w := r.W
	n := 0
	for _, fn := range w.SrcFuncsIn("stdlib") {
		if fn.Parent() != nil || len(fn.AnonFuncs) == 0 {
			continue
		}
		// builders: return a function value
		res := fn.Signature.Results()
		if res.Len() != 1 {
			continue
		}
		if _, isFunc := res.At(0).Type().Underlying().(*types.Signature); !isFunc {
			continue
		}
		inner := 0
		for _, a := range core.WithAnon(fn) {
			core.Instrs(a, false, func(in ssa.Instruction) {
				fa, ok := in.(*ssa.FieldAddr)
				if !ok {
					return
				}
				tn, f := structFieldOf(fa)
				if tn != "StorageCapabilityControllerValue" || f != "TargetPath" {
					return
				}
				// only reads
				isRead := false
				if refs := fa.Referrers(); refs != nil {
					for _, ref := range *refs {
						if u, ok := ref.(*ssa.UnOp); ok && u.X == ssa.Value(fa) {
							isRead = true
						}
					}
				}
				if !isRead {
					return
				}
				if a == fn {
					n++
					r.Bad(rule, core.SSAKey(fn)+": eager read of TargetPath", fa.Pos(), "the builder of an injected controller function reads the controller's target path when the closure is created, not when it runs: after retarget() through the same reference, delete()/retarget() act on the stale path")
				} else {
					inner++
				}
			})
		}
		if inner > 0 {
			n++
			r.OK(rule, core.SSAKey(fn)+": TargetPath read inside the closure", fn.Pos(), "the target path is read when the injected function runs")
		}
	}
	r.Check(n >= 2, rule, "stdlib: builders of injected controller functions reading TargetPath", 0, itoa(n)+" found", "the builders of the injected storage-controller functions were not found")
	r.Floor(rule, 3)
}

// c25ClaimOrder: R7 — inbox.claim answers nil to anybody but the intended recipient before it looks at anything else: the
// recipient comparison must dominate the borrow-type check (whose failure aborts and prints the published type) and the
// removal of the published value.
func c25ClaimOrder(r *core.Run) {
	const rule = "R7.claimorder"
	fn := mustFn(r, rule, "stdlib", "", "AccountInboxClaim")
	if fn == nil {
		return
	}
	var recip ssa.Instruction
	for _, c := range core.Calls(fn, false) {
		if o := core.Callee(c); o != nil && o.Name() == "Equal" {
			ops := c.Common().Args
			if c.Common().IsInvoke() {
				ops = append([]ssa.Value{c.Common().Value}, ops...)
			}
			for _, a := range ops {
				if strings.Contains(core.OriginLeaves(a), ".Recipient") {
					recip = c.(ssa.Instruction)
				}
			}
		}
	}
	if recip == nil {
		r.Bad(rule, "stdlib.AccountInboxClaim: recipient comparison", fn.Pos(), "the comparison of the caller with the published value's recipient was removed")
		r.Floor(rule, 1)
		return
	}
	n := 0
	for _, ps := range core.Panics(fn, false) {
		if _, tn := core.TypeName(ps.Type); tn != "ForceCastTypeMismatchError" {
			continue
		}
		n++
		r.Check(recip.Block().Dominates(ps.Instr.Block()) && recip.Block() != ps.Instr.Block(), rule, "stdlib.AccountInboxClaim: recipient test before the borrow-type failure", ps.Instr.Pos(),
			"the type mismatch is only reported to the intended recipient", "the borrow-type check can fail before the caller was compared with the intended recipient: a non-recipient gets an abort that reveals the published type instead of nil")
	}
	for _, c := range core.Calls(fn, false) {
		if o := core.Callee(c); o != nil && (o.Name() == "Transfer" || o.Name() == "WriteStored") {
			n++
			in := c.(ssa.Instruction)
			r.Check(recip.Block().Dominates(in.Block()) && recip.Block() != in.Block(), rule, "stdlib.AccountInboxClaim: recipient test before "+o.Name(), c.Pos(),
				"only reached by the intended recipient", "the published value is taken before the caller was compared with the intended recipient")
		}
	}
	r.Floor(rule, 2)
}
