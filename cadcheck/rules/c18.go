package rules

import (
	"go/ast"
	"go/token"
	"go/types"
	"sort"
	"strings"

	"golang.org/x/tools/go/ssa"

	"cadcheck/core"
)

func init() { register("C18", c18) }

func c18(r *core.Run) {
	r.Explanation = "Decided clauses: (R1) every HashInput method of an interpreter value type writes the HashInputType constant that carries its own type's name (HashInputTypeX in (XValue).HashInput); tag numbers are pinned and distinct (C44.R1); " +
		"(R2) comparison methods Less/LessEqual/Greater/GreaterEqual use the operator that matches their name (native operator, big.Int Cmp result comparison, or the delegate method of the same name), and sibling widths agree; " +
		"(R3) every StringValue is built by the NFC-normalising constructor (equality, ordering and hashing work on the normalised form); the non-normalising constructors have no shipped caller; " +
		"(R4) every receiver field read by a value type's HashInput is also read by its Equal (hash computed from compared state only)."
	r.NotDecided = "the laws on values (equal values hash equally for NFC strings, nested containers, optional wrapping; total order)."
	w := r.W
	p := w.Pkg("interpreter")
	info := p.TypesInfo
	// R1
	for _, fd := range w.FuncDeclsIn("interpreter") {
		if fd.Recv == nil || fd.Name.Name != "HashInput" {
			continue
		}
		_, recv := core.ExprTypeName(fd.Recv.List[0].Type, info)
		var tags []string
		ast.Inspect(fd.Body, func(n ast.Node) bool {
			if id, ok := n.(*ast.Ident); ok {
				if c, ok := info.Uses[id].(*types.Const); ok && strings.HasPrefix(c.Name(), "HashInputType") {
					tags = append(tags, c.Name())
				}
			}
			return true
		})
		tags = uniq(tags)
		key := "interpreter.(" + recv + ").HashInput"
		if len(tags) == 0 {
			continue // delegates (e.g. to an inner value)
		}
		want := strings.TrimSuffix(recv, "Value")
		ok := false
		for _, t := range tags {
			if strings.TrimPrefix(t, "HashInputType") == want {
				ok = true
			}
		}
		// enum/composite kinds use a family of tags; accept when every tag starts with the receiver's name
		if !ok {
			all := true
			for _, t := range tags {
				if !strings.HasPrefix(strings.TrimPrefix(t, "HashInputType"), want) {
					all = false
				}
			}
			ok = all
		}
		if recv == "CompositeValue" && len(tags) == 1 && tags[0] == "HashInputTypeEnum" {
			ok = true // only enum composites are hashable; they use the dedicated enum tag
		}
		r.Check(ok, "R1.hashtag", key, fd.Pos(), "writes "+strings.Join(tags, ","), "hash input of "+recv+" is tagged with "+strings.Join(tags, ",")+": values of different types can produce the same hash input")
	}
	r.Floor("R1.hashtag", 30)

	// R2 comparison operators
	want := map[string]struct {
		op   token.Token
		meth []string
	}{
		"Less": {token.LSS, []string{"Less", "Lt"}}, "LessEqual": {token.LEQ, []string{"LessEqual", "Lte"}},
		"Greater": {token.GTR, []string{"Greater", "Gt"}}, "GreaterEqual": {token.GEQ, []string{"GreaterEqual", "Gte"}},
	}
	for _, fd := range w.FuncDeclsIn("interpreter") {
		wv, ok := want[fd.Name.Name]
		if !ok || fd.Recv == nil || fd.Body == nil || len(fd.Body.List) == 0 {
			continue
		}
		_, recv := core.ExprTypeName(fd.Recv.List[0].Type, info)
		if !strings.HasSuffix(recv, "Value") {
			continue
		}
		ret, isRet := fd.Body.List[len(fd.Body.List)-1].(*ast.ReturnStmt)
		if !isRet || len(ret.Results) != 1 {
			continue
		}
		key := "interpreter.(" + recv + ")." + fd.Name.Name
		e := core.StripConv(ret.Results[0], info)
		verdict, desc := false, types.ExprString(e)
		switch x := e.(type) {
		case *ast.BinaryExpr:
			// v < o  or  cmp <= 0 / cmp == -1
			if x.Op == wv.op {
				verdict = true
			}
			if tv, okc := info.Types[x.Y]; okc && tv.Value != nil {
				// comparison of a Cmp result with a constant: cmp == -1 means Less, cmp == 1 means Greater
				switch {
				case x.Op == token.EQL && tv.Value.ExactString() == "-1":
					verdict = fd.Name.Name == "Less"
				case x.Op == token.EQL && tv.Value.ExactString() == "1":
					verdict = fd.Name.Name == "Greater"
				}
			}
		case *ast.CallExpr:
			if sel, oks := x.Fun.(*ast.SelectorExpr); oks {
				for _, m := range wv.meth {
					if sel.Sel.Name == m {
						verdict = true
					}
				}
			}
		default:
			continue
		}
		r.Check(verdict, "R2.compare", key, fd.Pos(), "returns "+desc, "comparison method "+fd.Name.Name+" returns `"+desc+"`: the operator does not match the method")
	}
	r.Floor("R2.compare", 80)
	siblingRule(r, "R2.siblings", allFamilies, func(g string) bool { return isGroupOf(g, "Less", "LessEqual", "Greater", "GreaterEqual", "Equal") })
	r.Floor("R2.siblings", 25)
	// R3 strings are compared, ordered and hashed on their NFC form: every string value is produced by the normalising constructor
	stringNormalisation(r, "R3.normalised")
	r.Floor("R3.normalised", 4)
	c18HashFields(r)
}

// c18HashFields: R4 — "equal values hash equally" needs the hash input to be computed from the same state that equality
// compares. For every interpreter value type with both Equal and HashInput (receiver is a struct), every receiver field
// read by HashInput must also be read by Equal (directly or through same-receiver methods, depth 2). A hash computed
// from a field that equality ignores (e.g. the unnormalised spelling of a character) gives equal keys different hashes.
func c18HashFields(r *core.Run) {
	const rule = "R4.hashfields"
	w := r.W
	type pair struct{ eq, hash *ssa.Function }
	pairs := map[string]*pair{}
	for _, fn := range w.SrcFuncsIn("interpreter") {
		if fn.Parent() != nil || fn.Signature.Recv() == nil {
			continue
		}
		rn := core.RecvName0(fn)
		if rn == "" {
			continue
		}
		if pairs[rn] == nil {
			pairs[rn] = &pair{}
		}
		switch fn.Name() {
		case "Equal":
			pairs[rn].eq = fn
		case "HashInput":
			pairs[rn].hash = fn
		}
	}
	var fieldsRead func(fn *ssa.Function, depth int, out map[string]bool)
	fieldsRead = func(fn *ssa.Function, depth int, out map[string]bool) {
		if len(fn.Params) == 0 {
			return
		}
		recv := fn.Params[0]
		isRecv := func(v ssa.Value) bool {
			for i := 0; i < 6; i++ {
				switch x := v.(type) {
				case *ssa.Parameter:
					return x == recv
				case *ssa.UnOp:
					v = x.X
				case *ssa.Alloc:
					// spilled value receiver: the cell the parameter is stored into
					if refs := x.Referrers(); refs != nil {
						for _, ref := range *refs {
							if st, ok := ref.(*ssa.Store); ok && st.Addr == ssa.Value(x) && st.Val == ssa.Value(recv) {
								return true
							}
						}
					}
					return false
				case *ssa.FreeVar:
					if b := core.FreeVarBinding(x); b != nil {
						v = b
						continue
					}
					return false
				default:
					return false
				}
			}
			return false
		}
		core.Instrs(fn, true, func(in ssa.Instruction) {
			switch x := in.(type) {
			case *ssa.FieldAddr:
				if isRecv(x.X) {
					if pt, ok := x.X.Type().Underlying().(*types.Pointer); ok {
						if st, ok := pt.Elem().Underlying().(*types.Struct); ok {
							out[st.Field(x.Field).Name()] = true
						}
					}
				}
			case *ssa.Field:
				if isRecv(x.X) {
					if st, ok := x.X.Type().Underlying().(*types.Struct); ok {
						out[st.Field(x.Field).Name()] = true
					}
				}
			case ssa.CallInstruction:
				sc := x.Common().StaticCallee()
				if sc == nil || depth >= 2 || sc.Signature.Recv() == nil || len(x.Common().Args) == 0 || len(sc.Blocks) == 0 {
					return
				}
				if core.RecvName0(sc) == core.RecvName0(fn) && isRecv(x.Common().Args[0]) {
					fieldsRead(sc, depth+1, out)
				}
			}
		})
	}
	n := 0
	var names []string
	for k := range pairs {
		names = append(names, k)
	}
	sort.Strings(names)
	for _, rn := range names {
		p := pairs[rn]
		if p.eq == nil || p.hash == nil {
			continue
		}
		hf, ef := map[string]bool{}, map[string]bool{}
		fieldsRead(p.hash, 0, hf)
		fieldsRead(p.eq, 0, ef)
		if len(hf) == 0 {
			continue
		}
		n++
		var extra []string
		for f := range hf {
			if !ef[f] {
				extra = append(extra, f)
			}
		}
		sort.Strings(extra)
		r.Check(len(extra) == 0, rule, "interpreter.("+rn+"): fields hashed ⊆ fields compared", p.hash.Pos(),
			"HashInput reads "+strings.Join(sortedKeys(hf), ",")+"; Equal reads "+strings.Join(sortedKeys(ef), ","),
			"HashInput reads the receiver field(s) "+strings.Join(extra, ",")+" that Equal does not compare: values that are equal can hash differently, so an equal key misses its dictionary entry")
	}
	r.Check(n >= 5, rule, "value types with Equal and HashInput over receiver fields", 0, itoa(n)+" examined", "fewer value types than reviewed")
	r.Floor(rule, 5)
}
