package rules

import (
	"fmt"
	"os"
	"strings"

	"cadcheck/core"
)

func init() {
	if os.Getenv("CADCHECK_DEV") != "" {
		register("SIBPROBE", sibProbe)
	}
}

// sibProbe is a development aid: prints every sibling group that does not fully unify.
func sibProbe(r *core.Run) {
	w := r.W
	for _, fam := range []*core.Family{famF, famF64} {
		gs := w.SiblingGroups(fam)
		nd := 0
		for _, g := range gs {
			part, diffs, _ := w.Partition(g)
			if !strings.Contains(part, "|") {
				continue
			}
			nd++
			fmt.Printf("SIBPART %s|%s => %s\n", fam.Name, g.Key, part)
			for t, d := range diffs {
				if d != nil {
					fmt.Printf("    %s: %q (%s) vs %q (%s): %s\n", t, d.A.Text, w.Pos(d.A.Pos), d.B.Text, w.Pos(d.B.Pos), d.Why)
				}
			}
		}
		fmt.Printf("FAMILY %s groups=%d partitioned=%d\n", fam.Name, len(gs), nd)
	}
}
