package rules

import (
	"go/ast"
	"go/token"
	"go/types"
	"strings"

	"golang.org/x/tools/go/ssa"

	"cadcheck/core"
)

func init() { register("C26", c26) }

func c26(r *core.Run) {
	r.Explanation = "Decided clauses: (R1) contracts.borrow returns a reference only after the host's GetAccountContractCode was consulted and a zero-length code returned nil, and only when the contract value's type is a subtype of the requested type; " +
		"(R2) updateAccountContractCode: the fallible instantiateContract precedes handler.UpdateAccountContractCode, whose error is tested before RecordContractUpdate (a failing deployment has not changed code); " +
		"changeAccountContracts consults the existing code before anything else, rejects update-of-missing / add-of-existing, and an update runs validator.Validate whose error reaches the error handler before updateAccountContractCode; " +
		"(R3) removeContract: with a parsable program that contains an enum, RemoveAccountContractCode is unreachable; the enum search visits every nested composite (no unconditional return inside its loop); " +
		"(R4) the tryUpdate recover arms equal the reviewed summary (C01.R3 table)."
	r.NotDecided = "the per-account contract model over sequences of operations; program caches."
	w := r.W
	named := func(n string) func(*types.Func) bool {
		return func(o *types.Func) bool { return o != nil && o.Name() == n }
	}

	// R1 borrow
	if fn := mustFn(r, "R1.borrow", "stdlib", "", "AccountContractsBorrow"); fn != nil {
		get := core.CallsTo(fn, false, named("GetAccountContractCode"))
		for _, c := range callsIn(r, "R1.borrow", fn, "NewSomeValueNonCopying", named("NewSomeValueNonCopying")) {
			ok := len(get) == 1 && core.Dominates(get[0], c) && len(core.UncheckedErrorsBefore(c)) == 0
			// a length test of the code controls the result
			lenTest := false
			if ok {
				var code ssa.Value
				if refs := get[0].Value().Referrers(); refs != nil {
					for _, ref := range *refs {
						if ex, isEx := ref.(*ssa.Extract); isEx && ex.Index == 0 {
							code = ex
						}
					}
				}
				for _, a := range core.ControllingConds(c) {
					bo, isB := a.Var.Call.(*ssa.BinOp)
					if !isB {
						continue
					}
					for _, side := range []ssa.Value{bo.X, bo.Y} {
						if isLenOf(side, code) {
							lenTest = true
						}
					}
				}
			}
			r.Check(ok && lenTest, "R1.borrow", "stdlib.AccountContractsBorrow: reference only for an existing contract", posOf(c),
				"GetAccountContractCode precedes, its error is tested and len(code) controls the result",
				"a contract reference is returned without consulting the deployed code (a contract removed earlier in the transaction stays borrowable)")
			r.Check(controlledBy(c, "IsSubTypeOfSemaType", true), "R1.borrow", "stdlib.AccountContractsBorrow: reference only if the contract type is a subtype of T", posOf(c),
				"controlled by IsSubTypeOfSemaType == true", "the borrowed type is not checked against the contract's type")
		}
	}
	r.Floor("R1.borrow", 2)

	// R2 update ordering
	if fn := mustFn(r, "R2.update", "stdlib", "", "updateAccountContractCode"); fn != nil {
		inst := core.CallsTo(fn, false, named("instantiateContract"))
		upd := core.CallsTo(fn, false, named("UpdateAccountContractCode"))
		rec := core.CallsTo(fn, false, named("RecordContractUpdate"))
		if len(inst) != 1 || len(upd) != 1 || len(rec) != 1 {
			r.Undecided("R2.update", "stdlib.updateAccountContractCode", "expected exactly one instantiateContract, UpdateAccountContractCode and RecordContractUpdate call")
		} else {
			r.Check(!core.ReachableAfter(upd[0], inst[0]) && core.ReachableAfter(inst[0], upd[0]), "R2.update", "stdlib.updateAccountContractCode: instantiateContract before UpdateAccountContractCode", posOf(upd[0]),
				"instantiation can only happen before the code is changed", "the contract is instantiated after the code was already updated: a failing initializer leaves the new code deployed")
			un := core.UncheckedErrorsBefore(upd[0])
			// instantiateContract is only executed under createContract; its error must be tested where it was executed
			bad := ""
			for _, u := range un {
				if u == inst[0] {
					// accepted only if the upd call is reachable from inst only via the nil edge
					for _, e := range core.ErrResults(inst[0]) {
						okEdge := false
						for _, t := range core.NilTests(fn) {
							if core.Origin(t.X) == e || t.X == e {
								if core.Terminates(t.NonNilSucc) || !reachesFrom(t.NonNilSucc, upd[0]) {
									okEdge = true
								}
							}
						}
						if !okEdge {
							bad = "the error of instantiateContract is not tested before the code is updated"
						}
					}
				}
			}
			r.Check(bad == "", "R2.update", "stdlib.updateAccountContractCode: instantiation error tested before the update", posOf(upd[0]), "non-nil edge returns", bad)
			r.Check(core.Dominates(upd[0], rec[0]) && len(filterCalls(core.UncheckedErrorsBefore(rec[0]), upd[0])) == 0, "R2.update", "stdlib.updateAccountContractCode: RecordContractUpdate after a successful UpdateAccountContractCode", posOf(rec[0]),
				"the contract value is recorded only after the host accepted the code", "the contract value is recorded although UpdateAccountContractCode may have failed (or before it)")
		}
	}
	if fn := mustFn(r, "R2.update", "stdlib", "", "changeAccountContracts"); fn != nil {
		get := core.CallsTo(fn, false, named("GetAccountContractCode"))
		upd := core.CallsTo(fn, false, named("updateAccountContractCode"))
		val := core.CallsTo(fn, false, named("Validate"))
		ok := len(get) >= 1 && len(upd) == 1
		r.Check(ok && core.Dominates(get[0], upd[0]), "R2.update", "stdlib.changeAccountContracts: existing code consulted before the change", fn.Pos(),
			"GetAccountContractCode dominates updateAccountContractCode", "the deployment no longer consults the existing code first")
		if ok {
			var isUpdate *ssa.Parameter
			for _, p := range fn.Params {
				if p.Name() == "isUpdate" {
					isUpdate = p
				}
			}
			if isUpdate == nil || len(val) != 1 {
				r.Undecided("R2.update", "stdlib.changeAccountContracts: update validation", "isUpdate parameter or Validate call not found")
			} else {
				esc := core.ReachUnder(fn, []core.Assumption{{Var: core.BoolVar{Param: isUpdate}, Val: true}}, nil,
					func(in ssa.Instruction) bool { return in == ssa.Instruction(val[0].(*ssa.Call)) },
					func(in ssa.Instruction) bool { return in == ssa.Instruction(upd[0].(*ssa.Call)) })
				r.Check(esc == nil, "R2.update", "stdlib.changeAccountContracts: update validated before the code change", posOf(val[0]),
					"with isUpdate=true every path to updateAccountContractCode passes validator.Validate", "an update can reach updateAccountContractCode without running the contract update validator")
				// the Validate error is handed to the error handler (closure call) before the update
				fl := core.FollowErr(val[0])
				r.Check(!fl.Dropped && len(fl.Sinks) > 0, "R2.update", "stdlib.changeAccountContracts: validation error handled", posOf(val[0]),
					"error reaches "+strings.Join(uniq(fl.Sinks), ","), "the result of validator.Validate is ignored")
			}
		}
	}
	r.Floor("R2.update", 6)

	// R3 removal
	if fn := mustFn(r, "R3.remove", "stdlib", "", "removeContract"); fn != nil {
		enum := core.CallsTo(fn, false, named("containsEnumsInProgram"))
		rem := core.CallsTo(fn, false, named("RemoveAccountContractCode"))
		parse := core.CallsTo(fn, false, named("ParseProgram"))
		if len(enum) != 1 || len(rem) != 1 || len(parse) != 1 {
			r.Undecided("R3.remove", "stdlib.removeContract", "expected one containsEnumsInProgram, ParseProgram and RemoveAccountContractCode call")
		} else {
			as := []core.Assumption{{Var: core.BoolVar{Call: enum[0].Value()}, Val: true}}
			// parse error nil: the `err == nil` / `err != nil` test on ParseProgram's error
			for _, e := range core.ErrResults(parse[0]) {
				for _, t := range core.NilTests(fn) {
					if t.X == e {
						bo := t.If.Cond.(*ssa.BinOp)
						as = append(as, core.Assumption{Var: core.BoolVar{Call: bo}, Val: bo.Op == token.EQL})
					}
				}
			}
			hit := core.ReachUnder(fn, as, nil, nil, func(in ssa.Instruction) bool { return in == ssa.Instruction(rem[0].(*ssa.Call)) })
			r.Check(hit == nil && len(as) == 2, "R3.remove", "stdlib.removeContract: contracts declaring enums are never removed", posOf(rem[0]),
				"with a parsable program containing an enum the host removal call is unreachable", "RemoveAccountContractCode is reachable although the existing program parses and declares an enum")
		}
	}
	// enum search visits every nested composite
	if fo := w.FuncObj("stdlib", "", "containsEnums"); fo != nil {
		fd, _ := w.Decl(fo)
		bad := token.NoPos
		ast.Inspect(fd.Body, func(n ast.Node) bool {
			var body *ast.BlockStmt
			switch x := n.(type) {
			case *ast.RangeStmt:
				body = x.Body
			case *ast.ForStmt:
				body = x.Body
			}
			if body == nil {
				return true
			}
			for _, st := range body.List {
				if ret, ok := st.(*ast.ReturnStmt); ok {
					bad = ret.Pos()
				}
			}
			return true
		})
		r.Check(!bad.IsValid(), "R3.remove", "stdlib.containsEnums: search visits every nested declaration", fd.Pos(),
			"no unconditional return inside the loop", "the loop over nested declarations returns unconditionally in its first iteration: only the first nested composite is inspected")
	} else {
		r.Undecided("R3.remove", "stdlib.containsEnums", "does not resolve")
	}
	r.Floor("R3.remove", 2)

	// R4 tryUpdate recover
	for _, s := range w.RecoverSites() {
		if core.SSAKey(s.Decl) == "stdlib.nativeAccountContractsTryUpdateFunction" {
			exp := recoverTable["stdlib.nativeAccountContractsTryUpdateFunction"][0]
			r.Check(s.Summary() == exp, "R4.tryupdate", "stdlib.nativeAccountContractsTryUpdateFunction: recover arms", s.Call.Pos(), s.Summary(), "recover arms changed: "+s.Summary()+" (reviewed: "+exp+")")
		}
	}
	r.Floor("R4.tryupdate", 1)

	// R5 a deferred contract value is written into the storage map of its own account: the receiver of every WriteValue in
	// Storage.writeContractUpdate / commitContractUpdates comes from GetDomainStorageMap applied to the update's own address,
	// and a lookup inside the update loop runs on every iteration (a map looked up once is the first account's map)
	for _, name := range []string{"writeContractUpdate", "commitContractUpdates"} {
		fn := w.Fn("runtime", "Storage", name)
		if fn == nil {
			continue
		}
		for _, c := range core.Calls(fn, true) {
			if !c.Common().IsInvoke() && core.Callee(c) != nil && core.Callee(c).Name() == "WriteValue" {
				lv := core.OriginLeavesVia(c.Common().Args[0])
				r.Check(strings.Contains(lv, "via:GetDomainStorageMap") && strings.Contains(lv, ".Address"), "R5.ownaccount", core.SSAKey(fn)+": contract value written to the map of the update's address", posOf(c),
					"the storage map is looked up from the update's own address", "the storage map a deferred contract value is written to is not looked up from that update's address ("+lv+"): with updates in several accounts a contract value lands in another account's contract domain")
			}
		}
		callsDominateBackEdges(r, "R5.ownaccount", fn, func(o *types.Func) bool { return o != nil && o.Name() == "GetDomainStorageMap" }, core.SSAKey(fn)+": storage map lookup",
			"the storage map lookup inside the update loop is skipped on some iterations (cached from the first update)")
	}
	r.Floor("R5.ownaccount", 2)

	// R6 the contract-addition marker is always released: in updateAccountContractCode every return that follows
	// StartContractAddition has passed the deferral of EndContractAddition
	if fn := mustFn(r, "R6.tracker", "stdlib", "", "updateAccountContractCode"); fn != nil {
		var start ssa.Instruction
		for _, c := range core.Calls(fn, false) {
			if c.Common().IsInvoke() && c.Common().Method.Name() == "StartContractAddition" {
				start = c
			}
		}
		isEndDefer := func(in ssa.Instruction) bool {
			d, ok := in.(*ssa.Defer)
			return ok && d.Call.IsInvoke() && d.Call.Method.Name() == "EndContractAddition"
		}
		if start == nil {
			r.Undecided("R6.tracker", core.SSAKey(fn), "StartContractAddition not found")
		} else {
			ok := true
			for _, ret := range core.Returns(fn) {
				if core.ReachableAfter(start, ret) && !core.MustPass(ret, isEndDefer) {
					ok = false
				}
			}
			// panics after the start must be covered as well: the deferral dominates everything after the start
			deferDominates := false
			core.Instrs(fn, false, func(in ssa.Instruction) {
				if isEndDefer(in) && core.Dominates(start, in) {
					// the defer is unconditional relative to the start: its block post-dominates is approximated by
					// every return passing it (checked above)
					deferDominates = true
				}
			})
			r.Check(ok && deferDominates, "R6.tracker", core.SSAKey(fn)+": EndContractAddition deferred on every path after StartContractAddition", start.Pos(), "start and deferred end are paired",
				"the location stays marked as being added on some path (the deferred EndContractAddition became conditional): with a reused environment a later add of the same name is refused")
		}
	}
	r.Floor("R6.tracker", 1)
}

func reachesFrom(b *ssa.BasicBlock, target ssa.Instruction) bool {
	seen := map[*ssa.BasicBlock]bool{}
	var walk func(x *ssa.BasicBlock) bool
	walk = func(x *ssa.BasicBlock) bool {
		if seen[x] {
			return false
		}
		seen[x] = true
		if x == target.Block() {
			return true
		}
		for _, s := range x.Succs {
			if walk(s) {
				return true
			}
		}
		return false
	}
	return walk(b)
}

func filterCalls(cs []ssa.CallInstruction, only ssa.CallInstruction) []ssa.CallInstruction {
	var out []ssa.CallInstruction
	for _, c := range cs {
		if c == only {
			out = append(out, c)
		}
	}
	return out
}
