package rules

import (
	"go/ast"
	"go/types"
	"strings"

	"golang.org/x/tools/go/ssa"

	"cadcheck/core"
)

func init() { register("C32", c32) }

var usageToBigOp = map[string][]string{
	"NewPlusBigIntMemoryUsage": {"Add"}, "NewMinusBigIntMemoryUsage": {"Sub"}, "NewMulBigIntMemoryUsage": {"Mul"},
	"NewDivBigIntMemoryUsage": {"Quo", "Div"}, "NewModBigIntMemoryUsage": {"Rem", "Mod"},
	"NewBitwiseOrBigIntMemoryUsage": {"Or"}, "NewBitwiseXorBigIntMemoryUsage": {"Xor"}, "NewBitwiseAndBigIntMemoryUsage": {"And"},
	"NewBitwiseLeftShiftBigIntMemoryUsage": {"Lsh"}, "NewBitwiseRightShiftBigIntMemoryUsage": {"Rsh"}, "NewNegateBigIntMemoryUsage": {"Neg"},
}

func c32(r *core.Run) {
	r.Explanation = "Decided clauses: (R1) operation ↔ estimate coherence: wherever a function charges one of the per-operation big-integer estimates (common.New{Plus,Minus,Mul,Div,Mod,Bitwise…,Negate}BigIntMemoryUsage), the big.Int operation it performs is the matching one " +
		"(Add, Sub, Mul, Quo/Div, Rem/Mod, Or, Xor, And, Lsh, Rsh, Neg) and the estimate receives the operation's operands in the same order; (R2) in every New…FromBigInt(gauge, usage, constructor) helper the memory is charged before the constructor closure (which allocates) is called; " +
		"(R3) BOUND: every path of every closed-form estimate in common/metering.go is shown, symbolically and for all operand sizes, to be at least the size of the result of the operation it is charged for (|a|, |b| word lengths, val(b) shift amount; max/min/floor eliminated by case analysis, linear forms compared coefficient-wise); unprovable paths are violations unless reviewed."
	r.NotDecided = "intermediate allocations of math/big beyond the result value; the fixed-size 128/256-bit integers (constant-size estimates); the specification of result sizes of math/big is trusted."
	w := r.W
	n := 0
	for _, rel := range []string{"values", "interpreter"} {
		p := w.Pkg(rel)
		info := p.TypesInfo
		for _, fd := range w.FuncDeclsIn(rel) {
			key := core.DeclKey(p, fd)
			type call struct {
				name string
				args []string
				pos  ast.Node
			}
			var usages, bigops []call
			ast.Inspect(fd.Body, func(nd ast.Node) bool {
				c, ok := nd.(*ast.CallExpr)
				if !ok {
					return true
				}
				sel, ok := c.Fun.(*ast.SelectorExpr)
				if !ok {
					return true
				}
				f, ok := info.Uses[sel.Sel].(*types.Func)
				if !ok || f.Pkg() == nil {
					return true
				}
				var args []string
				for _, a := range c.Args {
					args = append(args, types.ExprString(core.StripConv(a, info)))
				}
				if f.Pkg().Path() == mod+"/common" {
					if _, ok := usageToBigOp[f.Name()]; ok {
						usages = append(usages, call{f.Name(), args, c})
					}
				}
				if f.Pkg().Path() == "math/big" && core.RecvName(f) == "Int" {
					bigops = append(bigops, call{f.Name(), args, c})
				}
				return true
			})
			for _, u := range usages {
				n++
				wantOps := usageToBigOp[u.name]
				ckey := key + ": " + u.name
				found, order := false, false
				for _, b := range bigops {
					for _, wo := range wantOps {
						if b.name == wo {
							found = true
							if len(u.args) == 1 && len(b.args) >= 1 && b.args[0] == u.args[0] {
								order = true
							}
							if len(u.args) == 2 && len(b.args) >= 2 && b.args[0] == u.args[0] {
								// second operand: shifts pass uint(count) derived from the second estimate operand
								if b.args[1] == u.args[1] || strings.Contains(b.args[1], strings.TrimSuffix(u.args[1], ".BigInt")) {
									order = true
								}
							}
						}
					}
				}
				switch {
				case !found:
					var have []string
					for _, b := range bigops {
						have = append(have, b.name)
					}
					r.Bad("R1.coherence", ckey, u.pos.Pos(), "charges the estimate for "+strings.Join(wantOps, "/")+" but performs big.Int "+strings.Join(uniq(have), ",")+": the charged bound belongs to a different operation")
				case !order:
					r.Bad("R1.coherence", ckey, u.pos.Pos(), "the estimate's operands ("+strings.Join(u.args, ", ")+") are not the operands of the big.Int operation in the same order")
				default:
					r.OK("R1.coherence", ckey, u.pos.Pos(), "estimate and operation agree on kind and operands ("+strings.Join(u.args, ", ")+")")
				}
			}
		}
	}
	r.Floor("R1.coherence", 20)

	// R2 charge before allocate
	for _, fn := range w.SrcFuncs() {
		if fn.Parent() != nil || fn.Pkg == nil {
			continue
		}
		rel := core.RelPkg(fn.Pkg.Pkg.Path())
		if rel != "values" && rel != "interpreter" {
			continue
		}
		if !strings.Contains(fn.Name(), "FromBigInt") || !strings.HasPrefix(fn.Name(), "New") {
			continue
		}
		var ctor *ssa.Parameter
		for _, p := range fn.Params {
			if sig, ok := p.Type().Underlying().(*types.Signature); ok && sig.Params().Len() == 0 && sig.Results().Len() == 1 {
				ctor = p
			}
		}
		if ctor == nil {
			continue
		}
		var ctorCall ssa.CallInstruction
		for _, c := range core.Calls(fn, false) {
			if c.Common().Value == ssa.Value(ctor) {
				ctorCall = c
			}
		}
		use := core.CallsTo(fn, false, funcOf(mod+"/common", "UseMemory"))
		key := core.SSAKey(fn) + ": UseMemory before the allocating constructor"
		if ctorCall == nil {
			continue
		}
		ok := false
		for _, u := range use {
			if core.Dominates(u, ctorCall) {
				ok = true
			}
		}
		r.Check(ok, "R2.order", key, fn.Pos(), "memory is charged before the big.Int is computed", "the big integer is computed before (or without) charging its memory: an over-limit allocation happens before the limit error")
	}
	r.Floor("R2.order", 8)
	c32Bounds(r)
}
