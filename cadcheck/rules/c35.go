package rules

import (
	"fmt"
	"go/ast"
	"go/token"
	"go/types"
	"strings"

	"golang.org/x/tools/go/ssa"

	"cadcheck/core"
)

func init() { register("C35", c35) }

type operand struct{ codec, field string }

func c35(r *core.Run) {
	r.Explanation = "Decided clauses (finite and completely enumerated): (R1) for every bytecode instruction type, Encode emits its operands with the codec kinds and in the field order that the matching Decode function reads them; " +
		"every emitX/decodeX helper pair moves the same number of bytes and calls its inner helpers in the same order, each decoded operand landing in the field it was emitted from; (R2) Opcode() is injective over instruction types, and DecodeInstruction's arm for an opcode returns the instruction type whose Opcode() is that opcode, for every instruction type; " +
		"(R3) opcode numbers equal the pinned values (bytecode is cached by embedders); (R4) compilation packages contain no order-dependent map iteration and no goroutine start; " +
		"(R5) the LEB128 readers/writers of the 32- and 64-bit siblings agree modulo the width parameters (a literal that is the width of only one sibling is reported)."
	r.NotDecided = "LEB128 numerics beyond sibling agreement; byte equality of compiled programs across processes."
	w := r.W
	p := w.Pkg("bbq/opcode")
	if p == nil {
		r.Undecided("R1.codec", "bbq/opcode", "package not loaded")
		return
	}
	info := p.TypesInfo
	instrIface := w.Named("bbq/opcode", "Instruction")
	if instrIface == nil {
		r.Undecided("R1.codec", "bbq/opcode.Instruction", "interface does not resolve")
		return
	}
	// declared functions by name
	decls := map[string]*ast.FuncDecl{}
	methods := map[string]map[string]*ast.FuncDecl{} // type -> method -> decl
	for _, fd := range w.FuncDeclsIn("bbq/opcode") {
		if fd.Recv == nil {
			decls[fd.Name.Name] = fd
			continue
		}
		_, tn := core.ExprTypeName(fd.Recv.List[0].Type, info)
		if methods[tn] == nil {
			methods[tn] = map[string]*ast.FuncDecl{}
		}
		methods[tn][fd.Name.Name] = fd
	}
	// helper widths
	var width func(name string, depth int) string
	width = func(name string, depth int) string {
		fd := decls[name]
		if fd == nil || depth > 4 {
			return "?"
		}
		n := 0
		loop := false
		var inner []string
		ast.Inspect(fd.Body, func(nd ast.Node) bool {
			switch x := nd.(type) {
			case *ast.ForStmt, *ast.RangeStmt:
				loop = true
			case *ast.CallExpr:
				if id, ok := x.Fun.(*ast.Ident); ok {
					if st, isStar := firstArgStar(x); id.Name == "append" && len(x.Args) >= 2 && isStar && st == "code" {
						n += len(x.Args) - 1
					} else if _, isHelper := decls[id.Name]; isHelper && (strings.HasPrefix(id.Name, "emit") || strings.HasPrefix(id.Name, "decode")) {
						inner = append(inner, width(id.Name, depth+1))
					}
				}
			case *ast.AssignStmt:
				if x.Tok == token.ADD_ASSIGN && len(x.Rhs) == 1 {
					if st, ok := x.Lhs[0].(*ast.StarExpr); ok {
						if id, ok := st.X.(*ast.Ident); ok && id.Name == "ip" {
							if tv, ok := info.Types[x.Rhs[0]]; ok && tv.Value != nil {
								var k int
								fmt.Sscanf(tv.Value.ExactString(), "%d", &k)
								n += k
							} else {
								n += 1000
							}
						}
					}
				}
			}
			return true
		})
		total := n
		anyLoop := loop
		for _, in := range inner {
			if strings.HasPrefix(in, "loop:") {
				anyLoop = true
				in = strings.TrimPrefix(in, "loop:")
			}
			var k int
			if _, err := fmt.Sscanf(in, "%d", &k); err != nil {
				return "?"
			}
			total += k
		}
		if anyLoop {
			return fmt.Sprintf("loop:%d", total)
		}
		return fmt.Sprintf("%d", total)
	}
	// pairs
	pairs := 0
	for name := range decls {
		if !strings.HasPrefix(name, "emit") || name == "emitOpcode" {
			continue
		}
		k := strings.TrimPrefix(name, "emit")
		dn := "decode" + k
		if decls[dn] == nil {
			r.Bad("R1.width", "bbq/opcode."+name, decls[name].Pos(), "emit helper has no decode counterpart "+dn)
			continue
		}
		pairs++
		we, wd := width(name, 0), width(dn, 0)
		r.Check(we == wd && !strings.Contains(we, "?"), "R1.width", "bbq/opcode.emit"+k+"/decode"+k, decls[name].Pos(),
			"both move "+we+" byte(s)", "emit"+k+" writes "+we+" byte(s) but decode"+k+" consumes "+wd)
	}
	r.Floor("R1.width", 8)

	// R1.helperseq: a composite helper pair (emitUpvalue/decodeUpvalue, the array helpers) must call the inner helpers
	// in the same order on both sides, and put each decoded operand into the field the emitter took it from
	helperSeq := func(fd *ast.FuncDecl, prefix string) []operand {
		var seq []operand
		assigned := map[types.Object]int{} // variable holding the result of the i-th helper call
		ast.Inspect(fd.Body, func(nd ast.Node) bool {
			switch x := nd.(type) {
			case *ast.AssignStmt:
				if len(x.Lhs) == 1 && len(x.Rhs) == 1 {
					if c, ok := x.Rhs[0].(*ast.CallExpr); ok {
						if id, ok := c.Fun.(*ast.Ident); ok && strings.HasPrefix(id.Name, prefix) && decls[id.Name] != nil {
							if lid, ok := x.Lhs[0].(*ast.Ident); ok {
								if o := info.ObjectOf(lid); o != nil {
									assigned[o] = len(seq) // the call itself is appended when visited below
								}
							}
						}
					}
				}
			case *ast.CallExpr:
				id, ok := x.Fun.(*ast.Ident)
				if !ok || !strings.HasPrefix(id.Name, prefix) || decls[id.Name] == nil || id.Name == fd.Name.Name {
					return true
				}
				f := ""
				if prefix == "emit" && len(x.Args) == 2 {
					if sel, ok := core.StripConv(x.Args[1], info).(*ast.SelectorExpr); ok {
						f = sel.Sel.Name
					}
				}
				seq = append(seq, operand{strings.TrimPrefix(id.Name, prefix), f})
			case *ast.KeyValueExpr:
				k, ok := x.Key.(*ast.Ident)
				if !ok || prefix != "decode" {
					return true
				}
				switch v := core.StripConv(x.Value, info).(type) {
				case *ast.Ident:
					if o := info.ObjectOf(v); o != nil {
						if i, ok := assigned[o]; ok && i < len(seq) {
							seq[i].field = k.Name
						}
					}
				}
			}
			return true
		})
		return seq
	}
	for name := range decls {
		if !strings.HasPrefix(name, "emit") || name == "emitOpcode" {
			continue
		}
		k := strings.TrimPrefix(name, "emit")
		dn := "decode" + k
		if decls[dn] == nil {
			continue
		}
		es, ds := helperSeq(decls[name], "emit"), helperSeq(decls[dn], "decode")
		if len(es) == 0 || len(ds) == 0 {
			// a leaf helper on at least one side (emitBool writes the byte itself): the byte widths are compared by R1.width
			continue
		}
		bad := ""
		if len(es) != len(ds) {
			bad = fmt.Sprintf("emit%s calls %v but decode%s calls %v", k, es, k, ds)
		} else {
			for i := range es {
				if es[i].codec != ds[i].codec {
					bad = fmt.Sprintf("step %d: emit%s writes %s but decode%s reads %s", i, k, es[i].codec, k, ds[i].codec)
					break
				}
				if es[i].field != "" && ds[i].field != "" && es[i].field != ds[i].field {
					bad = fmt.Sprintf("step %d: emit%s writes field %s but decode%s stores the operand into field %s", i, k, es[i].field, k, ds[i].field)
					break
				}
			}
		}
		r.Check(bad == "", "R1.helperseq", "bbq/opcode.emit"+k+"/decode"+k, decls[name].Pos(), fmt.Sprintf("inner helpers %v in the same order on both sides", es), bad)
	}
	r.Floor("R1.helperseq", 3)

	// instruction types
	var itypes []string
	sc := p.Types.Scope()
	for _, n := range sc.Names() {
		tn, ok := sc.Lookup(n).(*types.TypeName)
		if !ok || !strings.HasPrefix(n, "Instruction") || n == "Instruction" {
			continue
		}
		if _, isStruct := tn.Type().Underlying().(*types.Struct); !isStruct {
			continue
		}
		if types.Implements(tn.Type(), instrIface.Underlying().(*types.Interface)) {
			itypes = append(itypes, n)
		}
	}
	// Opcode() -> constant
	opOf := map[string]string{}
	byOp := map[string]string{}
	for _, it := range itypes {
		fd := methods[it]["Opcode"]
		if fd == nil {
			r.Undecided("R2.opcode", "bbq/opcode.("+it+").Opcode", "no Opcode method")
			continue
		}
		op := ""
		ast.Inspect(fd.Body, func(n ast.Node) bool {
			if ret, ok := n.(*ast.ReturnStmt); ok && len(ret.Results) == 1 {
				if id, ok := ret.Results[0].(*ast.Ident); ok {
					if c, ok := info.Uses[id].(*types.Const); ok {
						op = c.Name()
					}
				}
			}
			return true
		})
		if op == "" {
			r.Undecided("R2.opcode", "bbq/opcode.("+it+").Opcode", "does not return an opcode constant")
			continue
		}
		opOf[it] = op
		if other, dup := byOp[op]; dup {
			r.Bad("R2.opcode", "bbq/opcode.("+it+").Opcode", fd.Pos(), "opcode "+op+" is also returned by "+other)
		} else {
			byOp[op] = it
			r.OK("R2.opcode", "bbq/opcode.("+it+").Opcode", fd.Pos(), "unique opcode "+op)
		}
	}
	// DecodeInstruction arms
	armType := map[string]string{}   // opcode -> instruction type returned
	armDecode := map[string]string{} // opcode -> decode function
	if di := decls["DecodeInstruction"]; di != nil {
		ast.Inspect(di.Body, func(n ast.Node) bool {
			cc, ok := n.(*ast.CaseClause)
			if !ok || len(cc.List) != 1 || len(cc.Body) == 0 {
				return true
			}
			id, ok := cc.List[0].(*ast.Ident)
			if !ok {
				return true
			}
			ret, ok := cc.Body[len(cc.Body)-1].(*ast.ReturnStmt)
			if !ok || len(ret.Results) != 1 {
				return true
			}
			_, tn := core.ExprTypeName(ret.Results[0], info)
			armType[id.Name] = tn
			if call, ok := ret.Results[0].(*ast.CallExpr); ok {
				if fid, ok := call.Fun.(*ast.Ident); ok {
					armDecode[id.Name] = fid.Name
				}
			}
			return true
		})
	} else {
		r.Undecided("R2.decodearm", "bbq/opcode.DecodeInstruction", "does not resolve")
	}
	for _, it := range itypes {
		op := opOf[it]
		if op == "" {
			continue
		}
		got, ok := armType[op]
		key := "bbq/opcode.DecodeInstruction[case " + op + "]"
		switch {
		case !ok:
			r.Bad("R2.decodearm", key, 0, "no decode arm for opcode "+op+" of "+it)
		case got != it:
			r.Bad("R2.decodearm", key, decls["DecodeInstruction"].Pos(), "arm returns "+got+" but the opcode belongs to "+it)
		default:
			r.OK("R2.decodearm", key, decls["DecodeInstruction"].Pos(), "returns "+it)
		}
		// R1 operand sequences
		enc := methods[it]["Encode"]
		if enc == nil {
			r.Undecided("R1.codec", "bbq/opcode.("+it+").Encode", "no Encode method")
			continue
		}
		var eseq []operand
		sawOpcode := false
		ast.Inspect(enc.Body, func(n ast.Node) bool {
			call, ok := n.(*ast.CallExpr)
			if !ok {
				return true
			}
			id, ok := call.Fun.(*ast.Ident)
			if !ok || !strings.HasPrefix(id.Name, "emit") {
				return true
			}
			if id.Name == "emitOpcode" {
				sawOpcode = true
				return true
			}
			f := "?"
			if len(call.Args) == 2 {
				if sel, ok := core.StripConv(call.Args[1], info).(*ast.SelectorExpr); ok {
					f = sel.Sel.Name
				}
			}
			eseq = append(eseq, operand{strings.TrimPrefix(id.Name, "emit"), f})
			return true
		})
		var dseq []operand
		if dn := armDecode[op]; dn != "" && decls[dn] != nil {
			ast.Inspect(decls[dn].Body, func(n ast.Node) bool {
				as, ok := n.(*ast.AssignStmt)
				if !ok || len(as.Lhs) != 1 || len(as.Rhs) != 1 {
					return true
				}
				sel, ok := as.Lhs[0].(*ast.SelectorExpr)
				if !ok {
					return true
				}
				call, ok := core.StripConv(as.Rhs[0], info).(*ast.CallExpr)
				if !ok {
					return true
				}
				id, ok := call.Fun.(*ast.Ident)
				if !ok || !strings.HasPrefix(id.Name, "decode") {
					return true
				}
				dseq = append(dseq, operand{strings.TrimPrefix(id.Name, "decode"), sel.Sel.Name})
				return true
			})
		}
		// every struct field is an operand
		st := sc.Lookup(it).Type().Underlying().(*types.Struct)
		ckey := "bbq/opcode." + it + ": Encode/Decode operands"
		bad := ""
		if !sawOpcode {
			bad = "Encode does not emit the opcode"
		}
		if len(eseq) != len(dseq) {
			bad = fmt.Sprintf("Encode emits %d operands %v, Decode reads %d %v", len(eseq), eseq, len(dseq), dseq)
		} else {
			for i := range eseq {
				if eseq[i] != dseq[i] {
					bad = fmt.Sprintf("operand %d: Encode emits %v, Decode reads %v", i+1, eseq[i], dseq[i])
					break
				}
			}
		}
		if bad == "" && len(eseq) != st.NumFields() {
			bad = fmt.Sprintf("struct has %d fields but %d operands are encoded", st.NumFields(), len(eseq))
		}
		r.Check(bad == "", "R1.codec", ckey, enc.Pos(), fmt.Sprintf("%d operand(s) %v symmetric", len(eseq), eseq), bad)
	}
	r.Floor("R1.codec", 80)
	r.Floor("R2.opcode", 80)
	r.Floor("R2.decodearm", 80)

	// R3 pinned opcode numbers
	pinRule(r, "R3.pinned", "c35_pinned", []pinGroup{{Rel: "bbq/opcode", TypeName: "Opcode", Why: "bytecode opcode numbers (compiled programs are cached by embedders)"}})
	r.Floor("R3.pinned", 80)

	// R4 compile determinism
	mapRangeRule(r, "R4.maprange", []string{"bbq/compiler", "bbq/commons", "bbq", "bbq/constant", "bbq/opcode"})
	for _, rel := range []string{"bbq/compiler", "bbq/commons", "bbq", "bbq/opcode"} {
		n := 0
		for _, fn := range w.SrcFuncsIn(rel) {
			if fn.Parent() != nil {
				continue
			}
			core.Instrs(fn, true, func(in ssa.Instruction) {
				if _, ok := in.(*ssa.Go); ok {
					n++
					r.Bad("R4.nogo", core.SSAKey(fn)+": go statement", in.Pos(), "goroutine start in a compilation package")
				}
			})
		}
		if n == 0 {
			r.OK("R4.nogo", rel, 0, "no goroutine start")
		}
	}
	r.Floor("R4.maprange", 3)

	// R5 LEB128 siblings
	siblingRule(r, "R5.leb128", []*core.Family{famS, famU}, func(g string) bool { return strings.HasPrefix(g, "bbq/leb128.") })
	r.Floor("R5.leb128", 2)
}

func firstArgStar(c *ast.CallExpr) (string, bool) {
	if len(c.Args) == 0 {
		return "", false
	}
	if st, ok := c.Args[0].(*ast.StarExpr); ok {
		if id, ok := st.X.(*ast.Ident); ok {
			return id.Name, true
		}
	}
	return "", false
}
