package rules

import (
	"go/types"
	"sort"
	"strings"

	"golang.org/x/tools/go/ssa"

	"cadcheck/core"
)

func init() { register("C36", c36) }

// fieldsReset returns the names of the receiver's struct fields that fn assigns, or resets by calling a
// Clear/Reset/clear method or builtin on them.
func fieldsReset(fn *ssa.Function, structName string) map[string]bool {
	out := map[string]bool{}
	if fn == nil {
		return out
	}
	isRecvField := func(fa *ssa.FieldAddr) (string, bool) {
		pt, ok := fa.X.Type().Underlying().(*types.Pointer)
		if !ok {
			return "", false
		}
		if _, n := core.TypeName(pt.Elem()); n != structName {
			return "", false
		}
		s, ok := pt.Elem().Underlying().(*types.Struct)
		if !ok {
			return "", false
		}
		return s.Field(fa.Field).Name(), true
	}
	core.Instrs(fn, true, func(in ssa.Instruction) {
		switch x := in.(type) {
		case *ssa.Store:
			if fa, ok := x.Addr.(*ssa.FieldAddr); ok {
				if n, ok := isRecvField(fa); ok {
					out[n] = true
				}
			}
		case ssa.CallInstruction:
			name := ""
			if o := core.Callee(x); o != nil {
				name = o.Name()
			} else if b, ok := x.Common().Value.(*ssa.Builtin); ok {
				name = b.Name()
			}
			if name != "Clear" && name != "Reset" && name != "clear" {
				return
			}
			// receiver / first argument is a load of a receiver field
			var cands []ssa.Value
			if x.Common().IsInvoke() {
				cands = append(cands, x.Common().Value)
			}
			cands = append(cands, x.Common().Args...)
			for _, v := range cands {
				if ld, ok := core.Unwrap(v).(*ssa.UnOp); ok {
					if fa, ok := ld.X.(*ssa.FieldAddr); ok {
						if n, ok := isRecvField(fa); ok {
							out[n] = true
						}
					}
				}
			}
		}
	})
	return out
}

func structFields(w *core.World, rel, name string) []string {
	nt := w.Named(rel, name)
	if nt == nil {
		return nil
	}
	s, ok := nt.Underlying().(*types.Struct)
	if !ok {
		return nil
	}
	var out []string
	for i := 0; i < s.NumFields(); i++ {
		out = append(out, s.Field(i).Name())
	}
	return out
}

func c36(r *core.Run) {
	r.Explanation = "Decided clauses: (R1) pool reset completeness: for every sync.Pool of the shipped packages, the fields assigned or cleared on the object between Get and first use cover every field of the pooled struct " +
		"(lexer: clear+Lex; sema.VariableActivation: Clear+SetParent; sema.Resources: clear), so no state of an earlier user — possibly another goroutine — survives; the acquiring function calls the reset on every path; " +
		"(R2) release discipline: map/buffer pools clear before Put, and the CCF scratch buffer is released only by a deferred call (its contents are still referenced until the encoder returns); " +
		"(R3) package-level maps and slices of the shipped packages are written only during package initialisation, apart from the reviewed lock- or once-guarded registries; " +
		"(R4) an object published through a sync.Map or an atomic pointer/value is not handed to any further call after the publishing call (published complete)."
	r.NotDecided = "data-race freedom and result equality under arbitrary schedules (needs the race detector / schedule exploration); shared mutable state reachable through pointers in sema/ast types."
	w := r.W
	type poolSpec struct {
		rel, typ string
		resetFns [][3]string // functions whose assignments together must cover the struct
		acquire  [3]string   // function that Gets and must call the first reset function
	}
	specs := []poolSpec{
		{"parser/lexer", "lexer", [][3]string{{"parser/lexer", "lexer", "clear"}, {"parser/lexer", "", "Lex"}}, [3]string{"parser/lexer", "", "Lex"}},
		{"sema", "VariableActivation", [][3]string{{"sema", "VariableActivation", "Clear"}, {"sema", "VariableActivation", "SetParent"}}, [3]string{"sema", "", "getVariableActivation"}},
		{"sema", "Resources", [][3]string{{"sema", "Resources", "clear"}}, [3]string{"sema", "", "NewResources"}},
	}
	for _, sp := range specs {
		fields := structFields(w, sp.rel, sp.typ)
		if len(fields) == 0 {
			r.Undecided("R1.reset", sp.rel+"."+sp.typ, "pooled struct does not resolve")
			continue
		}
		covered := map[string]bool{}
		for _, f := range sp.resetFns {
			fn := mustFn(r, "R1.reset", f[0], f[1], f[2])
			for k := range fieldsReset(fn, sp.typ) {
				covered[k] = true
			}
		}
		var missing []string
		for _, f := range fields {
			if !covered[f] {
				missing = append(missing, f)
			}
		}
		sort.Strings(missing)
		r.Check(len(missing) == 0, "R1.reset", sp.rel+"."+sp.typ+": every field reset after Get", 0, "all "+itoa(len(fields))+" fields are assigned or cleared",
			"field(s) "+strings.Join(missing, ", ")+" keep the value left by the previous user of the pooled object")
		// acquire calls the first reset function on every path before returning/using
		acq := mustFn(r, "R1.reset", sp.acquire[0], sp.acquire[1], sp.acquire[2])
		if acq != nil {
			resetName := sp.resetFns[0][2]
			calls := core.CallsTo(acq, false, func(o *types.Func) bool { return o != nil && o.Name() == resetName && core.RecvName(o) == sp.typ })
			get := core.CallsTo(acq, false, func(o *types.Func) bool {
				return o != nil && o.Name() == "Get" && o.Pkg() != nil && o.Pkg().Path() == "sync"
			})
			ok := len(calls) >= 1 && len(get) == 1 && core.Dominates(get[0], calls[0])
			if ok {
				for _, ret := range core.Returns(acq) {
					if !core.MustPass(ret, func(in ssa.Instruction) bool { return in == calls[0].(ssa.Instruction) }) {
						ok = false
					}
				}
			}
			r.Check(ok, "R1.reset", core.SSAKey(acq)+": reset after Get on every path", acq.Pos(), "pool.Get is followed by "+resetName+" before the object is handed out",
				"the pooled object can be handed out without being reset")
		}
	}
	r.Floor("R1.reset", 6)

	poolReleaseDiscipline(r, "R2.release")
	r.Floor("R2.release", 3)

	// R3 package-level maps/slices written outside init
	reviewed := map[string]string{}
	var tbl map[string]string
	if r.Table("c36_global_writers", &tbl) {
		reviewed = tbl
	}
	got := map[string]string{}
	for _, fn := range w.SrcFuncs() {
		if fn.Pkg == nil || !w.InScope(fn.Pkg.Pkg.Path()) {
			continue
		}
		if fn.Name() == "init" || strings.HasPrefix(fn.Name(), "init#") || strings.HasPrefix(fn.Name(), "init$") {
			continue
		}
		root := fn
		for root.Parent() != nil {
			root = root.Parent()
		}
		if root.Name() == "init" || strings.HasPrefix(root.Name(), "init#") {
			continue
		}
		core.Instrs(fn, false, func(in ssa.Instruction) {
			var g *ssa.Global
			switch x := in.(type) {
			case *ssa.MapUpdate:
				if ld, ok := x.Map.(*ssa.UnOp); ok {
					g, _ = ld.X.(*ssa.Global)
				}
			case *ssa.Store:
				if gg, ok := x.Addr.(*ssa.Global); ok {
					switch gg.Type().(*types.Pointer).Elem().Underlying().(type) {
					case *types.Map, *types.Slice:
						g = gg
					}
				}
			}
			if g == nil || g.Pkg == nil || !core.InMod(g.Pkg.Pkg.Path()) {
				return
			}
			key := core.SSAKey(root) + " writes " + core.RelPkg(g.Pkg.Pkg.Path()) + "." + g.Name()
			got[key] = w.Pos(in.Pos())
		})
	}
	if genMode() {
		out := map[string]string{}
		for k := range got {
			out[k] = "REVIEW"
		}
		genJSON(r, "c36_global_writers", out)
	}
	for _, k := range sortedKeys(got) {
		if why, ok := reviewed[k]; ok {
			// the writer must only be reachable from package initialisation
			writer := strings.SplitN(k, " writes ", 2)[0]
			bad := ""
			for _, fn := range w.SrcFuncs() {
				if core.SSAKey(fn) != writer || fn.Parent() != nil {
					continue
				}
				if o, _ := fn.Object().(*types.Func); o != nil {
					seen := map[string]bool{}
					var up func(o *types.Func, depth int)
					up = func(o *types.Func, depth int) {
						if depth > 4 || bad != "" {
							return
						}
						for _, s := range w.SitesCalling(o) {
							ck := core.SSAKey(s.Caller)
							if seen[ck] {
								continue
							}
							seen[ck] = true
							if s.Caller.Name() == "init" || strings.HasPrefix(s.Caller.Name(), "init#") {
								continue
							}
							co, _ := s.Caller.Object().(*types.Func)
							if co == nil {
								continue
							}
							if len(w.SitesCalling(co)) == 0 {
								bad = ck
								return
							}
							up(co, depth+1)
						}
					}
					up(o, 0)
				}
			}
			if bad != "" {
				r.Bad("R3.globals", k, 0, "the table-filling helper is reachable from "+bad+", which is not package initialisation: the shared table can be written while other goroutines read it")
			} else {
				r.OK("R3.globals", k, 0, "reviewed: "+why)
			}
		} else {
			r.Bad("R3.globals", k, 0, "a package-level map/slice is written after initialisation at "+got[k]+" without being in the reviewed list: concurrent checkers/interpreters in one process share it")
		}
	}
	r.Floor("R3.globals", 1)
	c36PublishAfterPopulate(r)
}

// poolReleaseDiscipline: pool objects are cleared before Put and the CCF scratch buffer is released only by defer.
func poolReleaseDiscipline(r *core.Run, rule string) {
	w := r.W
	// R2 release discipline
	isPut := func(o *types.Func) bool {
		return o != nil && o.Name() == "Put" && o.Pkg() != nil && o.Pkg().Path() == "sync"
	}
	for _, f := range [][3]string{{"bbq/vm", "", "releaseReferenceSet"}, {"encoding/ccf", "", "putBuffer"}} {
		fn := mustFn(r, rule, f[0], f[1], f[2])
		if fn == nil {
			continue
		}
		puts := core.CallsTo(fn, false, isPut)
		ok := len(puts) == 1
		if ok {
			cleared := false
			for _, c := range core.Calls(fn, false) {
				name := ""
				if o := core.Callee(c); o != nil {
					name = o.Name()
				} else if b, isB := c.Common().Value.(*ssa.Builtin); isB {
					name = b.Name()
				}
				if (name == "clear" || name == "Reset" || name == "Clear") && core.Dominates(c, puts[0]) {
					cleared = true
				}
			}
			ok = cleared
		}
		r.Check(ok, rule, core.SSAKey(fn)+": cleared before Put", fn.Pos(), "contents are cleared before the object returns to the pool", "the object is returned to the pool with its contents")
	}
	// every release of a pooled object happens by defer (after the last use in the releasing function), except at the
	// reviewed sites where the object is unlinked immediately afterwards
	isRelease := func(o *types.Func) bool {
		if o == nil || o.Pkg() == nil || !core.InMod(o.Pkg().Path()) {
			return false
		}
		switch o.Name() {
		case "Reclaim":
			return core.RecvName(o) != ""
		case "putBuffer", "releaseReferenceSet":
			return true
		}
		return false
	}
	reviewedDirect := map[string]string{
		"sema.(Checker).Check":                                 "the checker's own resource set is released at the end of checking and the field is set to nil in the next statement",
		"bbq/vm.(Context).ClearReferencedResourceKindedValues": "the set is removed from the tracking map in the next statement",
	}
	n := 0
	for _, fn := range w.SrcFuncs() {
		if fn.Parent() != nil {
			continue
		}
		k := core.SSAKey(fn)
		if k == "encoding/ccf.putBuffer" || k == "bbq/vm.releaseReferenceSet" {
			continue
		}
		for _, c := range core.CallsTo(fn, true, isRelease) {
			if c.Common().IsInvoke() {
				// release through the TokenStream interface: also a pool release (lexer)
			}
			n++
			_, isDefer := c.(*ssa.Defer)
			key := k + ": " + calleeName(c) + " deferred"
			switch {
			case isDefer:
				r.OK(rule, key, posOf(c), "the pooled object is released when the function returns")
			case reviewedDirect[k] != "":
				r.OK(rule, key, posOf(c), "reviewed direct release: "+reviewedDirect[k])
			default:
				r.Bad(rule, key, posOf(c), "the pooled object is released by a direct call while the function (or data derived from the object) may still use it: a concurrent user of the pool can take and overwrite it")
			}
		}
	}
	if n == 0 {
		r.Undecided(rule, "pool release call sites", "no caller found")
	}
}

// c36PublishAfterPopulate: R4 — a lazily computed value that other goroutines may read (stored into a sync.Map or an
// atomic.Pointer / atomic.Value) must be complete when it is published: after the publishing call (Store,
// CompareAndSwap, LoadOrStore, Swap) the function must not hand the published object to any further call (a method
// that fills it, a helper that receives it). A concurrent reader that loads the object in between sees a partial value.
func c36PublishAfterPopulate(r *core.Run) {
	const rule = "R4.publish"
	w := r.W
	publishing := map[string]bool{"Store": true, "CompareAndSwap": true, "LoadOrStore": true, "Swap": true}
	n := 0
	for _, fn := range w.SrcFuncs() {
		if fn.Pkg == nil || !w.InScope(fn.Pkg.Pkg.Path()) || fn.Parent() != nil {
			continue
		}
		for _, g := range core.WithAnon(fn) {
			for _, c := range core.Calls(g, false) {
				sc := core.Callee(c)
				if sc == nil || sc.Pkg() == nil || !publishing[sc.Name()] {
					continue
				}
				if pp := sc.Pkg().Path(); pp != "sync" && pp != "sync/atomic" {
					continue
				}
				args := c.Common().Args
				if len(args) < 2 {
					continue
				}
				// the published value: last argument (Store(v) / Store(k, v) / CompareAndSwap(old, new) / LoadOrStore(k, v))
				pub := core.Unwrap(args[len(args)-1])
				if _, isConst := pub.(*ssa.Const); isConst {
					continue
				}
				if _, isPtr := pub.Type().Underlying().(*types.Pointer); !isPtr {
					if _, isMap := pub.Type().Underlying().(*types.Map); !isMap {
						continue // values copied at publication cannot be completed afterwards
					}
				}
				n++
				var late ssa.Instruction
				if refs := pub.Referrers(); refs != nil {
					for _, ref := range *refs {
						user := ref
						if mi, ok := ref.(*ssa.MakeInterface); ok && mi.Referrers() != nil {
							for _, r2 := range *mi.Referrers() {
								if c2, ok := r2.(ssa.CallInstruction); ok && c2 != c && core.ReachableAfter(c, c2) {
									late = c2
								}
							}
							continue
						}
						c2, ok := user.(ssa.CallInstruction)
						if !ok || c2 == c || !core.ReachableAfter(c, c2) {
							continue
						}
						if sc2 := core.Callee(c2); sc2 != nil && sc2.Pkg() != nil && (sc2.Pkg().Path() == "sync" || sc2.Pkg().Path() == "sync/atomic") {
							continue
						}
						late = c2
					}
				}
				if al, ok := pub.(*ssa.Alloc); ok && al.Referrers() != nil {
					// the address of a local (e.g. &members): any later access of the local is an access of the published object
					for _, ref := range *al.Referrers() {
						if ref == ssa.Instruction(c.(ssa.Instruction)) {
							continue
						}
						switch ref.(type) {
						case *ssa.Store, *ssa.UnOp, *ssa.FieldAddr, *ssa.IndexAddr:
							if core.ReachableAfter(c, ref) {
								// a load that only feeds the function's return is the handing-out of the finished object
								if ld, isLoad := ref.(*ssa.UnOp); isLoad && onlyReturned(ld) {
									continue
								}
								late = ref
							}
						}
					}
				}
				key := core.SSAKey(fn) + ": " + sc.Pkg().Name() + "." + core.RecvName(sc) + "." + sc.Name() + "(" + types.TypeString(pub.Type(), shortQual) + ")"
				pos := c.Pos()
				if late != nil {
					pos = late.Pos()
				}
				r.Check(late == nil, rule, key, pos, "the published object is not touched after publication",
					"an object is published to other goroutines (sync.Map / atomic) and handed to a further call afterwards: a concurrent reader can observe it partially filled")
			}
		}
	}
	r.Check(n >= 20, rule, "publications of lazily computed objects", 0, itoa(n)+" examined", "fewer publications than reviewed")
	r.Floor(rule, 20)
}

// onlyReturned reports whether every use of v is a return (possibly through an interface conversion).
func onlyReturned(v ssa.Value) bool {
	refs := v.Referrers()
	if refs == nil {
		return true
	}
	for _, ref := range *refs {
		switch x := ref.(type) {
		case *ssa.Return:
		case *ssa.MakeInterface:
			if !onlyReturned(x) {
				return false
			}
		case *ssa.DebugRef:
		default:
			return false
		}
	}
	return true
}
