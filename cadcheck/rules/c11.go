package rules

import (
	"go/token"
	"strings"

	"golang.org/x/tools/go/ssa"

	"cadcheck/core"
)

func init() {
	register("C11", c11)
	register("C12", c12)
}

var (
	signedNative   = []string{"Int8", "Int16", "Int32", "Int64"}
	signedBig      = []string{"Int128", "Int256"}
	unsignedNative = []string{"UInt8", "UInt16", "UInt32", "UInt64"}
	unsignedBig    = []string{"UInt128", "UInt256"}
	wordNative     = []string{"Word8", "Word16", "Word32", "Word64"}
	wordBig        = []string{"Word128", "Word256"}
)

func isMethodOf(key string, tags []string, methods ...string) bool {
	for _, t := range tags {
		for _, m := range methods {
			if key == "interpreter.("+t+"Value)."+m {
				return true
			}
		}
	}
	return false
}

func isGroupOf(gkey string, methods ...string) bool {
	for _, m := range methods {
		if gkey == "interpreter.(§0Value)."+m {
			return true
		}
	}
	return false
}

var arithMethods = []string{"Plus", "Minus", "Mul", "Div", "Mod", "Negate"}

func c11(r *core.Run) {
	r.Explanation = "Decided clauses for Int8..Int256, UInt8..UInt256, Int, UInt: (R1) the set of arithmetic error kinds each of Plus/Minus/Mul/Div/Mod/Negate can raise " +
		"(through its closures, static callees and the errors returned by values.* helpers) equals the set the property states (e.g. signed Div {DivisionByZero, Overflow}, unsigned Minus {Underflow}, Int Div {DivisionByZero}); " +
		"(R2) every integer division/remainder with a non-constant divisor is dominated by a zero test raising DivisionByZeroError; " +
		"(R3) sibling widths of one family have token-identical implementations modulo the family parameters (type name, native type, width, bounds), or fall into the reviewed classes; " +
		"(R4) inside a type's arithmetic methods every width-specific bound (math.Max*/Min*, sema.*TypeMin/MaxInt*) is the type's own."
	r.NotDecided = "that the INT32-C overflow predicates are arithmetically exact: a uniform error in all widths of a family is not visible to sibling comparison; result values (truncation toward zero, sign of remainder)."
	// R1 signatures
	for _, t := range append(append([]string{}, signedNative...), signedBig...) {
		signatureRule(r, "R1.signature", t+"Value", "Plus", kindSet("Overflow", "Underflow"))
		signatureRule(r, "R1.signature", t+"Value", "Minus", kindSet("Overflow", "Underflow"))
		signatureRule(r, "R1.signature", t+"Value", "Mul", kindSet("Overflow", "Underflow"))
		signatureRule(r, "R1.signature", t+"Value", "Div", kindSet("DivisionByZero", "Overflow"))
		signatureRule(r, "R1.signature", t+"Value", "Mod", kindSet("DivisionByZero"))
		signatureRule(r, "R1.signature", t+"Value", "Negate", kindSet("Overflow"))
	}
	for _, t := range append(append([]string{}, unsignedNative...), unsignedBig...) {
		signatureRule(r, "R1.signature", t+"Value", "Plus", kindSet("Overflow"))
		signatureRule(r, "R1.signature", t+"Value", "Minus", kindSet("Underflow"))
		signatureRule(r, "R1.signature", t+"Value", "Mul", kindSet("Overflow"))
		signatureRule(r, "R1.signature", t+"Value", "Div", kindSet("DivisionByZero"))
		signatureRule(r, "R1.signature", t+"Value", "Mod", kindSet("DivisionByZero"))
	}
	signatureRule(r, "R1.signature", "IntValue", "Plus", "")
	signatureRule(r, "R1.signature", "IntValue", "Minus", "")
	signatureRule(r, "R1.signature", "IntValue", "Mul", "")
	signatureRule(r, "R1.signature", "IntValue", "Div", kindSet("DivisionByZero"))
	signatureRule(r, "R1.signature", "IntValue", "Mod", kindSet("DivisionByZero"))
	signatureRule(r, "R1.signature", "IntValue", "Negate", "")
	signatureRule(r, "R1.signature", "UIntValue", "Plus", "")
	signatureRule(r, "R1.signature", "UIntValue", "Minus", kindSet("Underflow"))
	signatureRule(r, "R1.signature", "UIntValue", "Mul", "")
	signatureRule(r, "R1.signature", "UIntValue", "Div", kindSet("DivisionByZero"))
	signatureRule(r, "R1.signature", "UIntValue", "Mod", kindSet("DivisionByZero"))
	r.Floor("R1.signature", 77)

	checked := append(append(append(append([]string{}, signedNative...), signedBig...), unsignedNative...), unsignedBig...)
	checked = append(checked, "Int", "UInt")
	pick := func(key string) bool {
		return isMethodOf(key, checked, "Plus", "Minus", "Mul", "Div", "Mod", "Negate") ||
			strings.HasPrefix(key, "values.(IntValue).") || strings.HasPrefix(key, "values.(UIntValue).") || strings.HasPrefix(key, "values.Safe") ||
			key == "interpreter.safeAddInt64" || key == "interpreter.safeMulInt64" || key == "interpreter.safeSubInt64"
	}
	zeroDivisorRule(r, "R2.zerodiv", []string{"interpreter", "values"}, pick)
	r.Floor("R2.zerodiv", 28)

	siblingRule(r, "R3.siblings", []*core.Family{famS, famSB, famU, famUB}, func(g string) bool { return isGroupOf(g, arithMethods...) })
	r.Floor("R3.siblings", 22)

	ownConstRule(r, "R4.ownconst", []*core.Family{famS, famSB, famU, famUB}, []string{"interpreter"}, func(key string) bool {
		return isMethodOf(key, checked, arithMethods...)
	})
	r.Floor("R4.ownconst", 40)

	// R6 unbounded integers are computed on big.Int: the arithmetic methods of Int and UInt perform no native Go arithmetic on
	// words extracted with (*big.Int).Int64/Uint64 — a "machine word fast path" wraps at the word boundary
	// (MinInt64 / -1, or a multi-word operand read through Uint64()) although the type is unbounded
	{
		arith := map[string]bool{"Plus": true, "Minus": true, "Mul": true, "Div": true, "Mod": true, "Negate": true, "SaturatingPlus": true, "SaturatingMinus": true, "SaturatingMul": true, "SaturatingDiv": true}
		n := 0
		w := r.W
		for _, rel := range []string{"values", "interpreter"} {
			for _, fn := range w.SrcFuncsIn(rel) {
				if fn.Parent() != nil || fn.Signature.Recv() == nil || !arith[fn.Name()] {
					continue
				}
				if _, recv := core.TypeName(fn.Signature.Recv().Type()); recv != "IntValue" && recv != "UIntValue" {
					continue
				}
				n++
				var bad []string
				core.Instrs(fn, true, func(in ssa.Instruction) {
					bo, ok := in.(*ssa.BinOp)
					if !ok {
						return
					}
					switch bo.Op {
					case token.ADD, token.SUB, token.MUL, token.QUO, token.REM:
					default:
						return
					}
					for _, op := range []ssa.Value{bo.X, bo.Y} {
						lv := core.OriginLeavesVia(op)
						if strings.Contains(lv, "via:Int64") || strings.Contains(lv, "via:Uint64") {
							bad = append(bad, bo.Op.String()+" at "+w.Pos(bo.Pos()))
						}
					}
				})
				r.Check(len(bad) == 0, "R6.unbounded", core.SSAKey(fn)+": arithmetic on big.Int only", fn.Pos(), "no native arithmetic on extracted machine words",
					"native Go arithmetic on machine words extracted from the big.Int operands ("+strings.Join(uniq(bad), ", ")+"): the unbounded type wraps or truncates at the 64-bit boundary on that path")
			}
		}
		if n == 0 {
			r.Undecided("R6.unbounded", "Int/UInt arithmetic methods", "none found")
		}
	}
	r.Floor("R6.unbounded", 10)
}

func c12(r *core.Run) {
	r.Explanation = "Decided clauses for Word8..Word256: (R1) Plus/Minus/Mul raise no Overflow/Underflow kind and Div/Mod raise exactly {DivisionByZero}; " +
		"(R2) every division/remainder with a non-constant divisor is dominated by a zero test raising DivisionByZeroError; " +
		"(R3) sibling widths agree modulo the family parameters; (R4) every width-specific bound used (sema.WordNTypeMaxIntPlusOneBig, …MaxIntBig) is the type's own."
	r.NotDecided = "the modular result values themselves."
	words := append(append([]string{}, wordNative...), wordBig...)
	for _, t := range words {
		signatureRule(r, "R1.signature", t+"Value", "Plus", "")
		signatureRule(r, "R1.signature", t+"Value", "Minus", "")
		signatureRule(r, "R1.signature", t+"Value", "Mul", "")
		signatureRule(r, "R1.signature", t+"Value", "Div", kindSet("DivisionByZero"))
		signatureRule(r, "R1.signature", t+"Value", "Mod", kindSet("DivisionByZero"))
	}
	r.Floor("R1.signature", 30)
	zeroDivisorRule(r, "R2.zerodiv", []string{"interpreter"}, func(key string) bool { return isMethodOf(key, words, "Plus", "Minus", "Mul", "Div", "Mod") })
	r.Floor("R2.zerodiv", 12)
	siblingRule(r, "R3.siblings", []*core.Family{famW, famWB}, func(g string) bool { return isGroupOf(g, "Plus", "Minus", "Mul", "Div", "Mod") })
	r.Floor("R3.siblings", 10)
	ownConstRule(r, "R4.ownconst", []*core.Family{famW, famWB}, []string{"interpreter"}, func(key string) bool {
		return isMethodOf(key, words, "Plus", "Minus", "Mul", "Div", "Mod")
	})
	r.Floor("R4.ownconst", 6)
}
