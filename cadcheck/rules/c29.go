package rules

import (
	"go/types"
	"strings"

	"golang.org/x/tools/go/ssa"

	"cadcheck/core"
)

func init() { register("C29", c29) }

func c29(r *core.Run) {
	r.Explanation = "Decided clauses: (R1) in runtime.importValidatedArguments the store of an imported argument into the result slice executes only under all of: DecodeArgument error nil, no panic from ImportValue (UserPanicToError result nil), " +
		"ImportValue error nil, IsImportable true, IsSubTypeOfSemaType(argType, parameterType) true, ConformsToStaticType true — each as a controlling branch condition; a parameter-count mismatch returns before the loop; " +
		"(R2) DecodeArgument/ImportValue are called only from the reviewed functions; (R3) ConformsToStaticType of arrays, dictionaries (keys and values), composites and optionals recurses into their children (pinned number of recursive call sites); " +
		"(R4) no error of the static-to-sema type conversion and value import functions is dropped or overwritten before being tested; " +
		"(R5) every insertion into the export's seenReferences set is undone by a deferred delete of the same key (cycle guard, not a visited-set: a reference occurring twice must export twice); " +
		"(R6) every branch condition and module callee of the import functions of runtime/convertValues.go recorded from the reviewed tree is still present (helper-aware decision census)."
	r.NotDecided = "that the subtype and conformance predicates themselves are right; export round-trip."
	w := r.W
	fn := mustFn(r, "R1.guards", "runtime", "", "importValidatedArguments")
	if fn != nil {
		// the store into the result slice: Store whose address is an IndexAddr into a slice of interpreter.Value made in this function
		var stores []*ssa.Store
		core.Instrs(fn, false, func(in ssa.Instruction) {
			st, ok := in.(*ssa.Store)
			if !ok {
				return
			}
			ia, ok := st.Addr.(*ssa.IndexAddr)
			if !ok {
				return
			}
			if sl, ok := ia.X.Type().Underlying().(*types.Slice); ok {
				if _, n := core.TypeName(sl.Elem()); n == "Value" {
					stores = append(stores, st)
				}
			}
		})
		if len(stores) == 0 {
			r.Undecided("R1.guards", "runtime.importValidatedArguments", "store into the argument result slice not found")
		}
		for _, st := range stores {
			conds := core.ControllingConds(st)
			type req struct {
				what string
				ok   func(a core.Assumption) bool
			}
			callCond := func(name string, want bool) func(a core.Assumption) bool {
				return func(a core.Assumption) bool {
					c, ok := core.Origin(a.Var.Call).(*ssa.Call)
					if !ok || a.Val != want {
						return false
					}
					o := core.Callee(c)
					return o != nil && o.Name() == name
				}
			}
			nilCondOfCall := func(name string) func(a core.Assumption) bool {
				// condition `x != nil` false (or `x == nil` true) where x is the error result of a call to name
				return func(a core.Assumption) bool {
					bo, ok := a.Var.Call.(*ssa.BinOp)
					if !ok {
						return false
					}
					var x ssa.Value
					if isNilC(bo.Y) {
						x = bo.X
					} else if isNilC(bo.X) {
						x = bo.Y
					} else {
						return false
					}
					wantNil := (bo.Op.String() == "!=" && !a.Val) || (bo.Op.String() == "==" && a.Val)
					if !wantNil {
						return false
					}
					v := core.Origin(x)
					if ex, ok := v.(*ssa.Extract); ok {
						v = ex.Tuple
					}
					c, ok := v.(*ssa.Call)
					if !ok {
						return false
					}
					o := core.Callee(c)
					return o != nil && o.Name() == name
				}
			}
			reqs := []req{
				{"DecodeArgument error is nil", nilCondOfCall("DecodeArgument")},
				{"UserPanicToError(ImportValue) returned nil", nilCondOfCall("UserPanicToError")},
				{"IsImportable is true", callCond("IsImportable", true)},
				{"IsSubTypeOfSemaType is true", callCond("IsSubTypeOfSemaType", true)},
				{"ConformsToStaticType is true", callCond("ConformsToStaticType", true)},
			}
			for _, q := range reqs {
				found := false
				for _, a := range conds {
					if q.ok(a) {
						found = true
					}
				}
				r.Check(found, "R1.guards", "runtime.importValidatedArguments: argument stored only if "+q.what, st.Pos(),
					"controlling branch condition present", "an entry-point argument can be accepted without the check: "+q.what)
			}
			// ImportValue's own error (assigned inside the closure to the captured err): a nil test of the err cell controls the store
			errCellTest := false
			for _, a := range conds {
				bo, ok := a.Var.Call.(*ssa.BinOp)
				if !ok || !(isNilC(bo.Y) || isNilC(bo.X)) {
					continue
				}
				x := bo.X
				if isNilC(x) {
					x = bo.Y
				}
				if u, ok := core.Unwrap(x).(*ssa.UnOp); ok {
					// loaded from a cell that a closure calling ImportValue writes
					for _, al := range core.CellAliases(u.X) {
						if fv, ok := al.(*ssa.FreeVar); ok {
							for _, c := range core.Calls(fv.Parent(), false) {
								if o := core.Callee(c); o != nil && o.Name() == "ImportValue" {
									errCellTest = true
								}
							}
						}
					}
				}
			}
			r.Check(errCellTest, "R1.guards", "runtime.importValidatedArguments: argument stored only if ImportValue error is nil", st.Pos(),
				"nil test of the error assigned by ImportValue controls the store", "the error returned by ImportValue is not tested before the argument is accepted")
		}
	}
	r.Floor("R1.guards", 6)

	// R2 who may call
	whoMayCall(r, "R2.callers", "ArgumentDecoder.DecodeArgument", func(o *types.Func) bool {
		return o != nil && o.Name() == "DecodeArgument" && o.Pkg() != nil && o.Pkg().Path() == mod+"/runtime" && core.RecvName(o) != "ExternalInterface" && core.RecvName(o) != "EmptyRuntimeInterface"
	}, map[string]string{
		"runtime.importValidatedArguments":           "the validating import",
		"runtime.(ExternalInterface).DecodeArgument": "host wrapper",
	})
	whoMayCall(r, "R2.callers", "runtime.importValidatedArguments", funcOf(mod+"/runtime", "importValidatedArguments"), map[string]string{
		"runtime.(scriptExecutor).execute":                           "script entry point (interpreter)",
		"runtime.(scriptExecutor).executeWithVM":                     "script entry point (VM)",
		"runtime.(transactionExecutor).execute":                      "transaction entry point (interpreter)",
		"runtime.(transactionExecutor).executeWithVM":                "transaction entry point (VM)",
		"runtime.(scriptExecutor).scriptExecutionFunction":           "script entry point (interpreter)",
		"runtime.(transactionExecutor).transactionExecutionFunction": "transaction entry point (interpreter)",
	})
	r.Floor("R2.callers", 4)

	// R3 recursive conformance
	var pinned map[string]int
	isConf := func(o *types.Func) bool { return o != nil && o.Name() == "ConformsToStaticType" }
	got := map[string]int{}
	for _, t := range [][2]string{{"ArrayValue", "ConformsToStaticType"}, {"DictionaryValue", "ConformsToStaticType"}, {"CompositeValue", "CompositeStaticTypeConformsToStaticType"},
		{"CompositeValue", "InclusiveRangeStaticTypeConformsToStaticType"}, {"SomeValue", "ConformsToStaticType"}} {
		if f := w.Fn("interpreter", t[0], t[1]); f != nil {
			got["interpreter.("+t[0]+")."+t[1]] = len(core.CallsTo(f, true, isConf))
		}
	}
	genCounts(r, "c29_conformance_recursion", got)
	if r.Table("c29_conformance_recursion", &pinned) {
		for k, n := range pinned {
			r.Check(got[k] >= n, "R3.recursion", k+": recursive ConformsToStaticType calls", 0, "children are checked ("+itoa(got[k])+" recursive call site(s))",
				"a recursive conformance check of a child was removed (pinned "+itoa(n)+", now "+itoa(got[k])+"): malformed nested values pass argument validation")
		}
	}
	r.Floor("R3.recursion", 4)

	// R4 error discipline of the conversion/import functions
	isConv := func(o *types.Func) bool {
		if o == nil || o.Pkg() == nil || !core.InMod(o.Pkg().Path()) || !sigReturnsError(o.Type().(*types.Signature)) {
			return false
		}
		n := o.Name()
		return n == "ConvertStaticToSemaType" || n == "ImportValue" || n == "ImportType" ||
			(core.RecvName(o) == "valueImporter" && strings.HasPrefix(n, "import")) || n == "ConvertStaticAuthorizationToSemaAccess"
	}
	for _, f := range w.SrcFuncs() {
		if f.Parent() != nil {
			continue
		}
		file := w.File(f.Pos())
		if file != "runtime/convertValues.go" && file != "runtime/validation.go" && file != "runtime/convertTypes.go" && file != "interpreter/statictype.go" {
			continue // fallbacks outside the import path (member-access checks without type information) are not argument validation
		}
		for _, c := range core.CallsTo(f, true, isConv) {
			fl := core.FollowErr(c)
			key := core.SSAKey(f) + " -> " + core.Callee(c).Name()
			switch {
			case fl.Dropped || len(fl.Sinks) == 0:
				r.Bad("R4.errflow", key, posOf(c), "the error of a type-conversion/import call is dropped or overwritten before it is tested: an invalid nested type or value is accepted")
			case fl.Swallow != nil:
				r.Bad("R4.errflow", key, posOf(c), "on the error's non-nil edge a return carries nothing derived from it")
			default:
				r.OK("R4.errflow", key, posOf(c), "error reaches "+strings.Join(uniq(fl.Sinks), ","))
			}
		}
	}
	r.Floor("R4.errflow", 20)
	c29CycleGuard(r)
	c29ImportDecisions(r)
}

// c29CycleGuard: R5 — the export of references marks a reference in the seenReferences set only while it is being
// exported (a cycle guard): every insertion into a map of that type must be paired with a deferred delete of the same
// key in the same function. Without the delete the set becomes a visited-set, and the second, non-cyclic occurrence of
// the same reference in a result exports as nil — a value that does not round-trip.
func c29CycleGuard(r *core.Run) {
	w := r.W
	rule := "R5.cycleguard"
	n := 0
	for _, fn := range w.SrcFuncsIn("runtime") {
		if fn.Parent() != nil {
			continue
		}
		for _, g := range core.WithAnon(fn) {
			core.Instrs(g, false, func(in ssa.Instruction) {
				mu, ok := in.(*ssa.MapUpdate)
				if !ok {
					return
				}
				nt, ok := mu.Map.Type().(*types.Named)
				if !ok || nt.Obj().Name() != "seenReferences" {
					return
				}
				n++
				paired := false
				core.Instrs(g, false, func(in2 ssa.Instruction) {
					d, ok := in2.(*ssa.Defer)
					if !ok {
						return
					}
					b, ok := d.Call.Value.(*ssa.Builtin)
					if !ok || b.Name() != "delete" || len(d.Call.Args) != 2 {
						return
					}
					if core.OriginLeaves(d.Call.Args[0]) == core.OriginLeaves(mu.Map) && core.OriginLeaves(d.Call.Args[1]) == core.OriginLeaves(mu.Key) &&
						d.Block().Dominates(mu.Block()) {
						paired = true
					}
				})
				r.Check(paired, rule, core.SSAKey(fn)+": seenReferences["+core.OriginLeaves(mu.Key)+"]", mu.Pos(), "insertion is undone by a deferred delete of the same key",
					"a reference is recorded in seenReferences without a deferred delete: its second, non-cyclic occurrence in a result exports as nil, which does not round-trip")
			})
		}
	}
	r.Check(n >= 2, rule, "runtime: seenReferences insertions", 0, "both reference kinds found", "the cycle-guard insertions of the reference export were not found")
	r.Floor(rule, 3)
}

// c29ImportDecisions: R6 — the decisions of the argument importer (which decoded values it rejects): every branch
// condition and module callee of the import functions of runtime/convertValues.go recorded from the reviewed tree must
// still be present (helper-aware, see c38Collect). A removed or replaced test (e.g. "key type is a subtype of
// HashableStruct" replaced by a weaker one) lets a non-importable value through, or turns a user error into a crash.
func c29ImportDecisions(r *core.Run) {
	w := r.W
	var fns []*ssa.Function
	for _, fn := range w.SrcFuncsIn("runtime") {
		if fn.Parent() != nil || w.File(fn.Pos()) != "runtime/convertValues.go" || !strings.HasPrefix(strings.ToLower(fn.Name()), "import") {
			continue
		}
		fns = append(fns, fn)
	}
	if imp := w.Fn("runtime", "", "importValidatedArguments"); imp != nil {
		fns = append(fns, imp)
	}
	decisionCensus(r, "R6.decisions", "c29_import_decisions", fns,
		"the importer no longer makes a decision / consults a helper it did on the reviewed tree")
	r.Floor("R6.decisions", 8)
}

func isNilC(v ssa.Value) bool {
	c, ok := core.Unwrap(v).(*ssa.Const)
	return ok && c.IsNil()
}
