// Package rules holds the per-property rule instances.
package rules

import (
	"sort"

	"cadcheck/core"
)

type ruleFn func(r *core.Run)

var registry = map[string]ruleFn{}

func register(id string, f ruleFn) { registry[id] = f }

// Get returns the rule function of a property (nil if not implemented).
func Get(id string) func(*core.Run) {
	if f, ok := registry[id]; ok {
		return f
	}
	return nil
}

// IDs lists the implemented properties.
func IDs() []string {
	var out []string
	for k := range registry {
		out = append(out, k)
	}
	sort.Strings(out)
	return out
}
