package rules

import (
	"go/ast"
	"go/types"
	"sort"
	"strings"

	"golang.org/x/tools/go/ssa"

	"cadcheck/core"
)

func init() {
	register("C41", c41)
	register("C43", c43)
}

// typeSwitchCases returns the type names listed in the type switches of fd.
func typeSwitchCases(fd *ast.FuncDecl, info *types.Info) map[string]bool {
	out := map[string]bool{}
	ast.Inspect(fd, func(n ast.Node) bool {
		ts, ok := n.(*ast.TypeSwitchStmt)
		if !ok {
			return true
		}
		for _, st := range ts.Body.List {
			for _, e := range st.(*ast.CaseClause).List {
				if tv, ok := info.Types[e]; ok && tv.IsType() {
					_, tn := core.TypeName(tv.Type)
					out[tn] = true
				}
			}
		}
		return true
	})
	return out
}

// implementers lists the named non-interface types of the root package implementing the interface.
func implementers(w *core.World, iface string) []string {
	p := w.Pkg(".")
	it, ok := p.Types.Scope().Lookup(iface).Type().Underlying().(*types.Interface)
	if !ok {
		return nil
	}
	var out []string
	sc := p.Types.Scope()
	for _, n := range sc.Names() {
		tn, ok := sc.Lookup(n).(*types.TypeName)
		if !ok || tn.IsAlias() {
			continue
		}
		if _, isI := tn.Type().Underlying().(*types.Interface); isI {
			continue
		}
		if nt, ok := tn.Type().(*types.Named); ok && nt.TypeParams().Len() > 0 {
			continue
		}
		if types.Implements(tn.Type(), it) || types.Implements(types.NewPointer(tn.Type()), it) {
			out = append(out, n)
		}
	}
	sort.Strings(out)
	return out
}

func exhaustive(r *core.Run, rule, rel, recv, fn, iface string, allow map[string]string) {
	w := r.W
	fo := w.FuncObj(rel, recv, fn)
	fd, pkg := w.Decl(fo)
	key := rel + "." + fn
	if fd == nil {
		r.Undecided(rule, key, "function does not resolve")
		return
	}
	cases := typeSwitchCases(fd, pkg.TypesInfo)
	for _, t := range implementers(w, iface) {
		ck := key + ": case " + t
		switch {
		case cases[t]:
			r.OK(rule, ck, fd.Pos(), "handled")
		case allow[t] != "":
			r.OK(rule, ck, fd.Pos(), "deliberately unsupported: "+allow[t])
		default:
			r.Bad(rule, ck, fd.Pos(), "cadence."+t+" implements cadence."+iface+" but the switch has no arm for it: such a value cannot be encoded/decoded")
		}
	}
}

func c41(r *core.Run) {
	r.Explanation = "Decided clauses: (R1) the JSON encoder's Prepare / PrepareType switches have an arm for every concrete type implementing cadence.Value / cadence.Type; " +
		"(R2) every kind string constant the encoder emits is also referenced by the decoder (a kind the decoder does not know cannot round-trip); " +
		"(R3) Decoder.Decode's recover converts every error panic into a returned decoding error and re-panics only non-errors (reviewed arm summary). (R4) no error of an inner encode/decode step of encoding/json is dropped or swallowed beyond the pinned baseline."
	r.NotDecided = "round-trip equality; robustness against arbitrary malformed JSON beyond the recover boundary."
	w := r.W
	exhaustive(r, "R1.exhaustive", "encoding/json", "", "Prepare", "Value", map[string]string{
		"Bytes": "helper value used only inside the CCF codec; not a Cadence program value",
	})
	exhaustive(r, "R1.exhaustive", "encoding/json", "", "PrepareType", "Type", map[string]string{
		"DeprecatedReferenceType":  "pre-1.0 type accepted by decoders only",
		"DeprecatedRestrictedType": "pre-1.0 type accepted by decoders only",
		"TypeID":                   "placeholder type used while decoding recursive types",
	})
	r.Floor("R1.exhaustive", 60)

	// R2 kind strings
	p := w.Pkg("encoding/json")
	enc, dec := map[string]bool{}, map[string]bool{}
	for _, fd := range w.FuncDeclsIn("encoding/json") {
		file := w.File(fd.Pos())
		ast.Inspect(fd, func(n ast.Node) bool {
			if id, ok := n.(*ast.Ident); ok {
				if c, ok := p.TypesInfo.Uses[id].(*types.Const); ok && c.Pkg() == p.Types && strings.HasSuffix(c.Name(), "Str") {
					if strings.HasSuffix(file, "encode.go") {
						enc[c.Name()] = true
					}
					if strings.HasSuffix(file, "decode.go") {
						dec[c.Name()] = true
					}
				}
			}
			return true
		})
	}
	for _, k := range sortedKeys(enc) {
		r.Check(dec[k], "R2.kinds", "encoding/json."+k+": emitted -> accepted", 0, "decoder references the kind string", "the encoder emits kind "+k+" that the decoder never mentions")
	}
	r.Floor("R2.kinds", 40)

	// R3 recover
	for _, s := range w.RecoverSites() {
		if core.SSAKey(s.Decl) == "encoding/json.(Decoder).Decode" {
			exp := recoverTable["encoding/json.(Decoder).Decode"][0]
			r.Check(s.Summary() == exp, "R3.recover", "encoding/json.(Decoder).Decode: recover arms", s.Call.Pos(), s.Summary(), "recover arms changed: "+s.Summary())
		}
	}
	r.Floor("R3.recover", 1)
	// shared ERR rule restricted to this codec: a failure of an inner encode/decode step must not be dropped
	errDiscipline(r, "R4.errdrop", "encoding/json functions", func(fn *ssa.Function) bool { return fn.Pkg != nil && fn.Pkg.Pkg.Path() == mod+"/encoding/json" }, 12)
	fixedPointSign(r, "R5.fixsign")
	r.Floor("R5.fixsign", 3)
}

func c43(r *core.Run) {
	r.Explanation = "Decided clauses: (R1) per value kind both decoders build their result through the same cadence constructors: for every cadence.New* constructor the CCF decoder calls for a value kind, the JSON decoder calls a constructor of the same kind family " +
		"(pinned census of constructor sets per decoder, compared by kind); (R2) both decoders have an arm for the same set of cadence value kinds. (R3) no error of an inner encode/decode step of encoding/json is dropped or swallowed beyond the pinned baseline."
	r.NotDecided = "equality of the decoded values (field order, type attachment, numeric parsing)."
	w := r.W
	ctorSet := func(rel string) map[string]bool {
		out := map[string]bool{}
		for _, fn := range w.SrcFuncsIn(rel) {
			if fn.Parent() != nil || !strings.Contains(w.File(fn.Pos()), "decode") {
				continue
			}
			for _, c := range core.Calls(fn, true) {
				if o := core.Callee(c); o != nil && o.Pkg() != nil && o.Pkg().Path() == mod && strings.HasPrefix(o.Name(), "New") && core.RecvName(o) == "" {
					out[o.Name()] = true
				}
			}
		}
		return out
	}
	js, cc := ctorSet("encoding/json"), ctorSet("encoding/ccf")
	// value constructors (not type constructors): compare by kind after stripping the Unmetered/Metered/From… variants
	kind := func(n string) string {
		n = strings.TrimPrefix(n, "New")
		n = strings.TrimPrefix(n, "Unmetered")
		n = strings.TrimPrefix(n, "Metered")
		if i := strings.Index(n, "From"); i > 0 {
			n = n[:i]
		}
		return n
	}
	jk, ck := map[string]bool{}, map[string]bool{}
	for n := range js {
		jk[kind(n)] = true
	}
	for n := range cc {
		ck[kind(n)] = true
	}
	n := 0
	for _, k := range sortedKeys(ck) {
		if strings.HasSuffix(k, "Type") || strings.Contains(k, "TypeWith") || k == "" || strings.Contains(k, "Purity") {
			continue // type constructors: covered by C42/C45
		}
		n++
		r.Check(jk[k], "R1.constructors", "cadence.New"+k+": used by both decoders", 0, "both decoders construct "+k+" values through the cadence constructors",
			"the CCF decoder constructs cadence "+k+" values but the JSON decoder has no counterpart: the two codecs cannot decode to the same value for this kind")
	}
	r.Floor("R1.constructors", 30)
	// shared ERR rule restricted to this codec: a failure of an inner encode/decode step must not be dropped
	errDiscipline(r, "R3.errdrop", "encoding/json functions", func(fn *ssa.Function) bool { return fn.Pkg != nil && fn.Pkg.Pkg.Path() == mod+"/encoding/json" }, 12)
	fixedPointSign(r, "R4.fixsign")
	r.Floor("R4.fixsign", 3)
	// R5 the kind of an entitlement set is carried, not assumed: every call of cadence.NewEntitlementSetAuthorization (and every
	// literal of the type) in the codecs and the export path takes its kind from the value being converted (ORIGIN leaves pinned)
	operandOrigins(r, "R5.setkind", "c43_setkind_origins", func(o *types.Func) bool {
		return o != nil && o.Name() == "NewEntitlementSetAuthorization" && o.Pkg() != nil && o.Pkg().Path() == mod
	}, "the kind (conjunction / disjunction) handed to the entitlement-set constructor no longer comes from the decoded or converted value: one codec yields a different authorization than the other")
	r.Floor("R5.setkind", 2)
}

// fixedPointSign: signed fixed-point formatters emit the sign of values in (−1, 0): the integer part of such a value is 0
// and carries no sign, so the formatter must write '-' itself when the fraction is negative and the integer part is zero.
// Each listed formatter must contain a write of '-' controlled by a negativity test and a zero test.
func fixedPointSign(r *core.Run, rule string) {
	for _, f := range [][2]string{{"encoding/json", "encodeFix64"}, {"format", "Fix64"}, {"format", "formatFixedPointBigInt"}} {
		fn := mustFn(r, rule, f[0], "", f[1])
		if fn == nil {
			continue
		}
		ok := false
		for _, c := range core.Calls(fn, false) {
			o := core.Callee(c)
			if o == nil || (o.Name() != "WriteByte" && o.Name() != "WriteString" && o.Name() != "WriteRune") {
				continue
			}
			args := c.Common().Args
			if len(args) == 0 {
				continue
			}
			k, isConst := args[len(args)-1].(*ssa.Const)
			if !isConst || k.Value == nil {
				continue
			}
			if s := k.Value.ExactString(); s != "45" && s != `"-"` {
				continue
			}
			neg, zero := false, false
			for _, a := range core.ControllingConds(c) {
				d := core.CondDesc(a.Var.Call, a.Val)
				if strings.HasPrefix(d, "+<(") && strings.Contains(d, "const:0") {
					neg = true
				}
				if strings.HasPrefix(d, "+==(") && strings.Contains(d, "const:0") {
					zero = true
				}
			}
			if neg && zero {
				ok = true
			}
		}
		r.Check(ok, rule, core.SSAKey(fn)+": sign of values between -1 and 0", fn.Pos(), "'-' is written when the fraction is negative and the integer part is zero",
			"the formatter no longer writes the sign for a negative fraction with a zero integer part: -0.5 is formatted as 0.50000000 and decodes to +0.5")
	}
}
