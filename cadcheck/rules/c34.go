package rules

import (
	"go/ast"
	"go/token"
	"go/types"
	"sort"
	"strings"

	"golang.org/x/tools/go/ssa"

	"cadcheck/core"
)

func init() { register("C34", c34) }

// valueOpMethods: the operator methods of the interpreter's value interfaces.
func valueOpMethods(w *core.World) map[string]bool {
	out := map[string]bool{}
	for _, n := range []string{"NumberValue", "IntegerValue", "ComparableValue"} {
		nt := w.Named("interpreter", n)
		if nt == nil {
			continue
		}
		it := nt.Underlying().(*types.Interface)
		for i := 0; i < it.NumExplicitMethods(); i++ {
			out[it.ExplicitMethod(i).Name()] = true
		}
	}
	return out
}

// opCaseTable: in fd, for every case clause whose expressions are ast.Operation* constants, what pick extracts from the clause body.
func opCaseTable(fd *ast.FuncDecl, info *types.Info, pick func(cc *ast.CaseClause) []string) map[string][]string {
	out := map[string][]string{}
	ast.Inspect(fd, func(n ast.Node) bool {
		cc, ok := n.(*ast.CaseClause)
		if !ok {
			return true
		}
		var ops []string
		for _, e := range cc.List {
			ast.Inspect(e, func(m ast.Node) bool {
				if id, ok := m.(*ast.Ident); ok {
					if c, ok := info.Uses[id].(*types.Const); ok && c.Pkg() != nil && c.Pkg().Path() == mod+"/ast" && strings.HasPrefix(c.Name(), "Operation") {
						ops = append(ops, c.Name())
					}
				}
				return true
			})
		}
		if len(ops) == 0 {
			return true
		}
		got := pick(cc)
		for _, op := range ops {
			out[op] = append(out[op], got...)
		}
		return true
	})
	return out
}

func c34(r *core.Run) {
	r.Explanation = "Decided clauses: (R1) operator composition: for every binary arithmetic, bitwise and comparison ast.Operation, the value-interface method the interpreter calls equals the method called by the VM handler of the instruction the compiler emits for that operation, " +
		"with the left operand as receiver and the right operand as argument in both engines; (R2) the VM's dispatch switch has an arm for every opcode.Instruction implementation; " +
		"(R3) the natives registered for the VM's built-in type-bound functions are the same interpreter.Native* implementations the interpreter binds; " +
		"(R4) methods that InterpreterEnvironment and vmEnvironment both implement are token-identical modulo the environment type, or differ exactly in the reviewed engine-wiring methods; (R5) the interpreter's and the VM's dynamic-cast helpers keep optionals for the same target types; " +
		"(R6) the peephole matcher looks every instruction of a candidate window up in the jump-target set before continuing (windows never contain or start at … a jump target) and no pattern window contains a jump opcode; (R7) no raw VM.locals / Upvalue.closed slot value is pushed on the operand stack without passing maybeUnwrapImplicitReference; (R8) every key under which the compiler pools a literal constant names all components of its key type."
	r.NotDecided = "observational equivalence per program (results, errors, events, storage writes)."
	w := r.W
	opm := valueOpMethods(w)
	if len(opm) < 15 {
		r.Undecided("R1.operators", "interpreter value interfaces", "operator methods not found")
		return
	}
	ip := w.Pkg("interpreter")
	// interpreter table
	interp := map[string][]string{}
	for _, name := range []string{"VisitBinaryExpression", "testComparison"} {
		fo := w.FuncObj("interpreter", "Interpreter", name)
		fd, _ := w.Decl(fo)
		if fd == nil {
			r.Undecided("R1.operators", "interpreter.(Interpreter)."+name, "does not resolve")
			continue
		}
		for op, ms := range opCaseTable(fd, ip.TypesInfo, func(cc *ast.CaseClause) []string {
			var out []string
			for _, st := range cc.Body {
				ast.Inspect(st, func(n ast.Node) bool {
					if call, ok := n.(*ast.CallExpr); ok {
						if sel, ok := call.Fun.(*ast.SelectorExpr); ok && opm[sel.Sel.Name] {
							if f, ok := ip.TypesInfo.Uses[sel.Sel].(*types.Func); ok && core.RecvName(f) != "" {
								recv := types.ExprString(sel.X)
								arg := ""
								if len(call.Args) == 2 {
									arg = types.ExprString(call.Args[1])
								}
								order := "?"
								if strings.HasPrefix(recv, "left") && strings.HasPrefix(arg, "right") {
									order = "left.op(right)"
								}
								out = append(out, sel.Sel.Name+" "+order)
							}
						}
					}
					return true
				})
			}
			return out
		}) {
			interp[op] = append(interp[op], ms...)
		}
	}
	// compiler table
	cp := w.Pkg("bbq/compiler")
	comp := map[string][]string{}
	if fo := w.FuncObj("bbq/compiler", "Compiler", "VisitBinaryExpression"); fo != nil {
		fd, _ := w.Decl(fo)
		comp = opCaseTable(fd, cp.TypesInfo, func(cc *ast.CaseClause) []string {
			var out []string
			for _, st := range cc.Body {
				if es, ok := st.(*ast.ExprStmt); ok {
					ast.Inspect(es, func(n ast.Node) bool {
						if cl, ok := n.(*ast.CompositeLit); ok {
							if _, tn := core.ExprTypeName(cl, cp.TypesInfo); strings.HasPrefix(tn, "Instruction") {
								out = append(out, tn)
							}
						}
						return true
					})
				}
			}
			return out
		})
	} else {
		r.Undecided("R1.operators", "bbq/compiler.(Compiler).VisitBinaryExpression", "does not resolve")
	}
	// VM: instruction -> handler -> method
	vmArm := map[string]string{} // instruction type -> handler function name
	vp := w.Pkg("bbq/vm")
	runFd, _ := w.Decl(w.FuncObj("bbq/vm", "VM", "run"))
	if runFd == nil {
		r.Undecided("R2.dispatch", "bbq/vm.(VM).run", "does not resolve")
		return
	}
	ast.Inspect(runFd, func(n ast.Node) bool {
		cc, ok := n.(*ast.CaseClause)
		if !ok {
			return true
		}
		for _, e := range cc.List {
			tv, ok := vp.TypesInfo.Types[e]
			if !ok || !tv.IsType() {
				continue
			}
			_, tn := core.TypeName(tv.Type)
			if !strings.HasPrefix(tn, "Instruction") {
				continue
			}
			h := ""
			for _, st := range cc.Body {
				ast.Inspect(st, func(m ast.Node) bool {
					if call, ok := m.(*ast.CallExpr); ok && h == "" {
						if id, ok := call.Fun.(*ast.Ident); ok {
							if _, isF := vp.TypesInfo.Uses[id].(*types.Func); isF {
								h = id.Name
							}
						}
					}
					return true
				})
			}
			vmArm[tn] = h
		}
		return true
	})
	handlerMethod := func(h string) string {
		fn := w.Fn("bbq/vm", "", h)
		if fn == nil {
			return ""
		}
		var out []string
		for _, c := range core.Calls(fn, true) {
			if !c.Common().IsInvoke() || !opm[c.Common().Method.Name()] {
				continue
			}
			// operand order: receiver from the first, argument from the second result of peekPop
			order := "?"
			recv := core.Unwrap(c.Common().Value)
			if ta, ok := recv.(*ssa.TypeAssert); ok {
				if ex, ok := ta.X.(*ssa.Extract); ok && ex.Index == 0 {
					args := c.Common().Args
					if len(args) == 2 {
						if ta2, ok := core.Unwrap(args[1]).(*ssa.TypeAssert); ok {
							if ex2, ok := ta2.X.(*ssa.Extract); ok && ex2.Index == 1 && ex2.Tuple == ex.Tuple {
								order = "left.op(right)"
							}
						}
					}
				}
			}
			out = append(out, c.Common().Method.Name()+" "+order)
		}
		return strings.Join(out, ",")
	}
	ops := make([]string, 0)
	for op := range interp {
		ops = append(ops, op)
	}
	sort.Strings(ops)
	for _, op := range ops {
		im := strings.Join(uniq(interp[op]), ",")
		if im == "" {
			continue // not a value-method operation (logical operators, equality, casts)
		}
		ins := comp[op]
		key := "ast." + op + ": interpreter method = VM handler method"
		if len(ins) != 1 {
			r.Bad("R1.operators", key, 0, "the compiler does not emit exactly one instruction for "+op+" ("+strings.Join(ins, ",")+")")
			continue
		}
		h := vmArm[ins[0]]
		vm := handlerMethod(h)
		r.Check(vm == im && !strings.Contains(im, "?"), "R1.operators", key, runFd.Pos(), "interpreter "+im+" = compiler "+ins[0]+" -> vm."+h+" "+vm,
			"interpreter evaluates "+op+" with ["+im+"], the VM executes "+ins[0]+" via "+h+" with ["+vm+"]")
	}
	r.Floor("R1.operators", 14)

	// R2 dispatch exhaustiveness
	op := w.Pkg("bbq/opcode")
	instrIface := w.Named("bbq/opcode", "Instruction").Underlying().(*types.Interface)
	sc := op.Types.Scope()
	for _, n := range sc.Names() {
		tn, ok := sc.Lookup(n).(*types.TypeName)
		if !ok || !strings.HasPrefix(n, "Instruction") || n == "Instruction" {
			continue
		}
		if _, isStruct := tn.Type().Underlying().(*types.Struct); !isStruct || !types.Implements(tn.Type(), instrIface) {
			continue
		}
		h, ok := vmArm[n]
		notExec := map[string]string{"InstructionUnknown": "placeholder for opcode 0, never emitted by the compiler (falls into the default arm: unreachable error)"}
		if n == "InstructionUnreachable" && ok {
			r.OK("R2.dispatch", "bbq/vm.(VM).run[case "+n+"]", runFd.Pos(), "arm raises the unreachable error itself")
			continue
		}
		if !ok {
			if why, allowed := notExec[n]; allowed {
				r.OK("R2.dispatch", "bbq/vm.(VM).run[case "+n+"]", runFd.Pos(), why)
				continue
			}
			r.Bad("R2.dispatch", "bbq/vm.(VM).run[case "+n+"]", runFd.Pos(), "instruction type has no arm in the VM dispatch switch: executing it panics as unreachable")
			continue
		}
		r.Check(h != "", "R2.dispatch", "bbq/vm.(VM).run[case "+n+"]", runFd.Pos(), "handled by "+h, "dispatch arm calls no handler")
	}
	r.Floor("R2.dispatch", 75)
	c34Natives(r)
	// R4 the two runtime environments implement the shared handler methods identically (token-identical modulo the
	// environment type), or differ exactly where reviewed (engine-specific wiring)
	siblingRule(r, "R4.environments", []*core.Family{famEnv}, func(g string) bool { return strings.HasPrefix(g, "runtime.(§0).") })
	r.Floor("R4.environments", 14)
	// R5 twin helpers: the cast helpers of both engines unbox optionals under the same guard
	castUnboxAgreement(r, "R5.castunbox")
	r.Floor("R5.castunbox", 1)
	c34Peephole(r)
	vmImplicitRefRule(r, "R7.implicitref")
	constantKeysComplete(r, "R8.constkeys")
	r.Floor("R8.constkeys", 5)
	removeAbsentIsNoop(r, "R9.removeabsent")
	r.Floor("R9.removeabsent", 2)
	vmRegistrationRows(r, "R10.registrations", nil)
}

// c34Natives: R3 — for every sema.*FunctionName constant bound in both engines, the VM registers the same
// interpreter.Native* implementation(s) the interpreter binds in its member switches.
func c34Natives(r *core.Run) {
	w := r.W
	isNameConst := func(info *types.Info, e ast.Expr) string {
		var id *ast.Ident
		switch x := e.(type) {
		case *ast.SelectorExpr:
			id = x.Sel
		case *ast.Ident:
			id = x
		}
		if id == nil {
			return ""
		}
		c, ok := info.Uses[id].(*types.Const)
		if !ok || c.Pkg() == nil || c.Pkg().Path() != mod+"/sema" || !strings.HasSuffix(c.Name(), "FunctionName") {
			return ""
		}
		return c.Name()
	}
	nativesIn := func(info *types.Info, n ast.Node) []string {
		var out []string
		ast.Inspect(n, func(m ast.Node) bool {
			if id, ok := m.(*ast.Ident); ok {
				obj := info.Uses[id]
				if obj == nil || obj.Pkg() == nil || obj.Pkg().Path() != mod+"/interpreter" || !strings.HasPrefix(obj.Name(), "Native") || obj.Parent() != obj.Pkg().Scope() {
					return true
				}
				switch obj.(type) {
				case *types.Func, *types.Var:
					out = append(out, obj.Name())
				}
			}
			return true
		})
		return out
	}
	vmMap := map[string]map[string]bool{}
	vp := w.Pkg("bbq/vm")
	for _, f := range vp.Syntax {
		ast.Inspect(f, func(n ast.Node) bool {
			call, ok := n.(*ast.CallExpr)
			if !ok || len(call.Args) < 3 {
				return true
			}
			name := isNameConst(vp.TypesInfo, call.Args[0])
			if name == "" {
				return true
			}
			for _, nat := range nativesIn(vp.TypesInfo, call.Args[len(call.Args)-1]) {
				if vmMap[name] == nil {
					vmMap[name] = map[string]bool{}
				}
				vmMap[name][nat] = true
			}
			return true
		})
	}
	inMap := map[string]map[string]bool{}
	ip := w.Pkg("interpreter")
	for _, f := range ip.Syntax {
		ast.Inspect(f, func(n ast.Node) bool {
			cc, ok := n.(*ast.CaseClause)
			if !ok {
				return true
			}
			var names []string
			for _, e := range cc.List {
				if nm := isNameConst(ip.TypesInfo, e); nm != "" {
					names = append(names, nm)
				}
			}
			if len(names) != 1 {
				return true
			}
			for _, st := range cc.Body {
				for _, nat := range nativesIn(ip.TypesInfo, st) {
					if inMap[names[0]] == nil {
						inMap[names[0]] = map[string]bool{}
					}
					inMap[names[0]][nat] = true
				}
			}
			return true
		})
	}
	n := 0
	for _, name := range sortedKeys(vmMap) {
		iv, ok := inMap[name]
		if !ok {
			continue
		}
		n++
		// the VM's natives for this name must all be natives the interpreter binds under the same name
		var extra []string
		for nat := range vmMap[name] {
			if !iv[nat] {
				extra = append(extra, nat)
			}
		}
		sort.Strings(extra)
		r.Check(len(extra) == 0, "R3.natives", "sema."+name+": VM natives ⊆ interpreter natives", 0, strings.Join(sortedKeys(vmMap[name]), ","),
			"the VM registers "+strings.Join(extra, ",")+" for "+name+", which the interpreter does not bind under that name ("+strings.Join(sortedKeys(iv), ",")+")")
	}
	r.Note("built-in function names bound by both engines and compared: %d", n)
	r.Floor("R3.natives", 40)
}

// c34Peephole: R6 — the peephole pass stays inside basic blocks. (a) In PeepholePattern.Match every iteration of the window
// loop that continues to the next instruction has looked the instruction's offset up in the jump-target set (the lookup
// dominates every back edge of the loop): an instruction that is skipped lets a jump land inside or at the head of a rewritten
// window, whose shift patchJumps then mis-applies; (b) no pattern window contains a jump opcode (patchJumps assumes jumps
// are never rewritten).
func c34Peephole(r *core.Run) {
	const rule = "R6.peephole"
	w := r.W
	if fn := mustFn(r, rule, "bbq/compiler", "PeepholePattern", "Match"); fn != nil {
		var jt *ssa.Parameter
		for _, p := range fn.Params {
			if _, ok := p.Type().Underlying().(*types.Map); ok {
				jt = p
			}
		}
		// the lookup itself, or a call of a same-package helper that looks its map argument up (e.g. isJumpTarget(jumpTargets, i))
		var lookups []ssa.Instruction
		core.Instrs(fn, false, func(in ssa.Instruction) {
			if l, ok := in.(*ssa.Lookup); ok && jt != nil && core.IsParamValue(l.X, jt) {
				lookups = append(lookups, l)
			}
			if c, ok := in.(ssa.CallInstruction); ok && jt != nil {
				sf := core.StaticFn(c)
				if sf == nil || sf.Pkg != fn.Pkg || len(sf.Blocks) == 0 {
					return
				}
				for ai, a := range c.Common().Args {
					if !core.IsParamValue(a, jt) || ai >= len(sf.Params) {
						continue
					}
					hp := sf.Params[ai]
					found := false
					core.Instrs(sf, false, func(hin ssa.Instruction) {
						if l, ok := hin.(*ssa.Lookup); ok && core.IsParamValue(l.X, hp) {
							found = true
						}
					})
					if found {
						lookups = append(lookups, in)
					}
				}
			}
		})
		if jt == nil || len(lookups) == 0 {
			r.Bad(rule, core.SSAKey(fn)+": jump-target lookup", fn.Pos(), "the window matcher no longer consults the jump-target set: windows may span basic blocks")
		} else {
			ok, why := true, ""
			nback := 0
			for _, b := range fn.Blocks {
				for _, s := range b.Succs {
					if s.Dominates(b) { // back edge b -> s
						nback++
						dom := false
						for _, l := range lookups {
							if l.Block().Dominates(b) {
								dom = true
							}
						}
						if !dom {
							ok, why = false, "an iteration of the window loop can continue to the next instruction without the jump-target lookup (e.g. the first instruction of the window is exempted): a jump may then target a rewritten window"
						}
					}
				}
			}
			if nback == 0 {
				ok, why = false, "no loop found in the window matcher"
			}
			r.Check(ok, rule, core.SSAKey(fn)+": jump-target lookup on every iteration", lookups[0].Pos(), "the lookup dominates every back edge of the window loop", why)
		}
	}
	// (b) no pattern contains a jump opcode
	jumps := map[string]bool{}
	if d, p := w.Decl(w.FuncObj("bbq/opcode", "", "IsJump")); d != nil {
		ast.Inspect(d.Body, func(n ast.Node) bool {
			cc, ok := n.(*ast.CaseClause)
			if !ok {
				return true
			}
			for _, e := range cc.List {
				if _, tn := core.ExprTypeName(e, p.TypesInfo); tn != "" {
					jumps[strings.TrimPrefix(tn, "Instruction")] = true
				} else if id, ok := e.(*ast.Ident); ok {
					jumps[strings.TrimPrefix(id.Name, "Instruction")] = true
				}
			}
			return true
		})
	}
	if len(jumps) < 3 {
		r.Undecided(rule, "bbq/opcode.IsJump", "the jump instruction set does not resolve")
		return
	}
	cp := w.Pkg("bbq/compiler")
	npat := 0
	if cp != nil {
		for _, f := range cp.Syntax {
			ast.Inspect(f, func(n ast.Node) bool {
				cl, ok := n.(*ast.CompositeLit)
				if !ok {
					return true
				}
				if _, tn := core.ExprTypeName(cl, cp.TypesInfo); tn != "PeepholePattern" {
					return true
				}
				name := ""
				var bad []string
				for _, el := range cl.Elts {
					kv, ok := el.(*ast.KeyValueExpr)
					if !ok {
						continue
					}
					k, _ := kv.Key.(*ast.Ident)
					if k == nil {
						continue
					}
					switch k.Name {
					case "Name":
						if bl, ok := kv.Value.(*ast.BasicLit); ok {
							name = strings.Trim(bl.Value, `"`)
						}
					case "Opcodes":
						ast.Inspect(kv.Value, func(m ast.Node) bool {
							if se, ok := m.(*ast.SelectorExpr); ok && jumps[se.Sel.Name] {
								bad = append(bad, se.Sel.Name)
							}
							return true
						})
					}
				}
				if name == "" {
					return true
				}
				npat++
				r.Check(len(bad) == 0, rule, "bbq/compiler pattern "+name+": no jump opcode in the window", cl.Pos(), "window opcodes are not jumps",
					"the pattern rewrites a jump instruction ("+strings.Join(bad, ", ")+"): patchJumps indexes jumps by their position and assumes they are never rewritten")
				return true
			})
		}
	}
	r.Floor(rule, 4)
}

// vmImplicitRefRule — the VM-internal ImplicitReferenceValue (receiver slot of a bound function) never reaches the operand stack:
// every value read from VM.locals or from Upvalue.closed that is pushed (or returned by a helper and then pushed) has passed
// through maybeUnwrapImplicitReference on every path (taint propagation over SSA phis; helpers returning a raw slot value
// are sources in their callers). A raw implicit reference on the stack fails a Go type assertion in the next member access
// and surfaces as an internal error only in the VM engine.
func vmImplicitRefRule(r *core.Run, rule string) {
	w := r.W
	fns := w.SrcFuncsIn("bbq/vm")
	isUnwrap := funcOf(mod+"/bbq/vm", "maybeUnwrapImplicitReference")
	isPush := methodOf("push", mod+"/bbq/vm.VM")
	fieldOf := func(fa *ssa.FieldAddr) (string, string) {
		pt, ok := fa.X.Type().Underlying().(*types.Pointer)
		if !ok {
			return "", ""
		}
		_, tn := core.TypeName(pt.Elem())
		st, ok := pt.Elem().Underlying().(*types.Struct)
		if !ok {
			return "", ""
		}
		return tn, st.Field(fa.Field).Name()
	}
	rawReturn := map[*ssa.Function]bool{}
	var tainted func(fn *ssa.Function) map[ssa.Value]bool
	tainted = func(fn *ssa.Function) map[ssa.Value]bool {
		t := map[ssa.Value]bool{}
		changed := true
		for changed {
			changed = false
			core.Instrs(fn, false, func(in ssa.Instruction) {
				v, ok := in.(ssa.Value)
				if !ok || t[v] {
					return
				}
				mark := false
				switch x := in.(type) {
				case *ssa.UnOp:
					if x.Op == token.MUL {
						switch a := x.X.(type) {
						case *ssa.IndexAddr:
							// vm.locals[i]
							if ld, ok := a.X.(*ssa.UnOp); ok {
								if fa, ok := ld.X.(*ssa.FieldAddr); ok {
									if tn, f := fieldOf(fa); tn == "VM" && f == "locals" {
										mark = true
									}
								}
							}
						case *ssa.FieldAddr:
							if tn, f := fieldOf(a); tn == "Upvalue" && f == "closed" {
								mark = true
							}
						}
					}
				case *ssa.Phi:
					for _, e := range x.Edges {
						if t[e] {
							mark = true
						}
					}
				case *ssa.Call:
					if sf := core.StaticFn(x); sf != nil && rawReturn[sf] {
						mark = true
					}
				case *ssa.ChangeInterface:
					mark = t[x.X]
				case *ssa.MakeInterface:
					mark = t[x.X]
				}
				if mark {
					t[v] = true
					changed = true
				}
			})
		}
		return t
	}
	// summaries: helpers that return a raw slot value (two rounds suffice for helper-of-helper)
	for round := 0; round < 3; round++ {
		for _, fn := range fns {
			if o, _ := fn.Object().(*types.Func); o != nil && isUnwrap(o) {
				continue
			}
			t := tainted(fn)
			for _, ret := range core.Returns(fn) {
				for _, res := range ret.Results {
					if t[res] {
						rawReturn[fn] = true
					}
				}
			}
		}
	}
	nsrc := 0
	for _, fn := range fns {
		t := tainted(fn)
		if len(t) == 0 {
			continue
		}
		nsrc++
		ok := true
		var at token.Pos
		for _, c := range core.Calls(fn, false) {
			if !isPush(core.Callee(c)) {
				continue
			}
			for _, a := range c.Common().Args {
				if t[a] {
					ok, at = false, c.Pos()
				}
			}
		}
		if ok && rawReturn[fn] {
			// raw values may be returned only to callers inside the package, which are checked in turn
			r.OK(rule, core.SSAKey(fn)+": slot value", fn.Pos(), "returns a raw slot value to its callers, which are checked as sources")
			continue
		}
		r.Check(ok, rule, core.SSAKey(fn)+": slot value", posOr(at, fn.Pos()), "no raw local / upvalue slot value is pushed on the operand stack",
			"a value read from VM.locals / Upvalue.closed is pushed without maybeUnwrapImplicitReference on some path: an ImplicitReferenceValue can reach the operand stack and the next member access fails with an internal error (VM only)")
	}
	r.Floor(rule, 3)
}

func posOr(ps ...token.Pos) token.Pos {
	for _, p := range ps {
		if p.IsValid() {
			return p
		}
	}
	return token.NoPos
}

// vmRegistrationRows: every built-in registered with the VM names one member only — in NewNativeFunctionValue(name, type, native)
// the sema.…FunctionName constant, the sema.…FunctionType and the interpreter.Native…Function implementation carry the same
// member tag (Account_StorageTypeCopy… / AccountStorageCopy…). Rows that disagree on the reviewed tree (shared
// implementations) are a recorded baseline; a new disagreement (copy registered with the implementation of load) is reported.
func vmRegistrationRows(r *core.Run, rule string, scope func(tag string) bool) {
	w := r.W
	norm := func(s string) string {
		s = strings.TrimSuffix(strings.TrimSuffix(s, "FunctionName"), "FunctionType")
		s = strings.TrimPrefix(s, "Native")
		s = strings.TrimSuffix(s, "Function")
		s = strings.ReplaceAll(s, "_", "")
		s = strings.ReplaceAll(s, "Type", "")
		return strings.ToLower(s)
	}
	got := map[string]int{}
	n := 0
	for _, rel := range []string{"bbq/vm"} {
		p := w.Pkg(rel)
		if p == nil {
			continue
		}
		for _, f := range p.Syntax {
			ast.Inspect(f, func(nd ast.Node) bool {
				call, ok := nd.(*ast.CallExpr)
				if !ok || len(call.Args) != 3 {
					return true
				}
				id, ok := call.Fun.(*ast.Ident)
				if !ok || id.Name != "NewNativeFunctionValue" {
					return true
				}
				leaf := func(e ast.Expr) string {
					for {
						switch x := e.(type) {
						case *ast.SelectorExpr:
							return x.Sel.Name
						case *ast.Ident:
							return x.Name
						case *ast.CallExpr:
							e = x.Fun
						default:
							return ""
						}
					}
				}
				nameC, typeC, nat := leaf(call.Args[0]), leaf(call.Args[1]), leaf(call.Args[2])
				if !strings.HasSuffix(nameC, "FunctionName") || !strings.HasPrefix(nat, "Native") {
					return true
				}
				tag := norm(nameC)
				if scope != nil && !scope(tag) {
					return true
				}
				n++
				ok2 := norm(nat) == tag && (!strings.HasSuffix(typeC, "FunctionType") || norm(typeC) == tag)
				if !ok2 {
					got[nameC+" / "+typeC+" / "+nat]++
				}
				return true
			})
		}
	}
	table := "c34_vm_registration_mismatches"
	if genMode() {
		if scope == nil {
			genJSON(r, table, got)
		}
		return
	}
	var base map[string]int
	if !r.Table(table, &base) {
		return
	}
	for _, k := range sortedKeys(got) {
		if got[k] <= base[k] {
			r.OK(rule, "bbq/vm registration "+k, 0, "names differ on the reviewed tree as well (shared implementation; recorded)")
		} else {
			r.Bad(rule, "bbq/vm registration "+k, 0, "a built-in is registered with the VM under one member's name and type but another member's implementation: the compiled engine runs a different function than the interpreter for this member")
		}
	}
	r.OK(rule, "bbq/vm registrations", 0, itoa(n)+" registrations examined")
	r.Floor(rule, 1)
}
