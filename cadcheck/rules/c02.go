package rules

import (
	"encoding/json"
	"fmt"
	"go/token"
	"go/types"
	"os"
	"strings"

	"golang.org/x/tools/go/ssa"

	"cadcheck/core"
)

func init() {
	register("C02", c02)
	register("C04", c04)
	register("C23", c23)
}

// fieldStore matches a store of a (non-nil) constant true / nil into a named field of the receiver struct.
func fieldStoreOf(field string, wantNil bool) func(ssa.Instruction) bool {
	return func(in ssa.Instruction) bool {
		st, ok := in.(*ssa.Store)
		if !ok {
			return false
		}
		fa, ok := st.Addr.(*ssa.FieldAddr)
		if !ok {
			return false
		}
		pt, ok := fa.X.Type().Underlying().(*types.Pointer)
		if !ok {
			return false
		}
		s, ok := pt.Elem().Underlying().(*types.Struct)
		if !ok || s.Field(fa.Field).Name() != field {
			return false
		}
		c, isConst := st.Val.(*ssa.Const)
		if wantNil {
			return isConst && c.IsNil()
		}
		return isConst && c.Value != nil && c.Value.ExactString() == "true"
	}
}

// destroyProtocol: every returning path of the three container Destroy methods performs the destruction obligations.
func destroyProtocol(r *core.Run, rule string, obligations []string) {
	w := r.W
	isWithDestruction := func(o *types.Func) bool { return o != nil && o.Name() == "WithResourceDestruction" }
	isMaybeDestroy := funcOf(mod+"/interpreter", "maybeDestroy")
	for _, spec := range containers {
		fn := mustFn(r, rule, "interpreter", spec.Recv, "Destroy")
		if fn == nil {
			continue
		}
		key := core.SSAKey(fn)
		must := func(what string, pred func(ssa.Instruction) bool, bad string) {
			esc := core.ReachUnder(fn, nil, nil, pred, isReturn)
			if esc == nil {
				r.OK(rule, key+": "+what, fn.Pos(), "on every returning path")
			} else {
				r.Bad(rule, key+": "+what, posOf(esc), bad)
			}
		}
		for _, ob := range obligations {
			switch ob {
			case "nested":
				must("nested destruction inside WithResourceDestruction", func(in ssa.Instruction) bool {
					c, ok := in.(ssa.CallInstruction)
					if !ok || !isWithDestruction(core.Callee(c)) {
						return false
					}
					// the closure handed over destroys the children (directly, through an iteration callback, or through a helper method)
					return core.CallReaches(in, func(cc ssa.CallInstruction) bool { o := core.Callee(cc); return o != nil && isMaybeDestroy(o) }, 3)
				}, "Destroy can return without destroying the nested values under the double-destruction guard: nested resources are lost")
			case "isDestroyed":
				must("v.isDestroyed = true", fieldStoreOf("isDestroyed", false), "Destroy can return without marking the value destroyed: it stays usable")
			case "invalidate":
				must("InvalidateReferencedResources", callTo(isInvalidateRefs), "Destroy can return without invalidating references to the destroyed value")
			case "clear":
				must("v."+spec.Field+" = nil", fieldStoreOf(spec.Field, true), "Destroy can return with the backing container still attached")
			}
		}
		_ = w
	}
}

func c02(r *core.Run) {
	r.Explanation = "Decided clauses: (R1) Transfer of arrays, dictionaries and composites: on every path on which the value is resource-kinded the source's backing container is set to nil and its canonical-container registration cleared before the function returns " +
		"(otherwise the resource would exist twice); (R2) Destroy of the three container kinds: every returning path destroys the nested values inside WithResourceDestruction (double-destruction guard) via maybeDestroy, sets isDestroyed and clears the backing container; " +
		"(R3) census of the loss/duplication guards: every slot overwrite that can hold a live resource still reaches CheckResourceLoss, and the invalidated-resource use checks still have their reviewed callers; " +
		"(R4) UUIDs: the error of the UUID handler is never dropped (C28) and NewCompositeValue obtains resource uuids only from it."
	r.NotDecided = "conservation of resources over whole executions and histories; the checker side of linearity (C03); semantic guards whose predicate (not presence) is wrong, e.g. which dictionary literal entries are checked for duplicate keys."
	transferMoveProtocol(r, "R1.move", false, true)
	r.Floor("R1.move", 6)
	destroyProtocol(r, "R2.destroy", []string{"nested", "isDestroyed", "clear"})
	r.Floor("R2.destroy", 9)

	// R3 census of guards
	w := r.W
	lossCallers := map[string]string{
		"interpreter.(CompositeValue).SetMemberWithoutTransfer": "member overwrite",
		"interpreter.(SimpleVariable).SetValue":                 "variable overwrite",
		"interpreter.(DictionaryValue).SetKeyWithMutationCheck": "dictionary key overwrite",
		"interpreter.(CompositeValue).RemoveField":              "field removal",
		"bbq/vm.opSetLocal":                                     "VM local overwrite",
		"interpreter.(ArrayValue).Set":                          "array element overwrite",
	}
	isCheckLoss := func(o *types.Func) bool { return o != nil && o.Name() == "CheckResourceLoss" }
	got := w.CallersOf(isCheckLoss)
	if os.Getenv("CADCHECK_GEN_TABLES") != "" {
		for k := range got {
			fmt.Println("LOSSCALLER", k)
		}
	}
	for k := range lossCallers {
		_, ok := got[k]
		r.Check(ok, "R3.census", k+" -> CheckResourceLoss", 0, "overwrite guard present ("+lossCallers[k]+")", "the overwrite of a possibly live resource slot no longer checks for resource loss")
	}
	for k, ps := range got {
		if _, ok := lossCallers[k]; !ok {
			r.OK("R3.census", k+" -> CheckResourceLoss", ps[0], "additional loss guard")
		}
	}
	r.Floor("R3.census", 6)

	// R5 dictionary literals: the duplicate-key resource-loss guard is decided by the resource-kindedness of the
	// dictionary itself (an overwritten entry is lost whatever the kind of the *new* value, e.g. nil)
	if fn := mustFn(r, "R5.dupkey", "interpreter", "", "NewDictionaryValueWithAddress"); fn != nil {
		n := 0
		for _, ps := range core.Panics(fn, true) {
			if _, tn := core.TypeName(ps.Type); tn != "DuplicateKeyInResourceDictionaryError" {
				continue
			}
			n++
			ok := false
			for _, a := range core.ControllingConds(ps.Instr) {
				c, isCall := core.Origin(a.Var.Call).(*ssa.Call)
				if !isCall || !a.Val {
					continue
				}
				if o := core.Callee(c); o != nil && o.Name() == "IsResourceKinded" && core.RecvName(o) == "DictionaryValue" {
					ok = true
				}
			}
			r.Check(ok, "R5.dupkey", "interpreter.NewDictionaryValueWithAddress: DuplicateKeyInResourceDictionaryError guard", ps.Instr.Pos(),
				"raised exactly when the dictionary (receiver *DictionaryValue) is resource-kinded and an entry was overwritten",
				"the duplicate-key guard is not controlled by (*DictionaryValue).IsResourceKinded: an overwritten resource entry can be dropped silently")
		}
		if n == 0 {
			r.Bad("R5.dupkey", "interpreter.NewDictionaryValueWithAddress: DuplicateKeyInResourceDictionaryError guard", fn.Pos(), "the duplicate-key resource-loss guard was removed")
		}
	}
	r.Floor("R5.dupkey", 1)

	// R4 uuids: a resource's uuid comes from the host's UUID handler; when the handler fails, the creation must abort —
	// continuing with the zero value returned beside the error gives several live resources the same uuid
	nUUID := 0
	for _, fn := range w.SrcFuncs() {
		if fn.Parent() != nil || fn.Pkg == nil || !w.InScope(fn.Pkg.Pkg.Path()) {
			continue
		}
		for _, c := range core.Calls(fn, true) {
			cc := c.Common()
			isUUID := false
			if cc.IsInvoke() {
				isUUID = cc.Method.Name() == "GenerateUUID"
			} else if nt, ok := cc.Value.Type().(*types.Named); ok && nt.Obj().Name() == "UUIDHandlerFunc" {
				isUUID = true
			}
			if !isUUID {
				continue
			}
			nUUID++
			fl := core.FollowErr(c)
			r.Check(!fl.Dropped && len(fl.Sinks) > 0 && fl.Swallow == nil, "R4.uuid", core.SSAKey(fn)+": UUID handler call", c.Pos(),
				"the handler's error is propagated ("+strings.Join(fl.Sinks, ",")+")",
				"the error of the UUID handler is dropped or swallowed: when the host fails, resources are created with the zero uuid returned beside the error, so live resources share a uuid")
		}
	}
	r.Check(nUUID >= 3, "R4.uuid", "UUID handler call sites", 0, "call sites found", "fewer UUID handler call sites than reviewed (interpreter, VM, runtime handler)")
	r.Floor("R4.uuid", 4)

	// R6 the checker side that the run time relies on: census of the linearity mechanisms (a resource the checker wrongly
	// treats as definitely moved/destroyed is lost at run time without any run-time check)
	pinnedCallCensus(r, "R6.checker", "c03_linearity_edges", "sema", []string{
		"checkConditionalBranches", "checkPotentiallyUnevaluated", "MergeBranches", "checkResourceLoss", "leaveValueScope",
		"checkResourceMoveOperation", "recordResourceInvalidation", "checkResourceUseAfterInvalidation", "maybeAddResourceInvalidation",
		"MaybeReturned", "MaybeJumped", "AddInvalidation", "RemoveTemporaryMoveInvalidation", "checkResourceFieldNesting", "checkUnusedExpressionResourceLoss",
	}, "the checker would accept a program that loses or duplicates a resource; there is no run-time check behind it")
	r.Floor("R6.checker", 50)
}

func c04(r *core.Run) {
	r.Explanation = "Decided clauses: (R1) every resource-kinded path of the three container Transfer methods and every returning path of the three Destroy methods calls InvalidateReferencedResources(context, v); " +
		"(R2) InvalidateReferencedResources is the only writer of a nil Value into tracked ephemeral references, iterates the whole tracked set, and its nested walk hands every field / dictionary value / array element / optional payload to the recursive call unconditionally; the use check CheckInvalidatedValueOrValueReference keeps its reviewed interpreter call sites and " +
		"the VM reads its operand stack only through accessors that run the check; (R3) StorageReferenceValue.dereference type-checks the referenced value before every non-nil return."
	r.NotDecided = "that invalidation reaches unloaded nested values; behaviour per program."
	transferMoveProtocol(r, "R1.invalidate", true, false)
	destroyProtocol(r, "R1.invalidate", []string{"invalidate"})
	r.Floor("R1.invalidate", 6)

	w := r.W
	// R3 tracking: ephemeral references are only built by the constructor that registers them with the reference tracker
	literalOwners(r, "R3.tracking", "interpreter", "EphemeralReferenceValue", map[string]string{
		"interpreter.NewUnmeteredEphemeralReferenceValue": "calls MaybeTrackReferencedResourceKindedValue on the new reference",
	})
	if cf := mustFn(r, "R3.tracking", "interpreter", "", "NewUnmeteredEphemeralReferenceValue"); cf != nil {
		census(r, "R3.tracking", cf, "ReferenceTracker.MaybeTrackReferencedResourceKindedValue", func(o *types.Func) bool { return o != nil && o.Name() == "MaybeTrackReferencedResourceKindedValue" }, 1)
	}
	r.Floor("R3.tracking", 2)

	// R2a: writers of EphemeralReferenceValue.Value = nil
	for _, fn := range w.SrcFuncs() {
		if fn.Parent() != nil {
			continue
		}
		core.Instrs(fn, true, func(in ssa.Instruction) {
			st, ok := in.(*ssa.Store)
			if !ok {
				return
			}
			fa, ok := st.Addr.(*ssa.FieldAddr)
			if !ok {
				return
			}
			pt, ok := fa.X.Type().Underlying().(*types.Pointer)
			if !ok {
				return
			}
			if _, n := core.TypeName(pt.Elem()); n != "EphemeralReferenceValue" {
				return
			}
			s := pt.Elem().Underlying().(*types.Struct)
			if s.Field(fa.Field).Name() != "Value" {
				return
			}
			c, isConst := st.Val.(*ssa.Const)
			if !isConst || !c.IsNil() {
				return
			}
			k := core.SSAKey(fn)
			r.Check(k == "interpreter.InvalidateReferencedResources", "R2.writer", k+": EphemeralReferenceValue.Value = nil", in.Pos(),
				"the single invalidation routine", "a second function clears ephemeral references: invalidation is no longer confined to InvalidateReferencedResources")
		})
	}
	r.Floor("R2.writer", 1)
	// R2w: the nested walk is unconditional — every iteration callback of InvalidateReferencedResources hands each child to the
	// recursive call on every path (a child that is skipped by a type test, e.g. an optional wrapping a resource, keeps its references alive)
	if inv := mustFn(r, "R2.walk", "interpreter", "", "InvalidateReferencedResources"); inv != nil {
		isSelf := func(in ssa.Instruction) bool {
			c, ok := in.(ssa.CallInstruction)
			return ok && core.StaticFn(c) == inv
		}
		nclos := 0
		for _, af := range inv.AnonFuncs {
			var rec []ssa.CallInstruction
			for _, c := range core.Calls(af, false) {
				if isSelf(c) {
					rec = append(rec, c)
				}
			}
			if len(rec) == 0 {
				continue
			}
			nclos++
			ok, why := true, ""
			for _, ret := range core.Returns(af) {
				if !core.MustPass(ret, isSelf) {
					ok, why = false, "the iteration callback can return without invalidating the child it was given (the recursive call is conditional)"
				}
			}
			// the child handed over is a parameter of the callback
			isChild := false
			for _, c := range rec {
				for _, a := range c.Common().Args {
					for _, p := range af.Params {
						if core.IsParamValue(a, p) {
							isChild = true
						}
					}
				}
			}
			if ok && !isChild {
				ok, why = false, "the recursive call is not applied to the child handed to the callback"
			}
			r.Check(ok, "R2.walk", core.SSAKey(af)+": child -> InvalidateReferencedResources", af.Pos(), "every child is invalidated on every path of the callback", why)
		}
		direct := 0
		for _, c := range core.Calls(inv, false) {
			if isSelf(c) {
				direct++
			}
		}
		r.Check(nclos >= 3 && direct >= 1, "R2.walk", "interpreter.InvalidateReferencedResources: nested walk", inv.Pos(),
			"fields, dictionary values, array elements (callbacks) and optionals (direct) are walked",
			"the nested walk lost a container kind: "+itoa(nclos)+" iteration callbacks (expected 3: composite fields, dictionary values, array elements) and "+itoa(direct)+" direct recursion(s) (expected ≥1: optional)")
	}
	r.Floor("R2.walk", 4)
	// R2b census of the use check
	isUseCheck := func(o *types.Func) bool {
		return o != nil && (o.Name() == "CheckInvalidatedValueOrValueReference" || o.Name() == "checkInvalidatedResourceOrResourceReference")
	}
	var table map[string]int
	genCensus(r, "c04_usecheck_callers", w.CallersOf(isUseCheck))
	if r.Table("c04_usecheck_callers", &table) {
		_, deep := callerCounts(w, isUseCheck, func(*types.Func) string { return "usecheck" })
		for k, n := range table {
			now := deep[k+" -> usecheck"]
			r.Check(now >= n, "R2.usecheck", k+" -> invalidated-reference use check", 0,
				"reviewed use-check call site(s) present", "the invalidated-reference use check was removed from this function (reviewed count "+itoa(n)+", now "+itoa(now)+")")
		}
	}
	r.Floor("R2.usecheck", 10)

	// R2c: the VM operand stack is touched only by the reviewed accessors (which run the use check on every value read)
	stackUsers := map[string]string{
		"bbq/vm.(VM).push": "write", "bbq/vm.(VM).pop": "checked read", "bbq/vm.(VM).pop2": "checked read", "bbq/vm.(VM).pop3": "checked read",
		"bbq/vm.(VM).popN": "checked read", "bbq/vm.(VM).peek": "checked read", "bbq/vm.(VM).peekN": "checked read", "bbq/vm.(VM).peekPop": "checked read",
		"bbq/vm.(VM).dropN": "discard without reading", "bbq/vm.(VM).replaceTop": "write", "bbq/vm.(VM).reset": "reset", "bbq/vm.(VM).Reset": "reset", "bbq/vm.NewVM": "allocation",
	}
	seen := map[string]bool{}
	for _, fn := range w.SrcFuncsIn("bbq/vm") {
		if fn.Parent() != nil {
			continue
		}
		touches := false
		var at token.Pos
		core.Instrs(fn, true, func(in ssa.Instruction) {
			fa, ok := in.(*ssa.FieldAddr)
			if !ok {
				return
			}
			pt, ok := fa.X.Type().Underlying().(*types.Pointer)
			if !ok {
				return
			}
			if _, n := core.TypeName(pt.Elem()); n != "VM" {
				return
			}
			if pt.Elem().Underlying().(*types.Struct).Field(fa.Field).Name() == "stack" {
				// uses that only take the length are not reads of operands
				onlyLen := true
				if refs := fa.Referrers(); refs != nil {
					for _, ref := range *refs {
						ld, ok := ref.(*ssa.UnOp)
						if !ok {
							onlyLen = false
							continue
						}
						if lr := ld.Referrers(); lr != nil {
							for _, u := range *lr {
								c, ok := u.(*ssa.Call)
								if !ok {
									onlyLen = false
									continue
								}
								if b, ok := c.Call.Value.(*ssa.Builtin); !ok || b.Name() != "len" {
									onlyLen = false
								}
							}
						}
					}
				}
				if !onlyLen {
					touches = true
					at = in.Pos()
				}
			}
		})
		if !touches {
			continue
		}
		k := core.SSAKey(fn)
		seen[k] = true
		why, ok := stackUsers[k]
		r.Check(ok, "R2.vmstack", k+": VM.stack", at, "reviewed stack accessor ("+why+")", "function reads or writes the VM operand stack directly, bypassing the accessors that check for invalidated references")
	}
	r.Floor("R2.vmstack", 6)
}

func c23(r *core.Run) {
	r.Explanation = "Decided clauses: (R1) Transfer of arrays, dictionaries and composites with remove=true: after a new container was built, every child storable of the old container is popped and its slab removed (PopIterate + RemoveReferencedSlab) and the old root slab is removed, on every returning path; " +
		"(R2) the DeepRemove / RemoveReferencedSlab call edges of the container and storage-map code that were confirmed on the pinned tree still exist (overwrite and removal paths remove what they replace); " +
		"(R3) CommitStorage runs CheckHealth on the enabled edge and returns its error."
	r.NotDecided = "absence of leaked or dangling slabs over histories; atree's own invariants."
	transferRemoveProtocol(r, "R1.remove")
	r.Floor("R1.remove", 6)
	// R1b every value kind: a transfer with remove=true removes the value's own slab on every returning path
	containerSet := map[string]bool{"ArrayValue": true, "DictionaryValue": true, "CompositeValue": true}
	for _, fn := range r.W.SrcFuncsIn("interpreter") {
		if fn.Parent() != nil || fn.Name() != "Transfer" {
			continue
		}
		recv := core.RecvName0(fn)
		if recv == "" || containerSet[recv] {
			continue
		}
		var rm *ssa.Parameter
		for _, p := range fn.Params {
			if types.Identical(p.Type(), types.Typ[types.Bool]) && rm == nil {
				rm = p // the first bool parameter of Transfer is `remove` (the name may be blank)
			}
		}
		key := core.SSAKey(fn) + ": remove=true -> RemoveReferencedSlab"
		if rm == nil {
			continue
		}
		if why, ok := transferNoSlab[recv]; ok {
			r.OK("R1.simple", key, fn.Pos(), "reviewed: "+why)
			continue
		}
		esc := core.ReachUnder(fn, []core.Assumption{{Var: core.BoolVar{Param: rm}, Val: true}}, nil, callTo(isRemoveRefSlab), isReturn)
		r.Check(esc == nil, "R1.simple", key, fn.Pos(), "with remove=true every return passes RemoveReferencedSlab of the value's storable",
			"a transfer with remove=true can return without removing the value's own slab (e.g. guarded by a further condition): large values taken out of a container leave an orphaned slab")
	}
	r.Floor("R1.simple", 40)
	// R1c deep removal through wrappers: SomeValue.DeepRemove removes the inner value and the slab behind its storable unconditionally
	if fn := mustFn(r, "R1.wrapper", "interpreter", "SomeValue", "DeepRemove"); fn != nil {
		esc := core.ReachUnder(fn, nil, nil, func(in ssa.Instruction) bool {
			c, ok := in.(ssa.CallInstruction)
			return ok && c.Common().IsInvoke() && c.Common().Method.Name() == "DeepRemove"
		}, isReturn)
		r.Check(esc == nil, "R1.wrapper", "interpreter.(SomeValue).DeepRemove: inner value deep-removed on every path", fn.Pos(), "inner DeepRemove always runs", "the wrapped value is not deep-removed on some path")
		// the slab removal may only depend on the storable being present (a nil test), not on any other condition
		for _, c := range core.CallsTo(fn, false, isRemoveRefSlab) {
			bad := ""
			for _, a := range core.ControllingConds(c) {
				bo, ok := a.Var.Call.(*ssa.BinOp)
				if ok && (isNilC(bo.X) || isNilC(bo.Y)) {
					continue
				}
				bad = "a condition other than `valueStorable != nil`"
			}
			r.Check(bad == "", "R1.wrapper", "interpreter.(SomeValue).DeepRemove: slab of the inner storable removed whenever present", posOf(c),
				"guarded only by the storable's nil test", "the removal of the inner storable's slab depends on "+bad+": an overwritten optional with a large payload leaves an orphaned slab")
		}
	}
	r.Floor("R1.wrapper", 2)
	w := r.W
	var table map[string]int
	if r.Table("c23_remove_edges", &table) {
		isRem := func(o *types.Func) bool {
			return o != nil && (o.Name() == "DeepRemove" || o.Name() == "RemoveReferencedSlab" || o.Name() == "RemoveStorable" || o.Name() == "removeReferencedSlab")
		}
		got := w.CallersOf(isRem)
		genCensus(r, "c23_remove_edges", got)
		_, deep := callerCounts(w, isRem, func(*types.Func) string { return "remove" })
		for k, n := range table {
			now := deep[k+" -> remove"]
			r.Check(now >= n, "R2.edges", k+" -> DeepRemove/RemoveReferencedSlab", firstOf(got[k]),
				"slab-removal call(s) present", "a reviewed slab-removal call was dropped from this function (reviewed count "+itoa(n)+", now "+itoa(now)+"): replaced or removed values leave orphaned slabs")
		}
	}
	r.Floor("R2.edges", 20)
	// R4 who may remove without deleting: RemoveValueWithoutDeletion hands the stored value to the caller and does not
	// deep-remove it; only the load path (RemoveStored: the program receives the value) and RemoveValue itself (which
	// deletes afterwards) may use it. Any other caller leaves the removed value's slabs in the ledger.
	nNoDel := whoMayCall(r, "R4.nodelete", "DomainStorageMap.RemoveValueWithoutDeletion", methodOf("RemoveValueWithoutDeletion", mod+"/interpreter.DomainStorageMap"), map[string]string{
		"interpreter.(Interpreter).RemoveStored":     "load: the removed value is returned to the program",
		"bbq/vm.(Context).RemoveStored":              "load: the removed value is returned to the program",
		"interpreter.(DomainStorageMap).RemoveValue": "deep-removes the returned storable itself",
	})
	r.Check(nNoDel >= 3, "R4.nodelete", "callers of RemoveValueWithoutDeletion", 0, "reviewed callers found", "the reviewed callers of RemoveValueWithoutDeletion were not found")
	r.Floor("R4.nodelete", 4)
	// R3
	if cs := mustFn(r, "R3.health", "runtime", "", "CommitStorage"); cs != nil {
		chk := core.CallsTo(cs, false, methodOf("CheckHealth", mod+"/runtime.Storage"))
		ok := len(chk) == 1
		why := "CommitStorage no longer calls Storage.CheckHealth"
		if ok {
			fl := core.FollowErr(chk[0])
			ret := false
			for _, s := range fl.Sinks {
				if s == "return" {
					ret = true
				}
			}
			if !ret || fl.Swallow != nil {
				ok, why = false, "the error of CheckHealth is not returned"
			}
			var p *ssa.Parameter
			for _, pp := range cs.Params {
				if pp.Name() == "checkStorageHealth" {
					p = pp
				}
			}
			if ok && p != nil {
				// under checkStorageHealth=true every successful return passes CheckHealth
				if esc := core.ReachUnder(cs, []core.Assumption{{Var: core.BoolVar{Param: p}, Val: true}}, blocksOf(cs, callTo(methodOf("Commit", mod+"/runtime.Storage"))), func(in ssa.Instruction) bool { return in == ssa.Instruction(chk[0].(*ssa.Call)) }, func(in ssa.Instruction) bool {
					ret, isRet := in.(*ssa.Return)
					if !isRet {
						return false
					}
					c, isC := ret.Results[0].(*ssa.Const)
					return isC && c.IsNil()
				}); esc != nil {
					ok, why = false, "with checkStorageHealth=true CommitStorage can return nil without running CheckHealth"
				}
			}
		}
		r.Check(ok, "R3.health", "runtime.CommitStorage: CheckHealth on the enabled edge", cs.Pos(), "health check runs when enabled and its error is returned", why)
	}
	r.Floor("R3.health", 1)
}

// genCensus writes a caller -> count table in table-generation mode.
func genCensus(r *core.Run, name string, got map[string][]token.Pos) {
	if os.Getenv("CADCHECK_GEN_TABLES") == "" {
		return
	}
	out := map[string]int{}
	for k, ps := range got {
		out[k] = len(ps)
	}
	b, _ := json.MarshalIndent(out, "", " ")
	_ = os.WriteFile(r.VerifDir+"/tables/"+name+".json", b, 0o644)
}

// transferNoSlab lists value kinds whose Transfer legitimately has no slab of its own to remove.
var transferNoSlab = map[string]string{
	"PublishedValue": "wrapper following the container pattern: copies (and then removes the old slab) only when it needs to be stored elsewhere; otherwise the value stays in place",
	"SomeValue":      "wrapper following the container pattern: removal happens on the copy path; a resource moved within the same account keeps its slabs",
}
