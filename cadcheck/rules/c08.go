package rules

import (
	"fmt"
	"go/ast"
	"go/token"
	"regexp"
	"sort"
	"strings"

	"go/types"

	"golang.org/x/tools/go/packages"
	"golang.org/x/tools/go/ssa"

	"cadcheck/core"
)

func init() { register("C08", c08) }

var reStaticName = regexp.MustCompile(`PrimitiveStaticType|StaticType|Static`)

// normTwinTokens maps the tokens of the sema / interpreter generated subtype checkers onto a common vocabulary.
func normTwinTokens(toks []core.Tok, side string) []string {
	var out []string
	for i := 0; i < len(toks); i++ {
		t := toks[i]
		txt := t.Text
		if t.Kind == "id" {
			if side == "interpreter" && txt == "$0" {
				// the extra type-converter parameter / argument: drop it, its type (in the signature) and the comma
				j := i + 1
				if j < len(toks) && toks[j].Kind == "id" && strings.HasSuffix(toks[j].Text, "TypeConverter") {
					j++
				}
				if j < len(toks) && toks[j].Kind == "op" && toks[j].Text == "," {
					j++
				}
				i = j - 1
				continue
			}
			if strings.HasPrefix(txt, "$") {
				var k int
				fmt.Sscanf(txt, "$%d", &k)
				if side == "interpreter" {
					k--
				}
				txt = fmt.Sprintf("$%d", k)
			}
			txt = strings.TrimPrefix(txt, "sema.")
			txt = strings.TrimPrefix(txt, "interpreter.")
			txt = strings.TrimPrefix(txt, ".")
			txt = strings.ReplaceAll(txt, "PrimitiveStaticType", "")
			txt = strings.ReplaceAll(txt, "StaticType", "Type")
			txt = strings.ReplaceAll(txt, "Static", "")
			txt = strings.TrimPrefix(txt, "The")
			if txt != "Type" {
				txt = strings.TrimSuffix(txt, "Type")
			}
			switch txt {
			case "IsSubTypeWithoutComparison", "IsSub":
				txt = "IsSubType"
			}
		}
		out = append(out, t.Kind+":"+txt)
	}
	return out
}

func c08(r *core.Run) {
	r.Explanation = "Decided clauses: (R1) the two generated subtype checkers (sema.CheckSubTypeWithoutEquality_gen over checker types and interpreter.CheckSubTypeWithoutEquality_gen over static types) are the same decision procedure: " +
		"their token streams agree arm by arm under the name map sema.XType ↔ PrimitiveStaticTypeX / XStaticType and modulo the interpreter's extra type-converter argument; " +
		"(R2) the primitive conversion tables ConvertSemaToPrimitiveStaticType and PrimitiveStaticType.SemaType are mutually inverse; (R3) the sibling cache-key constructors of the VM's type conversion cache distinguish the same type attributes."
	r.NotDecided = "reflexivity/transitivity of the relation on parametric types; agreement of the hand-written run-time fast paths (e.g. optional unwrapping in IsSubTypeOfSemaType) with the checker relation on all pairs."
	w := r.W
	sf := w.FuncObj("sema", "", "CheckSubTypeWithoutEquality_gen")
	inf := w.FuncObj("interpreter", "", "CheckSubTypeWithoutEquality_gen")
	sfd, sp := w.Decl(sf)
	ifd, ip := w.Decl(inf)
	if sfd == nil || ifd == nil {
		r.Undecided("R1.twins", "CheckSubTypeWithoutEquality_gen", "generated subtype checkers do not resolve")
		return
	}
	// arms of the first (value) switch on the super type, and of the following type switch
	type arms struct {
		value map[string][]string
		typ   map[string]bool
	}
	collect := func(fd *ast.FuncDecl, pkg *packages.Package, side string) arms {
		out := arms{value: map[string][]string{}, typ: map[string]bool{}}
		toks := w.FuncTokens(fd, pkg)
		norm := normTwinTokens(toks, side)
		// map token positions back: normTwinTokens drops tokens on the interpreter side, so re-tokenise per arm by position range
		tokIn := func(from, to token.Pos) []string {
			var sub []core.Tok
			for _, t := range toks {
				if t.Pos >= from && t.Pos < to {
					sub = append(sub, t)
				}
			}
			return normTwinTokens(sub, side)
		}
		_ = norm
		first := true
		ast.Inspect(fd.Body, func(n ast.Node) bool {
			switch sw := n.(type) {
			case *ast.SwitchStmt:
				if !first {
					return true
				}
				first = false
				for _, st := range sw.Body.List {
					cc := st.(*ast.CaseClause)
					if cc.List == nil {
						continue
					}
					label := strings.Join(tokIn(cc.List[0].Pos(), cc.Colon), " ")
					out.value[label] = tokIn(cc.Colon, cc.End())
				}
				return false
			case *ast.TypeSwitchStmt:
				for _, st := range sw.Body.List {
					cc := st.(*ast.CaseClause)
					for _, e := range cc.List {
						out.typ[strings.ReplaceAll(strings.Join(tokIn(e.Pos(), e.End()), " "), "op:* ", "")] = true
					}
				}
			}
			return true
		})
		return out
	}
	sa := collect(sfd, sp, "sema")
	ia := collect(ifd, ip, "interpreter")
	for _, label := range sortedKeys(sa.value) {
		ib, ok := ia.value[label]
		key := "super type arm [" + core.Short(label) + "]"
		if !ok {
			r.Bad("R1.twins", key, sfd.Pos(), "the checker's subtype table has this arm, the run-time table does not")
			continue
		}
		sb := sa.value[label]
		diff := ""
		n := len(sb)
		if len(ib) < n {
			n = len(ib)
		}
		for i := 0; i < n; i++ {
			if sb[i] != ib[i] {
				diff = fmt.Sprintf("token %d: checker `%s` vs run-time `%s`", i, sb[i], ib[i])
				break
			}
		}
		if diff == "" && len(sb) != len(ib) {
			diff = fmt.Sprintf("different length (%d vs %d tokens)", len(sb), len(ib))
		}
		r.Check(diff == "", "R1.twins", key, sfd.Pos(), fmt.Sprintf("identical decision in both generated tables (%d tokens)", len(sb)),
			"the checker's and the run-time subtype tables disagree in this arm: "+diff)
	}
	for _, label := range sortedKeys(ia.value) {
		if _, ok := sa.value[label]; !ok {
			r.Bad("R1.twins", "super type arm ["+core.Short(label)+"]", ifd.Pos(), "the run-time subtype table has this arm, the checker's table does not")
		}
	}
	for _, label := range sortedKeys(sa.typ) {
		r.Check(ia.typ[label], "R1.twins", "composite super type arm ["+core.Short(label)+"]", sfd.Pos(), "present in both tables", "the run-time table has no arm for this kind of super type")
	}
	r.Floor("R1.twins", 25)

	// R2 primitive conversion tables are mutually inverse
	primNorm := func(s string) string {
		s = s[strings.LastIndex(s, ".")+1:]
		s = strings.TrimPrefix(s, "PrimitiveStaticType")
		s = strings.TrimPrefix(s, "The")
		return strings.TrimSuffix(s, "Type")
	}
	toPrim, _ := w.Decl(w.FuncObj("interpreter", "", "ConvertSemaToPrimitiveStaticType"))
	toSema, _ := w.Decl(w.FuncObj("interpreter", "PrimitiveStaticType", "SemaType"))
	if toPrim == nil || toSema == nil {
		r.Undecided("R2.inverse", "interpreter primitive type tables", "ConvertSemaToPrimitiveStaticType / PrimitiveStaticType.SemaType do not resolve")
	} else {
		a := switchTable(toPrim, ip.TypesInfo)
		b := switchTable(toSema, ip.TypesInfo)
		inverseTables(r, "R2.inverse", "ConvertSemaToPrimitiveStaticType", "PrimitiveStaticType.SemaType", a, b, primNorm, toPrim.Pos())
	}
	r.Floor("R2.inverse", 60)

	// R3 the VM's type-conversion cache keys: the constructor from a checker type and the one from a static type
	// distinguish the same attributes (token streams agree under the same name map, pointer-ness ignored)
	kf := w.FuncObj("bbq/commons", "", "NewTypeCacheKeyFromType")
	ks := w.FuncObj("bbq/commons", "", "NewTypeCacheKeyFromStaticType")
	kfd, kp := w.Decl(kf)
	ksd, _ := w.Decl(ks)
	if kfd == nil || ksd == nil {
		r.Undecided("R3.cachekey", "bbq/commons.NewTypeCacheKeyFrom*", "cache key constructors do not resolve")
	} else {
		strip := func(xs []string) []string {
			var out []string
			for _, x := range xs {
				if x == "op:*" || strings.HasPrefix(x, "id:pkg:") || x == "op:." {
					continue
				}
				x = strings.ReplaceAll(x, "NewTypeCacheKeyFromType", "NewTypeCacheKey")
				x = strings.ReplaceAll(x, "NewCacheKeyFrom", "NewTypeCacheKey")
				out = append(out, x)
			}
			return out
		}
		a := strip(normTwinTokens(w.FuncTokens(kfd, kp), "sema"))
		b := strip(normTwinTokens(w.FuncTokens(ksd, kp), "interpreter-keep"))
		diff := ""
		n := len(a)
		if len(b) < n {
			n = len(b)
		}
		for i := 0; i < n; i++ {
			if a[i] != b[i] {
				diff = fmt.Sprintf("token %d: `%s` vs `%s`", i, a[i], b[i])
				break
			}
		}
		if diff == "" && len(a) != len(b) {
			diff = fmt.Sprintf("different length (%d vs %d tokens)", len(a), len(b))
		}
		r.Check(diff == "", "R3.cachekey", "bbq/commons.NewTypeCacheKeyFromType ~ NewTypeCacheKeyFromStaticType", kfd.Pos(), "sibling key constructors agree",
			"the two cache-key constructors distinguish different attributes ("+diff+"): two types can share one cache slot")
	}
	r.Floor("R3.cachekey", 1)

	// R4 run-time fast path for optionals: when both sides are optional the recursion unwraps BOTH sides
	// (T? <: U? iff T <: U); passing the still-wrapped super type would peel extra optional layers off the subtype
	if fn := mustFn(r, "R4.optional", "interpreter", "", "IsSubTypeOfSemaType"); fn != nil && len(fn.Params) == 3 {
		superParam := fn.Params[2]
		n := 0
		for _, c := range core.Calls(fn, false) {
			if c.Common().StaticCallee() != fn {
				continue
			}
			for _, a := range core.ControllingConds(c) {
				ex, ok := a.Var.Call.(*ssa.Extract)
				if !ok || ex.Index != 1 || !a.Val {
					continue
				}
				ta, ok := ex.Tuple.(*ssa.TypeAssert)
				if !ok || ta.X != ssa.Value(superParam) {
					continue
				}
				if _, tn := core.TypeName(ta.AssertedType); tn != "OptionalType" {
					continue
				}
				n++
				arg := core.Unwrap(c.Common().Args[2])
				ok2 := false
				if ld, isLd := arg.(*ssa.UnOp); isLd {
					if fa, isFA := ld.X.(*ssa.FieldAddr); isFA {
						if base, isEx := fa.X.(*ssa.Extract); isEx && base.Tuple == ssa.Value(ta) && base.Index == 0 {
							if st, isSt := fa.X.Type().Underlying().(*types.Pointer); isSt {
								if s, isS := st.Elem().Underlying().(*types.Struct); isS && s.Field(fa.Field).Name() == "Type" {
									ok2 = true
								}
							}
						}
					}
				}
				r.Check(ok2, "R4.optional", "interpreter.IsSubTypeOfSemaType: optional-vs-optional recursion unwraps the super type", c.Pos(),
					"recursive call receives superType.Type of the asserted optional", "the optional fast path recurses with the still-wrapped super type: nested optionals are accepted as subtypes of shallower ones at run time")
			}
		}
		if n == 0 {
			r.Note("IsSubTypeOfSemaType has no optional-vs-optional fast path (nothing to check for R4)")
			r.OK("R4.optional", "interpreter.IsSubTypeOfSemaType: no optional fast path", fn.Pos(), "falls back to sema.IsSubType")
		}
	}
	r.Floor("R4.optional", 1)

	// R5 the static resource-kind shortcut mirrors the checker: every arm of interpreter.IsResourceType that recurses into a
	// component of a static type corresponds to a checker type whose IsResourceType also depends on a component (is not a
	// constant) — a reference, for instance, is never a resource in the checker, so a recursive arm for references makes
	// `&R <: AnyResource` true in the generated static relation only
	if fd, fp := w.Decl(w.FuncObj("interpreter", "", "IsResourceType")); fd == nil {
		r.Undecided("R5.resourcekind", "interpreter.IsResourceType", "does not resolve")
	} else {
		arms, _ := core.TypeSwitchTable(fd, fp.TypesInfo)
		n := 0
		for caseType, outcome := range arms {
			if !strings.Contains(outcome, "IsResourceType(") || strings.Contains(outcome, "SemaType") {
				continue // delegation to the checker type itself
			}
			if caseType == "default" {
				continue
			}
			n++
			semaName := strings.TrimPrefix(strings.ReplaceAll(caseType, "Static", ""), "*")
			if semaName == "ArrayType" {
				semaName = "VariableSizedType" // interface over the two array types
			}
			key := "interpreter.IsResourceType: arm " + caseType + " ~ sema." + semaName + ".IsResourceType"
			nt := w.Named("sema", semaName)
			if nt == nil {
				r.Undecided("R5.resourcekind", key, "checker type does not resolve")
				continue
			}
			var m *types.Func
			for _, recv := range []types.Type{nt, types.NewPointer(nt)} {
				if sel := types.NewMethodSet(recv).Lookup(nt.Obj().Pkg(), "IsResourceType"); sel != nil {
					m, _ = sel.Obj().(*types.Func)
				}
			}
			md, _ := w.Decl(m)
			if md == nil || md.Body == nil {
				r.Undecided("R5.resourcekind", key, "checker method does not resolve")
				continue
			}
			constant := true
			ast.Inspect(md.Body, func(nd ast.Node) bool {
				if ret, ok := nd.(*ast.ReturnStmt); ok && len(ret.Results) == 1 {
					if id, ok := ret.Results[0].(*ast.Ident); !ok || (id.Name != "true" && id.Name != "false") {
						constant = false
					}
				}
				return true
			})
			r.Check(!constant, "R5.resourcekind", key, fd.Pos(), "both recurse into the component type",
				"the static shortcut recurses into a component of "+caseType+" although the checker's "+semaName+".IsResourceType is a constant: the generated static subtype relation classifies such types differently from the checker")
		}
		if n == 0 {
			r.Undecided("R5.resourcekind", "interpreter.IsResourceType", "no recursive arm found")
		}
	}
	r.Floor("R5.resourcekind", 3)

	// R6 sibling built-in types declare alike: the path types (Path, StoragePath, CapabilityPath, PublicPath, PrivatePath) are
	// SimpleType literals with the same set of fields and the same conformances — a sibling that loses a conformance breaks
	// transitivity (StoragePath <: Path <: {StructStringer} but not StoragePath <: {StructStringer})
	if sp := w.Pkg("sema"); sp != nil {
		type pdecl struct{ keys, conf string }
		decls := map[string]pdecl{}
		for _, f := range sp.Syntax {
			for _, d := range f.Decls {
				gd, ok := d.(*ast.GenDecl)
				if !ok {
					continue
				}
				for _, spec := range gd.Specs {
					vs, ok := spec.(*ast.ValueSpec)
					if !ok || len(vs.Names) != 1 || len(vs.Values) != 1 || !strings.HasSuffix(vs.Names[0].Name, "PathType") {
						continue
					}
					var cl *ast.CompositeLit
					switch v := vs.Values[0].(type) {
					case *ast.UnaryExpr:
						cl, _ = v.X.(*ast.CompositeLit)
					case *ast.CompositeLit:
						cl = v
					}
					if cl == nil {
						continue
					}
					if _, tn := core.ExprTypeName(cl, sp.TypesInfo); tn != "SimpleType" {
						continue
					}
					var keys []string
					conf := ""
					for _, e := range cl.Elts {
						kv, ok := e.(*ast.KeyValueExpr)
						if !ok {
							continue
						}
						k, _ := kv.Key.(*ast.Ident)
						if k == nil {
							continue
						}
						keys = append(keys, k.Name)
						if k.Name == "conformances" {
							conf = types.ExprString(kv.Value)
						}
					}
					sort.Strings(keys)
					decls[vs.Names[0].Name] = pdecl{strings.Join(keys, ","), conf}
				}
			}
		}
		groups := map[string][]string{}
		for n, d := range decls {
			k := d.keys + " | conformances=" + d.conf
			groups[k] = append(groups[k], n)
		}
		var desc []string
		for k, v := range groups {
			sort.Strings(v)
			desc = append(desc, strings.Join(v, ",")+": "+k)
		}
		sort.Strings(desc)
		r.Check(len(decls) >= 4 && len(groups) == 1, "R6.pathsiblings", "sema path types declare the same fields and conformances", 0, itoa(len(decls))+" path types agree",
			"the sibling path types no longer declare the same fields/conformances: "+strings.Join(desc, " || "))
	}
	r.Floor("R6.pathsiblings", 1)
}
