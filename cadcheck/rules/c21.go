package rules

import (
	"go/types"
	"strings"

	"golang.org/x/tools/go/ssa"

	"cadcheck/core"
)

func init() { register("C21", c21) }

func c21(r *core.Run) {
	r.Explanation = "Decided clauses: (R1) no fallible or wrapping arithmetic in iteration and membership: the iterator (NewInclusiveRangeIterator, Next, validate) and InclusiveRangeContains with its helpers may compare values but may not call a checked/wrapping " +
		"NumberValue operation (Plus, Minus, Mul, Negate) whose operands are not bounded by the range — every such call is an obligation; the two on the reviewed tree are genuine defects and are listed as known findings; " +
		"(R2) construction: NewInclusiveRangeValueWithStep raises InclusiveRangeConstructionError for a zero step and for a sequence moving away from the end before createInclusiveRange, and the default-step constructor rejects a descending unsigned range; " +
		"(R3) the iterator takes its direction from the sign of the step, its bound from `end` and its first element from `start` (data-flow origins of the field initialisers); (R4) membership divides the offset from `start` by `step`; " +
		"(R5) when the needle equals `end`, InclusiveRangeContains returns only after the remainder test."
	r.NotDecided = "the yielded sequence and membership results themselves."
	arith := map[string]bool{"Plus": true, "Minus": true, "Mul": true, "Negate": true, "SaturatingPlus": true, "SaturatingMinus": true}
	fns := [][3]string{
		{"interpreter", "", "NewInclusiveRangeIterator"}, {"interpreter", "InclusiveRangeIterator", "Next"}, {"interpreter", "InclusiveRangeIterator", "validate"},
		{"interpreter", "", "InclusiveRangeContains"}, {"interpreter", "", "isNeedleBetweenStartEndExclusive"},
	}
	n := 0
	for _, f := range fns {
		fn := mustFn(r, "R1.noarith", f[0], f[1], f[2])
		if fn == nil {
			continue
		}
		found := false
		for _, c := range core.Calls(fn, true) {
			if !c.Common().IsInvoke() || !arith[c.Common().Method.Name()] {
				continue
			}
			found = true
			n++
			r.Bad("R1.noarith", core.SSAKey(fn)+" -> "+c.Common().Method.Name(), posOf(c),
				"checked arithmetic on range elements during iteration/membership: it raises an overflow/underflow error (or wraps for Word types) for ranges that touch the type's bounds, although every yielded element is representable")
		}
		if !found {
			r.OK("R1.noarith", core.SSAKey(fn), fn.Pos(), "only comparisons")
		}
	}
	r.Floor("R1.noarith", 5)

	// R2 construction guards
	named := func(nm string) func(*types.Func) bool {
		return func(o *types.Func) bool { return o != nil && o.Name() == nm }
	}
	if fn := mustFn(r, "R2.construct", "interpreter", "", "NewInclusiveRangeValueWithStep"); fn != nil {
		for _, c := range callsIn(r, "R2.construct", fn, "createInclusiveRange", named("createInclusiveRange")) {
			zero := false
			away := false
			for _, a := range core.ControllingConds(c) {
				if condIsCall(a, "Equal", false) {
					zero = true
				}
				if condIsCall(a, "isSequenceMovingAwayFromEnd", false) {
					away = true
				}
			}
			r.Check(zero, "R2.construct", "interpreter.NewInclusiveRangeValueWithStep: zero step rejected", posOf(c), "range is created only when step.Equal(zero) is false", "a zero step is no longer rejected before the range is created")
			r.Check(away, "R2.construct", "interpreter.NewInclusiveRangeValueWithStep: diverging sequence rejected", posOf(c), "range is created only when the sequence moves towards the end", "a step moving away from the end is no longer rejected")
		}
		kinds := 0
		for _, ps := range core.Panics(fn, false) {
			if _, tn := core.TypeName(ps.Type); tn == "InclusiveRangeConstructionError" {
				kinds++
			}
		}
		r.Check(kinds >= 2, "R2.construct", "interpreter.NewInclusiveRangeValueWithStep: InclusiveRangeConstructionError raised", fn.Pos(), "both rejections raise the construction error", "construction errors were removed")
	}
	r.Floor("R2.construct", 3)
	c21Extra(r)
}

func c21Extra(r *core.Run) {
	// R3 the iterator's fields come from the fields of the range they are named after: direction from the sign of the step,
	// bound from the end, first element from the start
	fieldConst := func(v ssa.Value) map[string]bool {
		out := map[string]bool{}
		for _, tok := range strings.Fields(strings.Trim(core.OriginLeaves(v), "{}")) {
			if strings.HasPrefix(tok, `const:"`) {
				out[strings.Trim(strings.TrimPrefix(tok, "const:"), `"`)] = true
			}
		}
		return out
	}
	only := func(m map[string]bool, want string) bool {
		return m[want] && !(want != "start" && m["start"]) && !(want != "end" && m["end"]) && !(want != "step" && m["step"])
	}
	if fn := mustFn(r, "R3.fields", "interpreter", "", "NewInclusiveRangeIterator"); fn != nil {
		want := map[string]string{"stepNegative": "step", "step": "step", "end": "end"}
		seen := map[string]bool{}
		core.Instrs(fn, false, func(in ssa.Instruction) {
			st, ok := in.(*ssa.Store)
			if !ok {
				return
			}
			fa, ok := st.Addr.(*ssa.FieldAddr)
			if !ok {
				return
			}
			tn, f := structFieldOf(fa)
			src, tracked := want[f]
			if tn != "InclusiveRangeIterator" || !tracked {
				return
			}
			seen[f] = true
			got := fieldConst(st.Val)
			r.Check(only(got, src), "R3.fields", "interpreter.NewInclusiveRangeIterator: InclusiveRangeIterator."+f+" ← range."+src, in.Pos(), "derived from the `"+src+"` field of the range only",
				"the iterator's "+f+" is not derived from the range's `"+src+"` field alone (reads "+strings.Join(sortedKeys(got), ",")+"): e.g. a direction taken from the order of start and end is wrong for a single-element range with a negative step")
		})
		for f := range want {
			if !seen[f] {
				r.Undecided("R3.fields", "interpreter.NewInclusiveRangeIterator: InclusiveRangeIterator."+f, "field initialisation not found")
			}
		}
		// the first element is the validated start
		for _, c := range core.Calls(fn, false) {
			if o := core.Callee(c); o != nil && o.Name() == "validate" && len(c.Common().Args) >= 2 {
				got := fieldConst(c.Common().Args[1])
				r.Check(only(got, "start"), "R3.fields", "interpreter.NewInclusiveRangeIterator: first element ← range.start", posOf(c), "the first element is the range's start", "the first element handed to validate is not the range's `start` field")
			}
		}
	}
	r.Floor("R3.fields", 4)

	// R4 membership: the offset whose remainder by the step decides membership is measured from the start of the sequence
	if fn := mustFn(r, "R4.offset", "interpreter", "", "InclusiveRangeContains"); fn != nil {
		n := 0
		for _, c := range core.Calls(fn, false) {
			if !c.Common().IsInvoke() || c.Common().Method.Name() != "Mod" || len(c.Common().Args) < 2 {
				continue
			}
			n++
			recv := fieldConst(c.Common().Value)
			div := fieldConst(c.Common().Args[len(c.Common().Args)-1])
			r.Check(recv["start"] && !recv["end"] && !recv["step"], "R4.offset", "interpreter.InclusiveRangeContains: offset measured from start", posOf(c), "the dividend derives from the needle and the range's `start` only",
				"the offset tested for divisibility is not measured from the range's `start` alone (reads "+strings.Join(sortedKeys(recv), ",")+"): members of a descending range whose step does not land on `end` are misclassified")
			r.Check(only(div, "step"), "R4.offset", "interpreter.InclusiveRangeContains: remainder by the step", posOf(c), "the divisor is the range's `step`", "the divisor of the membership test is not the range's `step` field")
		}
		if n == 0 {
			r.Undecided("R4.offset", "interpreter.InclusiveRangeContains", "no remainder test found")
		}
		// R5 when the needle equals the end, every return passes the remainder test: `end` is a member only if the step lands on it
		var endEq []*ssa.Call
		for _, c := range core.Calls(fn, false) {
			call, isCall := c.(*ssa.Call)
			if !isCall || !c.Common().IsInvoke() || c.Common().Method.Name() != "Equal" {
				continue
			}
			if recv := fieldConst(c.Common().Value); recv["end"] && !recv["start"] {
				endEq = append(endEq, call)
			}
		}
		isMod := func(in ssa.Instruction) bool {
			c, ok := in.(ssa.CallInstruction)
			return ok && c.Common().IsInvoke() && c.Common().Method.Name() == "Mod"
		}
		isRet := func(in ssa.Instruction) bool { _, ok := in.(*ssa.Return); return ok }
		if len(endEq) == 0 {
			// `end` is not special-cased at all: it is classified by the general test
			r.OK("R5.members", "interpreter.InclusiveRangeContains: needle == end", fn.Pos(), "no special case for the end of the range")
		}
		for _, e := range endEq {
			hit := core.ReachUnder(fn, []core.Assumption{{Var: core.BoolVar{Call: e}, Val: true}}, []*ssa.BasicBlock{e.Block()}, isMod, isRet)
			r.Check(hit == nil, "R5.members", "interpreter.InclusiveRangeContains: needle == end", e.Pos(), "when the needle equals `end` every return passes the remainder test",
				"when the needle equals `end` the function can return without the remainder test: `end` is reported as a member even when the step does not land on it (InclusiveRange(0, 10, step: 3).contains(10) is true, iteration yields 0, 3, 6, 9)")
		}
	}
	r.Floor("R4.offset", 2)
	r.Floor("R5.members", 1)
	c21IteratorState(r)
}

// c21IteratorState: R6 — the VM's for-in asks HasNext() and then takes Next() for granted; the interpreter's only calls
// Next() and stops at nil. Both agree only if the iterator's look-ahead field `next` (what HasNext tests against nil)
// never holds an element outside the range: every value stored into InclusiveRangeIterator.next must be nil or the
// result of the bounds check `validate`.
func c21IteratorState(r *core.Run) {
	const rule = "R6.lookahead"
	w := r.W
	n := 0
	for _, fn := range w.SrcFuncsIn("interpreter") {
		if fn.Parent() != nil {
			continue
		}
		core.Instrs(fn, true, func(in ssa.Instruction) {
			st, ok := in.(*ssa.Store)
			if !ok {
				return
			}
			fa, ok := st.Addr.(*ssa.FieldAddr)
			if !ok {
				return
			}
			tn, f := structFieldOf(fa)
			if tn != "InclusiveRangeIterator" || f != "next" {
				return
			}
			n++
			v := core.Unwrap(st.Val)
			okv := false
			switch x := v.(type) {
			case *ssa.Const:
				okv = x.IsNil()
			case *ssa.Call:
				if sc := x.Call.StaticCallee(); sc != nil && sc.Name() == "validate" {
					okv = true
				}
			}
			r.Check(okv, rule, core.SSAKey(fn)+": InclusiveRangeIterator.next", st.Pos(), "the look-ahead element is nil or bounds-checked",
				"the look-ahead element of the range iterator is assigned without the bounds check: HasNext() reports an element that Next() then refuses (or yields an element past `end`), and the two engines' loops disagree")
		})
	}
	r.Check(n >= 2, rule, "stores to InclusiveRangeIterator.next", 0, itoa(n)+" found", "the look-ahead assignments of the range iterator were not found")
	r.Floor(rule, 3)
}
