package rules

import (
	"go/types"

	"cadcheck/core"
)

func init() { register("C21", c21) }

func c21(r *core.Run) {
	r.Explanation = "Decided clauses: (R1) no fallible or wrapping arithmetic in iteration and membership: the iterator (NewInclusiveRangeIterator, Next, validate) and InclusiveRangeContains with its helpers may compare values but may not call a checked/wrapping " +
		"NumberValue operation (Plus, Minus, Mul, Negate) whose operands are not bounded by the range — every such call is an obligation; the two on the reviewed tree are genuine defects and are listed as known findings; " +
		"(R2) construction: NewInclusiveRangeValueWithStep raises InclusiveRangeConstructionError for a zero step and for a sequence moving away from the end before createInclusiveRange, and the default-step constructor rejects a descending unsigned range."
	r.NotDecided = "the yielded sequence and membership results themselves."
	arith := map[string]bool{"Plus": true, "Minus": true, "Mul": true, "Negate": true, "SaturatingPlus": true, "SaturatingMinus": true}
	fns := [][3]string{
		{"interpreter", "", "NewInclusiveRangeIterator"}, {"interpreter", "InclusiveRangeIterator", "Next"}, {"interpreter", "InclusiveRangeIterator", "validate"},
		{"interpreter", "", "InclusiveRangeContains"}, {"interpreter", "", "isNeedleBetweenStartEndExclusive"},
	}
	n := 0
	for _, f := range fns {
		fn := mustFn(r, "R1.noarith", f[0], f[1], f[2])
		if fn == nil {
			continue
		}
		found := false
		for _, c := range core.Calls(fn, true) {
			if !c.Common().IsInvoke() || !arith[c.Common().Method.Name()] {
				continue
			}
			found = true
			n++
			r.Bad("R1.noarith", core.SSAKey(fn)+" -> "+c.Common().Method.Name(), posOf(c),
				"checked arithmetic on range elements during iteration/membership: it raises an overflow/underflow error (or wraps for Word types) for ranges that touch the type's bounds, although every yielded element is representable")
		}
		if !found {
			r.OK("R1.noarith", core.SSAKey(fn), fn.Pos(), "only comparisons")
		}
	}
	r.Floor("R1.noarith", 5)

	// R2 construction guards
	named := func(nm string) func(*types.Func) bool {
		return func(o *types.Func) bool { return o != nil && o.Name() == nm }
	}
	if fn := mustFn(r, "R2.construct", "interpreter", "", "NewInclusiveRangeValueWithStep"); fn != nil {
		for _, c := range callsIn(r, "R2.construct", fn, "createInclusiveRange", named("createInclusiveRange")) {
			zero := false
			away := false
			for _, a := range core.ControllingConds(c) {
				if condIsCall(a, "Equal", false) {
					zero = true
				}
				if condIsCall(a, "isSequenceMovingAwayFromEnd", false) {
					away = true
				}
			}
			r.Check(zero, "R2.construct", "interpreter.NewInclusiveRangeValueWithStep: zero step rejected", posOf(c), "range is created only when step.Equal(zero) is false", "a zero step is no longer rejected before the range is created")
			r.Check(away, "R2.construct", "interpreter.NewInclusiveRangeValueWithStep: diverging sequence rejected", posOf(c), "range is created only when the sequence moves towards the end", "a step moving away from the end is no longer rejected")
		}
		kinds := 0
		for _, ps := range core.Panics(fn, false) {
			if _, tn := core.TypeName(ps.Type); tn == "InclusiveRangeConstructionError" {
				kinds++
			}
		}
		r.Check(kinds >= 2, "R2.construct", "interpreter.NewInclusiveRangeValueWithStep: InclusiveRangeConstructionError raised", fn.Pos(), "both rejections raise the construction error", "construction errors were removed")
	}
	r.Floor("R2.construct", 3)
}
