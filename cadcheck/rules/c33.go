package rules

import (
	"go/ast"
	"go/token"
	"go/types"
	"strings"

	"golang.org/x/tools/go/ssa"

	"cadcheck/core"
)

func init() { register("C33", c33) }

var execPkgs = []string{"interpreter", "runtime", "stdlib", "stdlib/rlp", "bbq/vm", "bbq/compiler", "bbq/commons", "bbq", "bbq/opcode", "bbq/constant", "bbq/leb128",
	"values", "common", "sema", "encoding/ccf", "encoding/json", ".", "ast", "parser", "parser/lexer", "activations", "common/orderedmap", "fixedpoint", "format", "integer", "errors"}

// nondeterminism sources: (package, name) of functions whose result differs between runs
var nondetFuncs = map[string]string{
	"time.Now": "wall clock", "time.Since": "wall clock", "time.Until": "wall clock",
	"math/rand.Int": "PRNG", "math/rand.Intn": "PRNG", "math/rand.Int63": "PRNG", "math/rand.Uint64": "PRNG", "math/rand.Float64": "PRNG", "math/rand.Read": "PRNG", "math/rand.Perm": "PRNG", "math/rand.Shuffle": "PRNG",
	"math/rand/v2.Int": "PRNG", "math/rand/v2.IntN": "PRNG", "math/rand/v2.Uint64": "PRNG", "math/rand/v2.Shuffle": "PRNG", "math/rand/v2.Perm": "PRNG",
	"crypto/rand.Read": "system entropy", "crypto/rand.Int": "system entropy",
	"maps.Keys": "map order", "maps.Values": "map order", "maps.All": "map order",
	"golang.org/x/exp/maps.Keys": "map order", "golang.org/x/exp/maps.Values": "map order",
	"runtime.NumGoroutine": "scheduler", "os.Getpid": "process", "os.Getenv": "environment",
}

// reviewed uses of nondeterminism sources: function -> reason (none of them feeds an execution outcome)
var nondetAllowed = map[string]string{
	"runtime.reportMetric":                                         "metrics: measures the duration of a phase and reports it to the host's Metrics interface",
	"runtime.(CoverageReport).MarshalJSON":                         "coverage tooling",
	"bbq/vm.(VM).popCallFrame":                                     "tracing span duration (only when tracing is enabled; not part of the result)",
	"bbq/vm.(VM).pushCallFrame":                                    "tracing span start",
	"interpreter.(Interpreter).invokeInterpretedFunctionActivated": "tracing",
}

func c33(r *core.Run) {
	r.Explanation = "Decided clauses: (R1) every `range` over a Go map in the execution packages is order-insensitive by a syntactic effect classification of its body " +
		"(only map/set inserts and deletes, commutative accumulation, constant-returning search, or collection into slices that are sorted afterwards in the same function), or is one of the reviewed loops (one reason each); " +
		"comments such as //nolint:maprange are not trusted; (R2) goroutine starts, select statements, sync.Map.Range and the nondeterministic library sources (time.Now, math/rand, crypto/rand, maps.Keys/Values, …) occur only in the reviewed functions (tracing, metrics, coverage, storage-commit worker count); " +
		"(R3) commit order: Storage.commit takes atree's deterministic FastCommit exactly when its `deterministic` parameter is true, every caller except the deprecated NondeterministicCommit passes the constant true, " +
		"AccountStorage.commit writes more than one pending index only from the sorted slice, and contract updates are written by iterating an ordered map; (R4) pool objects are cleared before Put and the CCF scratch buffer is released only by a deferred call (its bytes are still referenced until the encoder returns, so an early release makes concurrent encodings schedule-dependent); " +
		"a slice collected from a map and sorted with a comparator literal is ordered by the field that holds the map key (any other field can tie, and ties keep the random iteration order); " +
		"(R5) every numeric field of an environment-lifetime object of package runtime that is updated by accumulation is reset to a constant by Configure (no history carried from one execution into the next)."
	r.NotDecided = "byte equality of whole runs; atree's parallel slab encoder (external module); map iteration inside dependencies."
	w := r.W
	mapRangeRule(r, "R1.maprange", execPkgs)
	r.Floor("R1.maprange", 35)

	// R2 nondeterminism sources
	for _, fn := range w.SrcFuncs() {
		if fn.Parent() != nil || fn.Pkg == nil {
			continue
		}
		rel := core.RelPkg(fn.Pkg.Pkg.Path())
		inExec := false
		for _, e := range execPkgs {
			if e == rel {
				inExec = true
			}
		}
		if !inExec {
			continue
		}
		key := core.SSAKey(fn)
		core.Instrs(fn, true, func(in ssa.Instruction) {
			what := ""
			switch x := in.(type) {
			case *ssa.Go:
				what = "go statement"
			case *ssa.Select:
				what = "select statement"
			case ssa.CallInstruction:
				if o := core.Callee(x); o != nil && o.Pkg() != nil {
					k := o.Pkg().Path() + "." + o.Name()
					if why, ok := nondetFuncs[k]; ok && core.RecvName(o) == "" {
						what = k + " (" + why + ")"
					}
					if o.Pkg().Path() == "sync" && core.RecvName(o) == "Map" && o.Name() == "Range" {
						what = "sync.Map.Range (map order)"
					}
					if o.Pkg().Path() == "runtime" && o.Name() == "NumCPU" {
						what = "runtime.NumCPU"
					}
				}
			}
			if what == "" {
				return
			}
			if strings.HasPrefix(what, "time.") {
				// wall-clock reads are allowed when their value can only reach a tracing/metrics call:
				// time.Now() only feeds time.Since/Sub, and the duration only feeds call arguments
				if c, ok := in.(ssa.CallInstruction); ok && c.Value() != nil {
					if bad := clockEscapes(c.Value()); bad == "" {
						r.OK("R2.sources", key+": "+what, in.Pos(), "wall-clock value only flows into time.Since and from there into reporting-call arguments (tracing/metrics)")
					} else {
						r.Bad("R2.sources", key+": "+what, in.Pos(), "wall-clock value "+bad)
					}
					return
				}
			}
			ckey := key + ": " + what
			switch {
			case what == "runtime.NumCPU" && key == "runtime.(Storage).commit":
				r.OK("R2.sources", ckey, in.Pos(), "worker count of atree's FastCommit; the deterministic variant commits in slab-ID order regardless of the worker count")
			case nondetAllowed[key] != "":
				r.OK("R2.sources", ckey, in.Pos(), "reviewed: "+nondetAllowed[key])
			default:
				r.Bad("R2.sources", ckey, in.Pos(), "nondeterminism source in an execution package outside the reviewed functions")
			}
		})
	}
	r.Floor("R2.sources", 1)

	// R3 commit order
	if cf := mustFn(r, "R3.commitorder", "runtime", "Storage", "commit"); cf != nil {
		det := core.CallsTo(cf, false, methodOf("FastCommit", atreePath+".PersistentSlabStorage"))
		nondet := core.CallsTo(cf, false, methodOf("NondeterministicFastCommit", atreePath+".PersistentSlabStorage"))
		var detParam *ssa.Parameter
		for _, p := range cf.Params {
			if p.Name() == "deterministic" {
				detParam = p
			}
		}
		ok := len(det) == 1 && detParam != nil
		why := "Storage.commit no longer has a `deterministic` parameter selecting FastCommit"
		if ok {
			// the FastCommit call is on the true edge of `if deterministic`, the nondeterministic one on the false edge
			b := cf.Blocks
			found := false
			for _, blk := range b {
				if iff, isIf := blk.Instrs[len(blk.Instrs)-1].(*ssa.If); isIf && iff.Cond == ssa.Value(detParam) {
					if core.OnlyViaEdge(det[0], blk, blk.Succs[0]) {
						found = true
						for _, nd := range nondet {
							if !core.OnlyViaEdge(nd, blk, blk.Succs[1]) {
								found = false
							}
						}
					}
				}
			}
			ok = found
			why = "FastCommit is not selected exactly on the true edge of the `deterministic` parameter"
		}
		r.Check(ok, "R3.commitorder", "runtime.(Storage).commit: deterministic -> FastCommit", cf.Pos(), "deterministic slab commit selected by the parameter", why)
		// callers pass constant true except NondeterministicCommit
		if o, _ := cf.Object().(*types.Func); o != nil {
			for _, s := range w.SitesCalling(o) {
				args := s.Instr.Common().Args
				last := args[len(args)-1]
				c, isConst := last.(*ssa.Const)
				ck := core.SSAKey(s.Caller) + " -> Storage.commit(deterministic)"
				if core.SSAKey(s.Caller) == "runtime.(Storage).NondeterministicCommit" {
					r.OK("R3.commitorder", ck, s.Instr.Pos(), "deprecated migration API, no caller in shipped code (C24.R2)")
					continue
				}
				r.Check(isConst && c.Value != nil && c.Value.ExactString() == "true", "R3.commitorder", ck, s.Instr.Pos(), "passes deterministic=true",
					"commit is requested with deterministic != true: slabs are written in Go map order")
			}
		}
	}
	// AccountStorage.commit: writes inside a map range only in the single-entry case (reviewed in R1); the default case writes from a sorted slice
	if af := mustFn(r, "R3.commitorder", "runtime", "AccountStorage", "commit"); af != nil {
		fd, pkg := w.Decl(af.Object().(*types.Func))
		nWritesInMapRange := 0
		ast.Inspect(fd, func(n ast.Node) bool {
			rs, ok := n.(*ast.RangeStmt)
			if !ok {
				return true
			}
			tv := pkg.TypesInfo.Types[rs.X]
			if _, isMap := tv.Type.Underlying().(*types.Map); !isMap {
				return true
			}
			ast.Inspect(rs.Body, func(m ast.Node) bool {
				if c, ok := m.(*ast.CallExpr); ok {
					if sel, ok := c.Fun.(*ast.SelectorExpr); ok && strings.HasPrefix(sel.Sel.Name, "write") {
						nWritesInMapRange++
					}
				}
				return true
			})
			return true
		})
		r.Check(nWritesInMapRange <= 1, "R3.commitorder", "runtime.(AccountStorage).commit: register writes inside map iteration", fd.Pos(),
			"only the single-entry case writes from inside a map range", "more than one register-writing call sits inside a range over the pending-index map")
	}
	// contract updates: ordered map
	if cu := mustFn(r, "R3.commitorder", "runtime", "Storage", "commitContractUpdates"); cu != nil {
		fd, pkg := w.Decl(cu.Object().(*types.Func))
		mapRange := false
		ast.Inspect(fd, func(n ast.Node) bool {
			if rs, ok := n.(*ast.RangeStmt); ok {
				if _, isMap := pkg.TypesInfo.Types[rs.X].Type.Underlying().(*types.Map); isMap {
					mapRange = true
				}
			}
			return true
		})
		r.Check(!mapRange, "R3.commitorder", "runtime.(Storage).commitContractUpdates", fd.Pos(), "iterates the ordered map of contract updates (no Go map range)", "contract updates are written while ranging over a Go map")
	}
	r.Floor("R3.commitorder", 5)

	// R4 pooled scratch objects cannot leak one encoder's bytes into another's output (schedule-dependent results)
	poolReleaseDiscipline(r, "R4.pools")
	r.Floor("R4.pools", 3)
	c33CounterReset(r)
}

// clockEscapes follows a wall-clock value (time.Time or time.Duration): it may only be spilled to local cells,
// captured by closures, converted, passed to time.Since/Sub/Seconds-like methods of package time (whose results are
// followed in turn) or passed as an argument to other calls (reporting). Anything else (return, comparison, arithmetic,
// store into a struct/global) is an escape into program state.
func clockEscapes(v ssa.Value) string {
	seen := map[ssa.Value]bool{}
	work := []ssa.Value{v}
	for len(work) > 0 {
		x := work[0]
		work = work[1:]
		if seen[x] {
			continue
		}
		seen[x] = true
		refs := x.Referrers()
		if refs == nil {
			continue
		}
		for _, ref := range *refs {
			switch in := ref.(type) {
			case *ssa.Store:
				if in.Val != x {
					continue
				}
				switch in.Addr.(type) {
				case *ssa.Alloc, *ssa.FreeVar:
					for _, al := range cellAliasesPublic(in.Addr) {
						if rr := al.Referrers(); rr != nil {
							for _, y := range *rr {
								if u, ok := y.(*ssa.UnOp); ok {
									work = append(work, u)
								}
							}
						}
					}
				default:
					return "is stored into a field/global"
				}
			case *ssa.MakeClosure:
				fn := in.Fn.(*ssa.Function)
				for i, b := range in.Bindings {
					if b == x && i < len(fn.FreeVars) {
						work = append(work, fn.FreeVars[i])
					}
				}
			case *ssa.MakeInterface, *ssa.ChangeType, *ssa.Convert, *ssa.Phi, *ssa.Extract:
				work = append(work, in.(ssa.Value))
			case ssa.CallInstruction:
				o := core.Callee(in)
				if o != nil && o.Pkg() != nil && o.Pkg().Path() == "time" {
					if in.Value() != nil {
						work = append(work, in.Value())
					}
					continue
				}
				// argument of a reporting call: fine (the callee is tracing/metrics; host side)
			case *ssa.Return:
				return "is returned"
			case *ssa.BinOp:
				return "is used in arithmetic/comparison"
			case *ssa.If:
				return "decides a branch"
			case *ssa.UnOp:
				work = append(work, in)
			case *ssa.DebugRef:
			default:
				return "flows into " + in.String()
			}
		}
	}
	return ""
}

func cellAliasesPublic(a ssa.Value) []ssa.Value { return core.CellAliases(a) }

// c33CounterReset: R5 — hosts reuse one Environment for many executions. A numeric field of an object that lives as
// long as the environment (a struct of package runtime held in a field of InterpreterEnvironment / vmEnvironment /
// CheckingEnvironment) and that is updated by accumulation (f++, f--, f += x) carries history from one execution into
// the next unless the per-execution (re)configuration stores a constant into it. Without the reset the outcome of an
// execution depends on how earlier executions ended (e.g. a call-depth counter left non-zero by an aborted run).
func c33CounterReset(r *core.Run) {
	w := r.W
	rule := "R5.reset"
	rt := w.Pkg("runtime")
	if rt == nil {
		r.Undecided(rule, "runtime", "package not loaded")
		return
	}
	// environment-lifetime struct types
	life := map[*types.Named]string{}
	for _, en := range []string{"InterpreterEnvironment", "vmEnvironment", "CheckingEnvironment"} {
		nt := w.Named("runtime", en)
		if nt == nil {
			r.Undecided(rule, "runtime."+en, "does not resolve")
			continue
		}
		st, ok := nt.Underlying().(*types.Struct)
		if !ok {
			continue
		}
		for i := 0; i < st.NumFields(); i++ {
			ft := st.Field(i).Type()
			if p, ok := ft.(*types.Pointer); ok {
				ft = p.Elem()
			}
			if fnt, ok := ft.(*types.Named); ok && fnt.Obj().Pkg() != nil && fnt.Obj().Pkg().Path() == mod+"/runtime" {
				if _, isStruct := fnt.Underlying().(*types.Struct); isStruct {
					life[fnt] = en + "." + st.Field(i).Name()
				}
			}
		}
	}
	fieldOf := func(a ssa.Value) (*types.Named, string) {
		fa, ok := a.(*ssa.FieldAddr)
		if !ok {
			return nil, ""
		}
		pt, ok := fa.X.Type().Underlying().(*types.Pointer)
		if !ok {
			return nil, ""
		}
		nt, ok := pt.Elem().(*types.Named)
		if !ok {
			return nil, ""
		}
		st, ok := nt.Underlying().(*types.Struct)
		if !ok {
			return nil, ""
		}
		return nt, st.Field(fa.Field).Name()
	}
	type fk struct {
		t *types.Named
		f string
	}
	accum := map[fk]token.Pos{}
	reset := map[fk]bool{}
	for _, fn := range w.SrcFuncsIn("runtime") {
		if fn.Parent() != nil {
			continue
		}
		isConfigure := fn.Name() == "Configure" || fn.Name() == "configure"
		core.Instrs(fn, true, func(in ssa.Instruction) {
			st, ok := in.(*ssa.Store)
			if !ok {
				return
			}
			nt, f := fieldOf(st.Addr)
			if nt == nil || life[nt] == "" {
				return
			}
			if _, isConst := st.Val.(*ssa.Const); isConst && isConfigure {
				reset[fk{nt, f}] = true
				return
			}
			if bo, ok := st.Val.(*ssa.BinOp); ok {
				for _, op := range []ssa.Value{bo.X, bo.Y} {
					if ld, ok := op.(*ssa.UnOp); ok && ld.Op == token.MUL {
						if nt2, f2 := fieldOf(ld.X); nt2 == nt && f2 == f {
							if _, seen := accum[fk{nt, f}]; !seen {
								accum[fk{nt, f}] = st.Pos()
							}
						}
					}
				}
			}
		})
	}
	n := 0
	for k, pos := range accum {
		n++
		r.Check(reset[k], rule, "runtime."+k.t.Obj().Name()+"."+k.f+" (held by "+life[k.t]+")", pos, "accumulated during an execution and reset to a constant by Configure",
			"a counter on an environment-lifetime object is accumulated during executions but never reset by Configure: what an aborted execution leaves in it changes the outcome of later executions in the same environment")
	}
	r.Check(n >= 1, rule, "runtime: accumulated fields of environment-lifetime objects", 0, itoa(n)+" found", "the call-depth counter of the interpreter environment was not found")
	r.Floor(rule, 2)
}
