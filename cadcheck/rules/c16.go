package rules

import (
	"go/ast"
	"go/token"
	"go/types"
	"sort"
	"strings"

	"golang.org/x/tools/go/ssa"

	"cadcheck/core"
)

func init() {
	register("C16", c16)
	register("C17", c17)
}

var allNumberTags = []string{"Int", "UInt", "Int8", "Int16", "Int32", "Int64", "Int128", "Int256", "UInt8", "UInt16", "UInt32", "UInt64", "UInt128", "UInt256",
	"Word8", "Word16", "Word32", "Word64", "Word128", "Word256", "Fix64", "Fix128", "UFix64", "UFix128"}

func completeness(r *core.Run, rule, table string, seen map[string]bool, want []string) {
	var missing []string
	for _, t := range want {
		if !seen[t] {
			missing = append(missing, t)
		}
	}
	sort.Strings(missing)
	r.Check(len(missing) == 0, rule, table+": completeness", 0, "a row exists for each of the "+strings.Join(want, ","), "no row for: "+strings.Join(missing, ", "))
}

func c16(r *core.Run) {
	r.Explanation = "Decided clauses: (R1) every row of interpreter.ConverterDeclarations names one numeric type only: its Name constant, Convert function, Min/Max constructors and bounds all belong to the same type, " +
		"and a row exists for every number type; (R2) the ConvertT functions of sibling widths agree modulo the family parameters (or fall into the reviewed classes) and use only their own bounds; " +
		"(R3) ConvertWordN raises no Overflow/Underflow kind for integer sources paths (reduction instead) while ConvertIntN/ConvertUIntN raise {Overflow, Underflow}."
	r.NotDecided = "value preservation per (source, target) pair; fixed-point scaling and rounding arithmetic."
	w := r.W
	p := w.Pkg("interpreter")
	if p == nil {
		r.Undecided("R1.rows", "interpreter", "package not loaded")
		return
	}
	if init := pkgVarInit(p, "ConverterDeclarations"); init != nil {
		seen := rowCoherence(r, "R1.rows", "interpreter.ConverterDeclarations", rowsOfLiteral(init), p.TypesInfo)
		completeness(r, "R1.rows", "interpreter.ConverterDeclarations", seen, allNumberTags)
	} else {
		r.Undecided("R1.rows", "interpreter.ConverterDeclarations", "table does not resolve")
	}
	r.Floor("R1.rows", 24)

	isConv := func(g string) bool { return g == "interpreter.Convert§0" }
	siblingRule(r, "R2.siblings", allFamilies, isConv)
	r.Floor("R2.siblings", 6)
	ownConstRule(r, "R2.ownconst", allFamilies, []string{"interpreter"}, func(key string) bool {
		return strings.HasPrefix(key, "interpreter.Convert") && !strings.Contains(key, "Fix")
	})
	r.Floor("R2.ownconst", 20)

	// R3 signatures of the conversion functions
	for _, t := range append(append(append(append([]string{}, signedNative...), signedBig...), unsignedNative...), unsignedBig...) {
		fn := w.Fn("interpreter", "", "Convert"+t)
		key := "interpreter.Convert" + t
		if fn == nil {
			r.Undecided("R3.signature", key, "does not resolve")
			continue
		}
		got := kindsOf(thrownKinds(w, fn, 2))
		r.Check(got == kindSet("Overflow", "Underflow"), "R3.signature", key, fn.Pos(), "raises exactly {Overflow,Underflow}", "raises {"+got+"}, expected {Overflow,Underflow}")
	}
	for _, t := range append(append([]string{}, wordNative...), wordBig...) {
		fn := w.Fn("interpreter", "", "Convert"+t)
		key := "interpreter.Convert" + t
		if fn == nil {
			r.Undecided("R3.signature", key, "does not resolve")
			continue
		}
		got := kindsOf(thrownKinds(w, fn, 2))
		r.Check(got == "", "R3.signature", key, fn.Pos(), "raises no overflow/underflow kind (reduces modulo 2^n)", "raises {"+got+"}: conversion to a Word type must reduce, not fail")
	}
	r.Floor("R3.signature", 18)
}

func c17(r *core.Run) {
	r.Explanation = "Decided clauses: (R1) every row of interpreter.StringValueParsers and interpreter.BigEndianBytesConverters names one numeric type only (receiver type, bit-size literal, constructor, native Go type, bounds, byte length) " +
		"and a row exists for every number type; (R2) the parse primitive class per row depends only on signedness/kind: signed integer rows use the signed parser, unsigned and Word rows the unsigned parser; " +
		"(R3) ToBigEndianBytes / NewTValueFromBigEndianBytes of sibling widths agree modulo the family parameters (or fall into the reviewed classes)."
	r.NotDecided = "round-trip equality on values; formatting; address/path string constructors."
	w := r.W
	p := w.Pkg("interpreter")
	if p == nil {
		r.Undecided("R1.rows", "interpreter", "package not loaded")
		return
	}
	for _, tb := range []string{"StringValueParsers", "BigEndianBytesConverters"} {
		if init := pkgVarInit(p, tb); init != nil {
			seen := rowCoherence(r, "R1.rows", "interpreter."+tb, rowsOfLiteral(init), p.TypesInfo)
			completeness(r, "R1.rows", "interpreter."+tb, seen, allNumberTags)
		} else {
			r.Undecided("R1.rows", "interpreter."+tb, "table does not resolve")
		}
	}
	r.Floor("R1.rows", 48)
	c17Acceptance(r)
	siblingRule(r, "R3.siblings", allFamilies, func(g string) bool {
		return g == "interpreter.(§0Value).ToBigEndianBytes" || g == "interpreter.New§0ValueFromBigEndianBytes" || g == "..(§0).ToBigEndianBytes"
	})
	r.Floor("R3.siblings", 12)
}

// c17Acceptance: R2 — which strings fromString accepts may depend only on signedness: every unsigned/Word integer row
// reaches a parse primitive that rejects a sign prefix (strconv.ParseUint, or a sign guard on input[0] before
// big.Int.SetString), every signed integer row one that accepts it (strconv.ParseInt / big.Int.SetString).
func c17Acceptance(r *core.Run) {
	w := r.W
	p := w.Pkg("interpreter")
	init := pkgVarInit(p, "StringValueParsers")
	if init == nil {
		return
	}
	info := p.TypesInfo
	classOf := func(fn *ssa.Function) (string, string) {
		if fn == nil {
			return "?", "parser generator does not resolve"
		}
		prims := map[string]bool{}
		guard := false
		seen := map[*ssa.Function]bool{}
		var visit func(f *ssa.Function, d int)
		visit = func(f *ssa.Function, d int) {
			if f == nil || seen[f] || len(f.Blocks) == 0 {
				return
			}
			seen[f] = true
			core.Instrs(f, true, func(in ssa.Instruction) {
				if bo, ok := in.(*ssa.BinOp); ok && (bo.Op == token.EQL || bo.Op == token.NEQ) {
					for _, v := range []ssa.Value{bo.X, bo.Y} {
						if c, ok := v.(*ssa.Const); ok && c.Value != nil && (c.Value.ExactString() == "43" || c.Value.ExactString() == "45") {
							guard = true
						}
					}
				}
				c, ok := in.(ssa.CallInstruction)
				if !ok {
					return
				}
				o := core.Callee(c)
				if o == nil || o.Pkg() == nil {
					return
				}
				switch {
				case o.Pkg().Path() == "strconv" && (o.Name() == "ParseUint" || o.Name() == "ParseInt"):
					prims[o.Name()] = true
				case o.Pkg().Path() == "math/big" && o.Name() == "SetString":
					prims["big.SetString"] = true
				default:
					if sf := core.StaticFn(c); core.InModFn(sf) && d < 2 {
						visit(sf, d+1)
					}
				}
			})
		}
		visit(fn, 0)
		desc := strings.Join(sortedKeys(prims), "+")
		if guard {
			desc += "+sign-guard"
		}
		switch {
		case len(prims) == 0:
			return "?", "no parse primitive reached"
		case guard || (prims["ParseUint"] && len(prims) == 1):
			return "rejects-sign", desc
		default:
			return "accepts-sign", desc
		}
	}
	for _, row := range rowsOfLiteral(init) {
		t := tagsOf(row, info)
		tag := t.tag()
		if tag == "" || strings.Contains(tag, "Fix") {
			continue
		}
		cl, ok := row.(*ast.CompositeLit)
		if !ok {
			continue
		}
		var gen *types.Func
		for _, el := range cl.Elts {
			kv, ok := el.(*ast.KeyValueExpr)
			if !ok {
				continue
			}
			if id, ok := kv.Key.(*ast.Ident); !ok || id.Name != "Parser" {
				continue
			}
			if call, ok := kv.Value.(*ast.CallExpr); ok {
				fun := call.Fun
				if ix, ok := fun.(*ast.IndexListExpr); ok {
					fun = ix.X
				}
				if ix, ok := fun.(*ast.IndexExpr); ok {
					fun = ix.X
				}
				if id, ok := fun.(*ast.Ident); ok {
					gen, _ = info.Uses[id].(*types.Func)
				}
			}
		}
		key := "interpreter.StringValueParsers[" + tag + "]: sign acceptance"
		if gen == nil {
			r.Undecided("R2.acceptance", key, "row's Parser is not a call of a parser generator function")
			continue
		}
		class, desc := classOf(w.Prog.FuncValue(gen))
		want := "accepts-sign"
		if strings.HasPrefix(tag, "UInt") || strings.HasPrefix(tag, "Word") {
			want = "rejects-sign"
		}
		r.Check(class == want, "R2.acceptance", key, row.Pos(), gen.Name()+" "+class+" ("+desc+")",
			"row of "+tag+" uses "+gen.Name()+", which "+class+" ("+desc+"); rows of its signedness class must be "+want+" (acceptance may not depend on the width)")
	}
	r.Floor("R2.acceptance", 20)
}
