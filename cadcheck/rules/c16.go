package rules

import (
	"go/ast"
	"go/constant"
	"go/token"
	"go/types"
	"sort"
	"strconv"
	"strings"

	"golang.org/x/tools/go/ssa"

	"cadcheck/core"
)

func init() {
	register("C16", c16)
	register("C17", c17)
}

var allNumberTags = []string{"Int", "UInt", "Int8", "Int16", "Int32", "Int64", "Int128", "Int256", "UInt8", "UInt16", "UInt32", "UInt64", "UInt128", "UInt256",
	"Word8", "Word16", "Word32", "Word64", "Word128", "Word256", "Fix64", "Fix128", "UFix64", "UFix128"}

func completeness(r *core.Run, rule, table string, seen map[string]bool, want []string) {
	var missing []string
	for _, t := range want {
		if !seen[t] {
			missing = append(missing, t)
		}
	}
	sort.Strings(missing)
	r.Check(len(missing) == 0, rule, table+": completeness", 0, "a row exists for each of the "+strings.Join(want, ","), "no row for: "+strings.Join(missing, ", "))
}

func c16(r *core.Run) {
	r.Explanation = "Decided clauses: (R1) every row of interpreter.ConverterDeclarations names one numeric type only: its Name constant, Convert function, Min/Max constructors and bounds all belong to the same type, " +
		"and a row exists for every number type; (R2) the ConvertT functions of sibling widths agree modulo the family parameters (or fall into the reviewed classes) and use only their own bounds; " +
		"(R3) ConvertWordN raises no Overflow/Underflow kind for integer sources paths (reduction instead) while ConvertIntN/ConvertUIntN raise {Overflow, Underflow}; " +
		"(R4) inside the Convert functions of non-Word targets every same-width Go conversion across signedness (uint64 → int64, fix.UFix128 → fix.Fix128, …) is dominated by a range test on the source value with a failing edge."
	r.Explanation += " (R6) signed fixed-point conversion code divides with truncation (big.Int.Quo/Rem), never with the Euclidean Div/Mod (one reviewed exception); " +
		"(R7) the Word conversions reduce with sign-preserving operations (Int64, Mod) and read a magnitude (Uint64, Bits, Bytes) only under a sign test; " +
		"(R8) a conversion without rounding rule never reaches a *WithRounding conversion."
	r.NotDecided = "value preservation per (source, target) pair; fixed-point scaling and rounding arithmetic."
	w := r.W
	p := w.Pkg("interpreter")
	if p == nil {
		r.Undecided("R1.rows", "interpreter", "package not loaded")
		return
	}
	if init := pkgVarInit(p, "ConverterDeclarations"); init != nil {
		seen := rowCoherence(r, "R1.rows", "interpreter.ConverterDeclarations", rowsOfLiteral(init), p.TypesInfo)
		completeness(r, "R1.rows", "interpreter.ConverterDeclarations", seen, allNumberTags)
	} else {
		r.Undecided("R1.rows", "interpreter.ConverterDeclarations", "table does not resolve")
	}
	r.Floor("R1.rows", 24)
	// "truncating excess fractional digits toward zero": shared with C13/C15
	c16WordMagnitude(r)
	c16PlainNeverRounds(r)
	euclidRule(r, "R6.truncdiv", func(fn *ssa.Function) bool { return !isFixArithmetic(fn) }, 20, 0)

	isConv := func(g string) bool { return g == "interpreter.Convert§0" }
	siblingRule(r, "R2.siblings", allFamilies, isConv)
	r.Floor("R2.siblings", 6)
	ownConstRule(r, "R2.ownconst", allFamilies, []string{"interpreter"}, func(key string) bool {
		return strings.HasPrefix(key, "interpreter.Convert") && !strings.Contains(key, "Fix")
	})
	r.Floor("R2.ownconst", 20)

	// R3 signatures of the conversion functions
	for _, t := range append(append(append(append([]string{}, signedNative...), signedBig...), unsignedNative...), unsignedBig...) {
		fn := w.Fn("interpreter", "", "Convert"+t)
		key := "interpreter.Convert" + t
		if fn == nil {
			r.Undecided("R3.signature", key, "does not resolve")
			continue
		}
		got := kindsOf(thrownKinds(w, fn, 2))
		r.Check(got == kindSet("Overflow", "Underflow"), "R3.signature", key, fn.Pos(), "raises exactly {Overflow,Underflow}", "raises {"+got+"}, expected {Overflow,Underflow}")
	}
	for _, t := range append(append([]string{}, wordNative...), wordBig...) {
		fn := w.Fn("interpreter", "", "Convert"+t)
		key := "interpreter.Convert" + t
		if fn == nil {
			r.Undecided("R3.signature", key, "does not resolve")
			continue
		}
		got := kindsOf(thrownKinds(w, fn, 2))
		r.Check(got == "", "R3.signature", key, fn.Pos(), "raises no overflow/underflow kind (reduces modulo 2^n)", "raises {"+got+"}: conversion to a Word type must reduce, not fail")
	}
	r.Floor("R3.signature", 18)
	c16Reinterpret(r)
}

func c17(r *core.Run) {
	r.Explanation = "Decided clauses: (R1) every row of interpreter.StringValueParsers and interpreter.BigEndianBytesConverters names one numeric type only (receiver type, bit-size literal, constructor, native Go type, bounds, byte length) " +
		"and a row exists for every number type; (R2) the parse primitive class per row depends only on signedness/kind: signed integer rows use the signed parser, unsigned and Word rows the unsigned parser; " +
		"(R3) ToBigEndianBytes / NewTValueFromBigEndianBytes of sibling widths agree modulo the family parameters (or fall into the reviewed classes); (R4) in the shared fromBigEndianBytes native function only the byte-array error, `byteLength != 0` and `len(bytes) > byteLength` decide between nil and a result; " +
		"(R5) every call of fixedpoint.CheckRange receives the fractional part scaled to the scale of the type's bounds; " +
		"(R6) interpreter.inRange accepts exactly the closed interval, decided on all nine outcomes of its two three-way comparisons (CMPSET); " +
		"(R7) common.HexToAddress strips the 0x prefix with a prefix operation, not a character-set trim."
	r.NotDecided = "round-trip equality on values; formatting; address/path string constructors."
	w := r.W
	p := w.Pkg("interpreter")
	if p == nil {
		r.Undecided("R1.rows", "interpreter", "package not loaded")
		return
	}
	for _, tb := range []string{"StringValueParsers", "BigEndianBytesConverters"} {
		if init := pkgVarInit(p, tb); init != nil {
			seen := rowCoherence(r, "R1.rows", "interpreter."+tb, rowsOfLiteral(init), p.TypesInfo)
			completeness(r, "R1.rows", "interpreter."+tb, seen, allNumberTags)
		} else {
			r.Undecided("R1.rows", "interpreter."+tb, "table does not resolve")
		}
	}
	r.Floor("R1.rows", 48)
	c17Acceptance(r)
	c17NilExact(r)
	c17FractionScale(r)
	c17InRange(r)
	c17HexPrefix(r)
	siblingRule(r, "R3.siblings", allFamilies, func(g string) bool {
		return g == "interpreter.(§0Value).ToBigEndianBytes" || g == "interpreter.New§0ValueFromBigEndianBytes" || g == "..(§0).ToBigEndianBytes"
	})
	r.Floor("R3.siblings", 12)
}

// c17Acceptance: R2 — which strings fromString accepts may depend only on signedness: every unsigned/Word integer row
// reaches a parse primitive that rejects a sign prefix (strconv.ParseUint, or a sign guard on input[0] before
// big.Int.SetString), every signed integer row one that accepts it (strconv.ParseInt / big.Int.SetString).
func c17Acceptance(r *core.Run) {
	w := r.W
	p := w.Pkg("interpreter")
	init := pkgVarInit(p, "StringValueParsers")
	if init == nil {
		return
	}
	info := p.TypesInfo
	classOf := func(fn *ssa.Function) (string, string) {
		if fn == nil {
			return "?", "parser generator does not resolve"
		}
		prims := map[string]bool{}
		guard := false
		seen := map[*ssa.Function]bool{}
		var visit func(f *ssa.Function, d int)
		visit = func(f *ssa.Function, d int) {
			if f == nil || seen[f] || len(f.Blocks) == 0 {
				return
			}
			seen[f] = true
			core.Instrs(f, true, func(in ssa.Instruction) {
				if bo, ok := in.(*ssa.BinOp); ok && (bo.Op == token.EQL || bo.Op == token.NEQ) {
					for _, v := range []ssa.Value{bo.X, bo.Y} {
						if c, ok := v.(*ssa.Const); ok && c.Value != nil && (c.Value.ExactString() == "43" || c.Value.ExactString() == "45") {
							guard = true
						}
					}
				}
				c, ok := in.(ssa.CallInstruction)
				if !ok {
					return
				}
				o := core.Callee(c)
				if o == nil || o.Pkg() == nil {
					return
				}
				switch {
				case o.Pkg().Path() == "strconv" && (o.Name() == "ParseUint" || o.Name() == "ParseInt"):
					prims[o.Name()] = true
				case o.Pkg().Path() == "math/big" && o.Name() == "SetString":
					prims["big.SetString"] = true
				default:
					if sf := core.StaticFn(c); core.InModFn(sf) && d < 2 {
						visit(sf, d+1)
					}
				}
			})
		}
		visit(fn, 0)
		desc := strings.Join(sortedKeys(prims), "+")
		if guard {
			desc += "+sign-guard"
		}
		switch {
		case len(prims) == 0:
			return "?", "no parse primitive reached"
		case guard || (prims["ParseUint"] && len(prims) == 1):
			return "rejects-sign", desc
		default:
			return "accepts-sign", desc
		}
	}
	for _, row := range rowsOfLiteral(init) {
		t := tagsOf(row, info)
		tag := t.tag()
		if tag == "" || strings.Contains(tag, "Fix") {
			continue
		}
		cl, ok := row.(*ast.CompositeLit)
		if !ok {
			continue
		}
		var gen *types.Func
		for _, el := range cl.Elts {
			kv, ok := el.(*ast.KeyValueExpr)
			if !ok {
				continue
			}
			if id, ok := kv.Key.(*ast.Ident); !ok || id.Name != "Parser" {
				continue
			}
			if call, ok := kv.Value.(*ast.CallExpr); ok {
				fun := call.Fun
				if ix, ok := fun.(*ast.IndexListExpr); ok {
					fun = ix.X
				}
				if ix, ok := fun.(*ast.IndexExpr); ok {
					fun = ix.X
				}
				if id, ok := fun.(*ast.Ident); ok {
					gen, _ = info.Uses[id].(*types.Func)
				}
			}
		}
		key := "interpreter.StringValueParsers[" + tag + "]: sign acceptance"
		if gen == nil {
			r.Undecided("R2.acceptance", key, "row's Parser is not a call of a parser generator function")
			continue
		}
		class, desc := classOf(w.Prog.FuncValue(gen))
		want := "accepts-sign"
		if strings.HasPrefix(tag, "UInt") || strings.HasPrefix(tag, "Word") {
			want = "rejects-sign"
		}
		r.Check(class == want, "R2.acceptance", key, row.Pos(), gen.Name()+" "+class+" ("+desc+")",
			"row of "+tag+" uses "+gen.Name()+", which "+class+" ("+desc+"); rows of its signedness class must be "+want+" (acceptance may not depend on the width)")
	}
	r.Floor("R2.acceptance", 20)
}

// c17NilExact: R4 — fromBigEndianBytes returns nil exactly for inputs longer than the type's size. In the closure built by
// NativeFromBigEndianBytesFunction every branch that decides between `return Nil` and the converted result must be one of:
// the error test of ByteArrayValueToByteSlice (argument is not a byte array), `byteLength != 0` (unbounded types), or
// `len(bytes) > byteLength`. Any other deciding condition (an emptiness test, `>=`, a second length) changes the nil set.
func c17NilExact(r *core.Run) {
	const rule = "R4.nilexact"
	outer := mustFn(r, rule, "interpreter", "", "NativeFromBigEndianBytesFunction")
	if outer == nil {
		return
	}
	if len(outer.AnonFuncs) != 1 || len(outer.Params) < 1 {
		r.Undecided(rule, core.SSAKey(outer), "expected one function literal and the byteLength parameter")
		return
	}
	fn := outer.AnonFuncs[0]
	lenParam := outer.Params[0]
	isNilRet := func(ret *ssa.Return) bool {
		if len(ret.Results) != 1 {
			return false
		}
		if u, ok := core.Unwrap(ret.Results[0]).(*ssa.UnOp); ok && u.Op == token.MUL {
			if g, ok := u.X.(*ssa.Global); ok && g.Name() == "Nil" {
				return true
			}
		}
		return false
	}
	var nilRets, someRets []*ssa.Return
	for _, b := range fn.Blocks {
		for _, in := range b.Instrs {
			if ret, ok := in.(*ssa.Return); ok {
				if isNilRet(ret) {
					nilRets = append(nilRets, ret)
				} else {
					someRets = append(someRets, ret)
				}
			}
		}
	}
	if len(nilRets) == 0 || len(someRets) == 0 {
		r.Undecided(rule, core.SSAKey(outer), "the function literal has no `return Nil` or no result return")
		return
	}
	reach := func(from *ssa.BasicBlock, rets []*ssa.Return) bool {
		seen := map[*ssa.BasicBlock]bool{}
		var walk func(b *ssa.BasicBlock) bool
		walk = func(b *ssa.BasicBlock) bool {
			if seen[b] {
				return false
			}
			seen[b] = true
			for _, rt := range rets {
				if rt.Block() == b {
					return true
				}
			}
			for _, s := range b.Succs {
				if walk(s) {
					return true
				}
			}
			return false
		}
		return walk(from)
	}
	isByteLength := func(v ssa.Value) bool {
		v = core.Unwrap(v)
		if cv, ok := v.(*ssa.Convert); ok {
			v = cv.X
		}
		return core.IsParamValue(v, lenParam)
	}
	isLenOfBytes := func(v ssa.Value) bool {
		v = core.Unwrap(v)
		if cv, ok := v.(*ssa.Convert); ok {
			v = cv.X
		}
		call, ok := v.(*ssa.Call)
		if !ok {
			return false
		}
		if b, ok := call.Call.Value.(*ssa.Builtin); !ok || b.Name() != "len" {
			return false
		}
		ex, ok := call.Call.Args[0].(*ssa.Extract)
		if !ok || ex.Index != 0 {
			return false
		}
		src, ok := ex.Tuple.(*ssa.Call)
		if !ok {
			return false
		}
		o := core.Callee(src)
		return o != nil && o.Name() == "ByteArrayValueToByteSlice"
	}
	isZero := func(v ssa.Value) bool {
		c, ok := v.(*ssa.Const)
		return ok && c.Value != nil && c.Value.ExactString() == "0"
	}
	n := 0
	for _, b := range fn.Blocks {
		if len(b.Instrs) == 0 {
			continue
		}
		iff, ok := b.Instrs[len(b.Instrs)-1].(*ssa.If)
		if !ok {
			continue
		}
		t, f := b.Succs[0], b.Succs[1]
		if reach(t, nilRets) == reach(f, nilRets) && reach(t, someRets) == reach(f, someRets) {
			continue // does not decide between nil and a result
		}
		n++
		key := core.SSAKey(outer) + ": deciding branch #" + strconv.Itoa(n)
		cond := iff.Cond
		for {
			if u, ok := cond.(*ssa.UnOp); ok && u.Op == token.NOT {
				cond = u.X
				continue
			}
			break
		}
		bo, ok := cond.(*ssa.BinOp)
		form := ""
		if ok {
			switch {
			case (bo.Op == token.NEQ || bo.Op == token.EQL) && (core.IsErrorType(bo.X.Type()) || core.IsErrorType(bo.Y.Type())):
				// the error must be the one of ByteArrayValueToByteSlice
				for _, v := range []ssa.Value{bo.X, bo.Y} {
					if ex, ok := v.(*ssa.Extract); ok {
						if src, ok := ex.Tuple.(*ssa.Call); ok {
							if o := core.Callee(src); o != nil && o.Name() == "ByteArrayValueToByteSlice" {
								form = "error test of ByteArrayValueToByteSlice"
							}
						}
					}
				}
			case bo.Op == token.NEQ && ((isByteLength(bo.X) && isZero(bo.Y)) || (isByteLength(bo.Y) && isZero(bo.X))):
				form = "byteLength != 0"
			case bo.Op == token.GTR && isLenOfBytes(bo.X) && isByteLength(bo.Y), bo.Op == token.LSS && isByteLength(bo.X) && isLenOfBytes(bo.Y):
				form = "len(bytes) > byteLength"
			}
		}
		r.Check(form != "", rule, key, cond.Pos(), form,
			"a condition other than the byte-array error, `byteLength != 0` or `len(bytes) > byteLength` decides whether nil is returned: fromBigEndianBytes must return nil exactly for inputs longer than the type's size")
	}
	r.Floor(rule, 3)
}

// signClassOf classifies a Go type by the signedness of the Cadence number (or native integer) it represents.
func signClassOf(t types.Type) (class string, bits int) {
	name := ""
	if nt, ok := t.(*types.Named); ok {
		name = strings.TrimSuffix(nt.Obj().Name(), "Value")
	} else if b, ok := t.(*types.Basic); ok {
		name = b.Name()
	}
	width := func(s string, def int) int {
		i := len(s)
		for i > 0 && s[i-1] >= '0' && s[i-1] <= '9' {
			i--
		}
		if i == len(s) {
			return def
		}
		n, _ := strconv.Atoi(s[i:])
		return n
	}
	switch {
	case strings.HasPrefix(name, "UFix"), strings.HasPrefix(name, "UInt"), strings.HasPrefix(name, "Word"), strings.HasPrefix(name, "uint"):
		return "unsigned", width(name, 64)
	case strings.HasPrefix(name, "Fix"), strings.HasPrefix(name, "Int"), strings.HasPrefix(name, "int"):
		return "signed", width(name, 64)
	}
	return "", 0
}

// c16Reinterpret: R4 — a conversion function never reinterprets the bits of a value across signedness without a range
// test: every Go conversion inside interpreter.Convert{Int,UInt,Fix,UFix}* whose source and target types have the same
// width but different signedness (uint64 → int64, fix.UFix128 → fix.Fix128, …) is dominated by a branch on the source
// value one of whose edges panics (the overflow / underflow test). Word targets are exempt: they reduce modulo 2^n.
func c16Reinterpret(r *core.Run) {
	const rule = "R4.reinterpret"
	w := r.W
	n := 0
	rootOf := func(v ssa.Value) ssa.Value {
		for {
			switch x := v.(type) {
			case *ssa.Convert:
				v = x.X
			case *ssa.ChangeType:
				v = x.X
			case *ssa.MakeInterface:
				v = x.X
			default:
				return v
			}
		}
	}
	for _, top := range w.SrcFuncsIn("interpreter") {
		if top.Parent() != nil || top.Signature.Recv() != nil || !strings.HasPrefix(top.Name(), "Convert") || strings.HasPrefix(top.Name(), "ConvertWord") {
			continue
		}
		if c, _ := signClassOf(namedResult(top)); c == "" {
			continue
		}
		var fns []*ssa.Function
		var collect func(f *ssa.Function)
		collect = func(f *ssa.Function) {
			fns = append(fns, f)
			for _, a := range f.AnonFuncs {
				collect(a)
			}
		}
		collect(top)
		for _, f := range fns {
			idx := 0
			for _, b := range f.Blocks {
				for _, in := range b.Instrs {
					var src ssa.Value
					var dst types.Type
					switch x := in.(type) {
					case *ssa.Convert:
						src, dst = x.X, x.Type()
					case *ssa.ChangeType:
						src, dst = x.X, x.Type()
					default:
						continue
					}
					sc, sb := signClassOf(src.Type())
					dc, db := signClassOf(dst)
					if sc == "" || dc == "" || sc == dc || sb != db {
						continue
					}
					if _, isConst := src.(*ssa.Const); isConst {
						continue
					}
					// conversions that only feed the guard itself (e.g. uint64(result) > Max) are not results: a conversion
					// is a reinterpretation if its class differs from the class of the root value it derives from
					root := rootOf(src)
					if rc, rb := signClassOf(root.Type()); rc == dc && rb == db {
						continue // converted forth and back: same class as the original value
					}
					idx++
					n++
					key := core.SSAKey(f) + ": " + types.TypeString(src.Type(), shortQual) + " -> " + types.TypeString(dst, shortQual) + " #" + itoa(idx)
					guarded := guardedBy(f, b, func(v ssa.Value) bool { return v == root || rootOf(v) == root })
					if !guarded && f.Parent() != nil {
						// the value is captured: the range test may sit in the enclosing function, before the closure is built
						var fv *ssa.FreeVar
						seen := map[ssa.Value]bool{}
						var find func(v ssa.Value, d int)
						find = func(v ssa.Value, d int) {
							if v == nil || seen[v] || d > 6 || fv != nil {
								return
							}
							seen[v] = true
							if x, ok := v.(*ssa.FreeVar); ok {
								fv = x
								return
							}
							if vi, ok := v.(ssa.Instruction); ok {
								for _, op := range vi.Operands(nil) {
									if op != nil && *op != nil {
										find(*op, d+1)
									}
								}
							}
						}
						find(src, 0)
						if fv != nil {
							fvi := -1
							for i, x := range f.FreeVars {
								if x == fv {
									fvi = i
								}
							}
							core.Instrs(f.Parent(), false, func(pin ssa.Instruction) {
								mc, ok := pin.(*ssa.MakeClosure)
								if !ok || mc.Fn != ssa.Value(f) || fvi < 0 || fvi >= len(mc.Bindings) {
									return
								}
								binding := mc.Bindings[fvi]
								if guardedBy(f.Parent(), mc.Block(), func(v ssa.Value) bool { return v == binding }) {
									guarded = true
								}
							})
						}
					}
					r.Check(guarded, rule, key, in.Pos(), "dominated by a range test on the source value with a failing edge",
						"the bits of a value are reinterpreted across signedness without a dominating range test: values outside the target range become valid-looking values of the other sign instead of an overflow/underflow error")
				}
			}
		}
	}
	r.Floor(rule, 6)
}

func shortQual(p *types.Package) string { return p.Name() }

func namedResult(f *ssa.Function) types.Type {
	res := f.Signature.Results()
	if res.Len() == 0 {
		return types.Typ[types.Invalid]
	}
	return res.At(0).Type()
}

// guardedBy: some block dominating b ends in a branch whose condition derives (through operands, depth 6) from a value
// accepted by isSrc and one of whose edges cannot return (panics).
func guardedBy(f *ssa.Function, b *ssa.BasicBlock, isSrc func(ssa.Value) bool) bool {
	for _, gb := range f.Blocks {
		if len(gb.Instrs) == 0 {
			continue
		}
		iff, ok := gb.Instrs[len(gb.Instrs)-1].(*ssa.If)
		if !ok || !gb.Dominates(b) {
			continue
		}
		panics := false
		for _, s := range gb.Succs {
			if core.Terminates(s) {
				panics = true
			}
		}
		if !panics {
			continue
		}
		seen := map[ssa.Value]bool{}
		var dep func(v ssa.Value, d int) bool
		dep = func(v ssa.Value, d int) bool {
			if v == nil || seen[v] || d > 6 {
				return false
			}
			seen[v] = true
			if isSrc(v) {
				return true
			}
			if vi, ok := v.(ssa.Instruction); ok {
				for _, op := range vi.Operands(nil) {
					if op != nil && *op != nil && dep(*op, d+1) {
						return true
					}
				}
			}
			return false
		}
		if dep(iff.Cond, 0) {
			return true
		}
	}
	return false
}

// c17FractionScale: R5 — the fixed-point range check compares like scales. The bounds handed to fixedpoint.CheckRange
// (Min/MaxFractional of the type) are expressed at the type's scale, the parsed fractional digits at the scale of the
// input ("92233720368.6" has fractional 6 at scale 1, the bound 54775807 at scale 8). Every call of CheckRange must
// therefore pass a fractional value produced by a scaling function (one that multiplies by a power of ten), or
// CheckRange must scale itself; a raw parsed fractional accepts out-of-range values whose Int64/Uint64 conversion wraps.
func c17FractionScale(r *core.Run) {
	const rule = "R5.scale"
	w := r.W
	isCheckRange := funcOf(mod+"/fixedpoint", "CheckRange")
	scales := func(fn *ssa.Function) bool {
		if fn == nil || len(fn.Blocks) == 0 {
			return false
		}
		exp, mul := false, false
		core.Instrs(fn, true, func(in ssa.Instruction) {
			if c, ok := in.(ssa.CallInstruction); ok {
				if o := core.Callee(c); o != nil && o.Pkg() != nil && o.Pkg().Path() == "math/big" {
					switch o.Name() {
					case "Exp":
						exp = true
					case "Mul":
						mul = true
					}
				}
			}
		})
		return exp && mul
	}
	n := 0
	for _, fn := range w.SrcFuncs() {
		if fn.Pkg == nil || !w.InScope(fn.Pkg.Pkg.Path()) {
			continue
		}
		for _, c := range core.CallsTo(fn, false, isCheckRange) {
			n++
			key := core.SSAKey(fn) + " -> fixedpoint.CheckRange: fractional argument"
			if scales(core.StaticFn(c)) {
				r.OK(rule, key, posOf(c), "CheckRange scales the fractional part itself")
				continue
			}
			args := c.Common().Args
			ok := false
			if len(args) >= 3 {
				if call, isCall := core.Unwrap(args[2]).(*ssa.Call); isCall && scales(core.StaticFn(call)) {
					ok = true
				}
			}
			r.Check(ok, rule, key, posOf(c), "the fractional part is brought to the scale of the bounds before the comparison",
				"the parsed fractional digits are compared with bounds of a different scale: e.g. Fix64.fromString(\"92233720368.6\") passes the range check (6 <= 54775807) and wraps to a negative value")
		}
	}
	r.Floor(rule, 2)
}

// signHazards: sign-sensitive Go operations inside the arithmetic methods of numeric value types — (a) a same-width conversion
// across signedness (uint64 ↔ int64, fix.UFix64 ↔ fix.Fix64, …) and (b) a negation of a signed native value (−x wraps for the
// minimum) — must be dominated by a branch on the operand with a failing edge. Unguarded sites of the reviewed tree are a
// recorded baseline (table); a new unguarded site is a violation.
func signHazards(r *core.Run, rule, table string, sel func(recv string, method string) bool) {
	w := r.W
	got := map[string]int{}
	n := 0
	rootOf := func(v ssa.Value) ssa.Value {
		for {
			switch x := v.(type) {
			case *ssa.Convert:
				v = x.X
			case *ssa.ChangeType:
				v = x.X
			case *ssa.MakeInterface:
				v = x.X
			default:
				return v
			}
		}
	}
	for _, rel := range []string{"interpreter", "values"} {
		for _, top := range w.SrcFuncsIn(rel) {
			if top.Parent() != nil || top.Signature.Recv() == nil {
				continue
			}
			_, recv := core.TypeName(top.Signature.Recv().Type())
			if !sel(recv, top.Name()) {
				continue
			}
			var fns []*ssa.Function
			var collect func(f *ssa.Function)
			collect = func(f *ssa.Function) {
				fns = append(fns, f)
				for _, a := range f.AnonFuncs {
					collect(a)
				}
			}
			collect(top)
			for _, f := range fns {
				for _, b := range f.Blocks {
					for _, in := range b.Instrs {
						var src ssa.Value
						kind := ""
						switch x := in.(type) {
						case *ssa.Convert:
							sc, sb := signClassOf(x.X.Type())
							dc, db := signClassOf(x.Type())
							if sc != "" && dc != "" && sc != dc && sb == db {
								if rc, rb := signClassOf(rootOf(x.X).Type()); !(rc == dc && rb == db) {
									src, kind = x.X, "conversion "+types.TypeString(x.X.Type(), shortQual)+"→"+types.TypeString(x.Type(), shortQual)
								}
							}
						case *ssa.ChangeType:
							sc, sb := signClassOf(x.X.Type())
							dc, db := signClassOf(x.Type())
							if sc != "" && dc != "" && sc != dc && sb == db {
								if rc, rb := signClassOf(rootOf(x.X).Type()); !(rc == dc && rb == db) {
									src, kind = x.X, "conversion "+types.TypeString(x.X.Type(), shortQual)+"→"+types.TypeString(x.Type(), shortQual)
								}
							}
						case *ssa.UnOp:
							if x.Op == token.SUB {
								if c, _ := signClassOf(x.X.Type()); c == "signed" {
									if _, isConst := x.X.(*ssa.Const); !isConst {
										src, kind = x.X, "negation"
									}
								}
							}
						}
						if src == nil {
							continue
						}
						if _, isConst := src.(*ssa.Const); isConst {
							continue
						}
						n++
						root := rootOf(src)
						guarded := guardedBy(f, b, func(v ssa.Value) bool { return v == root || rootOf(v) == root })
						if !guarded && f.Parent() != nil {
							// the operand is captured: look for the guard in the enclosing function, before the closure is built
							var fv *ssa.FreeVar
							seen := map[ssa.Value]bool{}
							var find func(v ssa.Value, d int)
							find = func(v ssa.Value, d int) {
								if v == nil || seen[v] || d > 6 || fv != nil {
									return
								}
								seen[v] = true
								if x, ok := v.(*ssa.FreeVar); ok {
									fv = x
									return
								}
								if vi, ok := v.(ssa.Instruction); ok {
									for _, op := range vi.Operands(nil) {
										if op != nil && *op != nil {
											find(*op, d+1)
										}
									}
								}
							}
							find(src, 0)
							if fv != nil {
								fvi := -1
								for i, x := range f.FreeVars {
									if x == fv {
										fvi = i
									}
								}
								core.Instrs(f.Parent(), false, func(pin ssa.Instruction) {
									mc, ok := pin.(*ssa.MakeClosure)
									if !ok || mc.Fn != ssa.Value(f) || fvi < 0 || fvi >= len(mc.Bindings) {
										return
									}
									binding := mc.Bindings[fvi]
									if guardedBy(f.Parent(), mc.Block(), func(v ssa.Value) bool { return v == binding }) {
										guarded = true
									}
								})
							}
						}
						if !guarded {
							got[core.SSAKey(top)+": unguarded "+kind]++
						}
					}
				}
			}
		}
	}
	if genMode() {
		genJSON(r, table, got)
		return
	}
	var base map[string]int
	if !r.Table(table, &base) {
		return
	}
	for _, k := range sortedKeys(got) {
		if got[k] <= base[k] {
			r.OK(rule, k, 0, "unguarded on the reviewed tree as well (recorded baseline: the operand's range is restricted by other means)")
		} else {
			r.Bad(rule, k, 0, "a sign-sensitive operation on an operand was added without a dominating range test: the minimum value negates to itself and the upper half of an unsigned range reads as negative, so boundary operands give wrapped results or the wrong error kind")
		}
	}
	r.OK(rule, "scan", 0, itoa(n)+" sign-sensitive operations examined")
	r.Floor(rule, 1)
}

// c16WordMagnitude: R7 — conversion to a Word type reduces the integer modulo 2^n, also for negative sources
// (Word8(-1) == 255). big.Int.Int64 (two's complement low bits) and big.Int.Mod (Euclidean, result in [0, m)) are
// sign-preserving reductions; the magnitude accessors Uint64 / Bits / Bytes / FillBytes / Abs drop the sign and reduce
// |x| instead of x. Inside the ConvertWord* functions a magnitude accessor is only acceptable under a dominating test
// of the value's sign.
func c16WordMagnitude(r *core.Run) {
	const rule = "R7.magnitude"
	w := r.W
	magnitude := map[string]bool{"Uint64": true, "Bits": true, "Bytes": true, "FillBytes": true, "Abs": true}
	reducing := map[string]bool{"Int64": true, "Mod": true}
	nRed := 0
	for _, top := range w.SrcFuncsIn("interpreter") {
		if top.Parent() != nil || top.Signature.Recv() != nil || !strings.HasPrefix(top.Name(), "ConvertWord") {
			continue
		}
		for _, f := range core.WithAnon(top) {
			for _, b := range f.Blocks {
				for _, in := range b.Instrs {
					c, ok := in.(ssa.CallInstruction)
					if !ok {
						continue
					}
					sc := c.Common().StaticCallee()
					if sc == nil || sc.Pkg == nil || sc.Pkg.Pkg.Path() != "math/big" || sc.Signature.Recv() == nil || len(c.Common().Args) == 0 {
						continue
					}
					if reducing[sc.Name()] {
						nRed++
						r.OK(rule, core.SSAKey(top)+": big.Int."+sc.Name(), c.Pos(), "sign-preserving reduction")
						continue
					}
					if !magnitude[sc.Name()] {
						continue
					}
					recv := c.Common().Args[0]
					signTested := false
					for _, gb := range f.Blocks {
						if len(gb.Instrs) == 0 || !gb.Dominates(b) || gb == b {
							continue
						}
						iff, ok := gb.Instrs[len(gb.Instrs)-1].(*ssa.If)
						if !ok {
							continue
						}
						seen := map[ssa.Value]bool{}
						var dep func(v ssa.Value, d int) bool
						dep = func(v ssa.Value, d int) bool {
							if v == nil || seen[v] || d > 6 {
								return false
							}
							seen[v] = true
							if cl, ok := v.(*ssa.Call); ok {
								if o := cl.Call.StaticCallee(); o != nil && o.Name() == "Sign" && len(cl.Call.Args) > 0 &&
									core.OriginLeaves(cl.Call.Args[0]) == core.OriginLeaves(recv) {
									return true
								}
							}
							if vi, ok := v.(ssa.Instruction); ok {
								for _, op := range vi.Operands(nil) {
									if op != nil && *op != nil && dep(*op, d+1) {
										return true
									}
								}
							}
							return false
						}
						if dep(iff.Cond, 0) {
							signTested = true
						}
					}
					r.Check(signTested, rule, core.SSAKey(top)+": big.Int."+sc.Name(), c.Pos(), "magnitude accessor under a dominating sign test",
						"a Word conversion reads the magnitude of a big integer (big.Int."+sc.Name()+") without a dominating test of its sign: a negative source is reduced as |x| mod 2^n instead of x mod 2^n")
				}
			}
		}
	}
	r.Check(nRed >= 3, rule, "interpreter.ConvertWord*: sign-preserving reductions", 0, itoa(nRed)+" found", "the reductions of the Word conversions were not found")
	r.Floor(rule, 3)
}

// c16PlainNeverRounds: R8 — a conversion without a rounding rule truncates; the *WithRounding conversions have a different
// contract for values below the target's resolution (they report an underflow where truncation yields zero, and clamp
// where truncation overflows). A plain Convert<T> function must therefore never reach a *WithRounding function.
func c16PlainNeverRounds(r *core.Run) {
	const rule = "R8.plainround"
	w := r.W
	n := 0
	for _, top := range w.SrcFuncsIn("interpreter") {
		if top.Parent() != nil || top.Signature.Recv() != nil || !strings.HasPrefix(top.Name(), "Convert") || strings.HasSuffix(top.Name(), "WithRounding") {
			continue
		}
		if c, _ := signClassOf(namedResult(top)); c == "" && !strings.HasPrefix(top.Name(), "ConvertWord") {
			continue
		}
		n++
		var hit ssa.Instruction
		core.Instrs(top, true, func(in ssa.Instruction) {
			if hit != nil {
				return
			}
			if _, isCall := in.(ssa.CallInstruction); !isCall {
				return
			}
			if core.CallReaches(in, func(c ssa.CallInstruction) bool {
				sc := c.Common().StaticCallee()
				return sc != nil && strings.HasSuffix(sc.Name(), "WithRounding")
			}, 2) {
				hit = in
			}
		})
		pos := top.Pos()
		if hit != nil {
			pos = hit.Pos()
		}
		r.Check(hit == nil, rule, core.SSAKey(top), pos, "does not reach a *WithRounding conversion",
			"a conversion without rounding rule goes through a *WithRounding conversion: values below the target's resolution abort with an underflow instead of truncating to zero")
	}
	r.Floor(rule, 20)
}

// c17InRange: R6 — the range check of the big-integer fromString parsers (interpreter.inRange) accepts exactly the closed
// interval [low, high]: decided on the complete set of comparison outcomes (CMPSET), so any spelling of the two tests
// is accepted and any change of an endpoint's inclusiveness is reported. T.fromString(T.max.toString()) must be T.max
// for the 128/256-bit types as it is for the strconv-parsed narrower ones.
func c17InRange(r *core.Run) {
	const rule = "R6.inrange"
	fn := mustFn(r, rule, "interpreter", "", "inRange")
	if fn == nil {
		return
	}
	keys, acc, ok := core.CmpAcceptance(fn)
	if !ok || len(keys) != 2 || len(fn.Params) != 3 {
		r.Undecided(rule, "interpreter.inRange", "not a function of two three-way comparisons of its parameters")
		return
	}
	// which key compares against low (param#1) and which against high (param#2)
	lowIdx, highIdx := -1, -1
	for i, k := range keys {
		if strings.Contains(k, "param#0:") && strings.Contains(k, "param#1:") {
			lowIdx = i
		}
		if strings.Contains(k, "param#0:") && strings.Contains(k, "param#2:") {
			highIdx = i
		}
	}
	if lowIdx < 0 || highIdx < 0 || lowIdx == highIdx {
		r.Undecided(rule, "interpreter.inRange", "comparisons are not val⋚low and val⋚high: "+strings.Join(keys, "; "))
		return
	}
	// orientation: Cmp(val, bound) or Cmp(bound, val)
	sign := func(k string) int64 {
		if strings.Index(k, "param#0:") < strings.Index(k, "param#1:") || strings.Index(k, "param#0:") < strings.Index(k, "param#2:") {
			return 1
		}
		return -1
	}
	for label, got := range acc {
		parts := strings.Split(label, ",")
		var cs [2]int64
		for i, p := range parts {
			switch p {
			case "-1":
				cs[i] = -1
			case "1":
				cs[i] = 1
			}
		}
		cl := cs[lowIdx] * sign(keys[lowIdx])   // sign of val - low
		ch := cs[highIdx] * sign(keys[highIdx]) // sign of val - high
		want := cl >= 0 && ch <= 0
		r.Check(got == want, rule, "interpreter.inRange: val-low "+cmpWord(cl)+", val-high "+cmpWord(ch), fn.Pos(),
			"accepts exactly low <= val <= high", "the range check of the big-integer string parsers "+acceptWord(got)+" this ordering but the closed interval [low, high] "+acceptWord(want)+" it: fromString of a bound (T.min / T.max) of the 128/256-bit types differs from the narrower types")
	}
	r.Floor(rule, 9)
}

func cmpWord(c int64) string {
	switch {
	case c < 0:
		return "< 0"
	case c > 0:
		return "> 0"
	}
	return "== 0"
}

func acceptWord(b bool) string {
	if b {
		return "accepts"
	}
	return "rejects"
}

// c17HexPrefix: R7 — the string constructors strip a fixed prefix ("0x") with a prefix operation. strings.TrimLeft /
// TrimRight / Trim take a *set of characters*: with a cutset of two or more characters they also strip repetitions and
// permutations ("0x0x01", "0xx1", any number of leading zeros), so which strings are accepted — and whether an over-long
// input is rejected — would depend on the value of its digits. Every cutset trim with a constant cutset of more than
// one character in the value packages is reported; HexToAddress must strip its prefix with TrimPrefix / CutPrefix.
func c17HexPrefix(r *core.Run) {
	const rule = "R7.hexprefix"
	w := r.W
	nTrim := 0
	for _, rel := range []string{"common", "interpreter", "stdlib", "values"} {
		for _, fn := range w.SrcFuncsIn(rel) {
			if fn.Parent() != nil {
				continue
			}
			for _, c := range core.Calls(fn, true) {
				sc := c.Common().StaticCallee()
				if sc == nil || sc.Pkg == nil || sc.Pkg.Pkg.Path() != "strings" || len(c.Common().Args) != 2 {
					continue
				}
				switch sc.Name() {
				case "TrimLeft", "TrimRight", "Trim":
					nTrim++
					cs, isConst := c.Common().Args[1].(*ssa.Const)
					multi := !isConst || cs.Value == nil || len([]rune(constant.StringVal(cs.Value))) > 1
					r.Check(!multi, rule, core.SSAKey(fn)+": strings."+sc.Name(), c.Pos(), "cutset of a single character",
						"strings."+sc.Name()+" with a cutset of several characters strips any mix and repetition of them, not a prefix: malformed and over-long inputs are accepted depending on their digits")
				}
			}
		}
	}
	if fn := mustFn(r, rule, "common", "", "HexToAddress"); fn != nil {
		pre := core.CallsTo(fn, true, func(o *types.Func) bool {
			return o != nil && o.Pkg() != nil && o.Pkg().Path() == "strings" && (o.Name() == "TrimPrefix" || o.Name() == "CutPrefix" || o.Name() == "HasPrefix")
		})
		r.Check(len(pre) > 0, rule, "common.HexToAddress: prefix operation", fn.Pos(), "strips 0x with a prefix operation", "HexToAddress no longer strips its 0x prefix with a prefix operation")
	}
	r.Floor(rule, 2)
}
