package rules

import (
	"go/ast"
	"go/types"
	"strings"

	"golang.org/x/tools/go/ssa"

	"cadcheck/core"
)

func init() { register("C52", c52) }

// evalCallsByField: within fd, the calls named callName whose single expression argument is a selector `x.Field`;
// returns field name -> source positions in order of appearance.
func evalCallOrder(fd *ast.FuncDecl, callNames map[string]bool) []string {
	var order []string
	ast.Inspect(fd.Body, func(n ast.Node) bool {
		call, ok := n.(*ast.CallExpr)
		if !ok {
			return true
		}
		name := ""
		switch f := call.Fun.(type) {
		case *ast.SelectorExpr:
			name = f.Sel.Name
		case *ast.Ident:
			name = f.Name
		}
		if !callNames[name] {
			return true
		}
		for _, a := range call.Args {
			if sel, ok := a.(*ast.SelectorExpr); ok {
				order = append(order, sel.Sel.Name)
			}
		}
		return true
	})
	return order
}

func indexOf(xs []string, s string) int {
	for i, x := range xs {
		if x == s {
			return i
		}
	}
	return -1
}

func c52(r *core.Run) {
	r.Explanation = "Decided clauses: (R1) child expressions are evaluated (interpreter) / compiled (compiler) in the order the language defines: binary left before right, dictionary entry key before value, conditional test before its branches, index target before index, assignment target before assigned value; " +
		"(R2) short-circuit: for ||, && and ?? the right operand is evaluated only after a test of the left operand's value — the interpreter's arm returns on the deciding left value before calling the right-operand thunk, and the compiler emits a conditional jump between the code of the left and the right operand."
	r.NotDecided = "exactly-once evaluation under all nesting; VM jump targets; argument evaluation order through desugared code."
	w := r.W
	evalNames := map[string]bool{"evalExpression": true, "compileExpression": true}
	type ord struct{ rel, recv, fn, first, second string }
	for _, o := range []ord{
		{"interpreter", "Interpreter", "VisitDictionaryExpression", "Key", "Value"},
		{"interpreter", "Interpreter", "VisitConditionalExpression", "Test", "Then"},
		{"interpreter", "Interpreter", "VisitConditionalExpression", "Test", "Else"},
		{"bbq/compiler", "Compiler", "VisitDictionaryExpression", "Key", "Value"},
		{"bbq/compiler", "Compiler", "VisitConditionalExpression", "Test", "Then"},
		{"bbq/compiler", "Compiler", "VisitBinaryExpression", "Left", "Right"},
	} {
		fd, _ := w.Decl(w.FuncObj(o.rel, o.recv, o.fn))
		key := o.rel + ".(" + o.recv + ")." + o.fn + ": " + o.first + " before " + o.second
		if fd == nil {
			r.Undecided("R1.order", key, "visitor does not resolve")
			continue
		}
		seq := evalCallOrder(fd, evalNames)
		i, j := indexOf(seq, o.first), indexOf(seq, o.second)
		r.Check(i >= 0 && j >= 0 && i < j, "R1.order", key, fd.Pos(), "sub-expressions are visited in source order "+strings.Join(seq, ","),
			"the "+o.second+" sub-expression is evaluated/compiled before (or without) the "+o.first+" sub-expression: "+strings.Join(seq, ","))
	}
	// interpreter binary: Left evaluated eagerly, Right only inside the thunk
	if fd, _ := w.Decl(w.FuncObj("interpreter", "Interpreter", "VisitBinaryExpression")); fd != nil {
		leftEager, rightInThunk, rightEager := false, false, false
		var walk func(n ast.Node, inLit bool)
		walk = func(n ast.Node, inLit bool) {
			ast.Inspect(n, func(m ast.Node) bool {
				if fl, ok := m.(*ast.FuncLit); ok && m != n {
					walk(fl.Body, true)
					return false
				}
				if call, ok := m.(*ast.CallExpr); ok {
					if sel, ok := call.Fun.(*ast.SelectorExpr); ok && sel.Sel.Name == "evalExpression" && len(call.Args) == 1 {
						if a, ok := call.Args[0].(*ast.SelectorExpr); ok {
							switch {
							case a.Sel.Name == "Left" && !inLit:
								leftEager = true
							case a.Sel.Name == "Right" && inLit:
								rightInThunk = true
							case a.Sel.Name == "Right" && !inLit:
								rightEager = true
							}
						}
					}
				}
				return true
			})
		}
		walk(fd.Body, false)
		r.Check(leftEager && rightInThunk && !rightEager, "R1.order", "interpreter.(Interpreter).VisitBinaryExpression: left eager, right deferred", fd.Pos(),
			"the left operand is evaluated first; the right operand only through the thunk", "the right operand is evaluated eagerly (before the operator decides whether it is needed)")
	} else {
		r.Undecided("R1.order", "interpreter.(Interpreter).VisitBinaryExpression", "does not resolve")
	}
	// assignment: the target's sub-expressions (indexed value, index) are evaluated before the assigned value — in the
	// interpreter the target's getter/setter is resolved before anything evaluates the value
	if fn := mustFn(r, "R1.order", "interpreter", "Interpreter", "VisitAssignmentStatement"); fn != nil {
		var targets, values []ssa.CallInstruction
		for _, c := range core.Calls(fn, false) {
			if o := core.Callee(c); o != nil {
				switch o.Name() {
				case "assignmentGetterSetter":
					targets = append(targets, c)
				case "evalExpression", "visitAssignment":
					values = append(values, c)
				}
			}
		}
		ok := len(targets) > 0 && len(values) > 0
		for _, v := range values {
			dom := false
			for _, t := range targets {
				if core.Dominates(t, v) {
					dom = true
				}
			}
			if !dom {
				ok = false
			}
		}
		r.Check(ok, "R1.order", "interpreter.(Interpreter).VisitAssignmentStatement: target before value", fn.Pos(), "the target is resolved before the value is evaluated on every path",
			"the assigned value is evaluated on a path that has not resolved the target yet: `xs[i()] = v()` runs v() before i() in the interpreter, the VM evaluates the target first")
	}
	r.Floor("R1.order", 8)

	// R2 short circuit
	ip := w.Pkg("interpreter")
	if fd, _ := w.Decl(w.FuncObj("interpreter", "Interpreter", "VisitBinaryExpression")); fd != nil {
		for _, op := range []string{"OperationOr", "OperationAnd", "OperationNilCoalesce"} {
			ok := false
			ast.Inspect(fd.Body, func(n ast.Node) bool {
				cc, isCC := n.(*ast.CaseClause)
				if !isCC {
					return true
				}
				match := false
				for _, e := range cc.List {
					if sel, isSel := e.(*ast.SelectorExpr); isSel && sel.Sel.Name == op {
						match = true
					}
				}
				if !match {
					return true
				}
				// the last call of the right-operand thunk must come after a statement that can leave the clause
				// (return) under a condition on the left value
				lastRight := ast.Node(nil)
				ast.Inspect(cc, func(m ast.Node) bool {
					if call, isCall := m.(*ast.CallExpr); isCall {
						if id, isID := call.Fun.(*ast.Ident); isID && id.Name == "rightValue" {
							lastRight = call
						}
					}
					return true
				})
				if lastRight == nil {
					return false
				}
				for _, st := range cc.Body {
					if st.End() > lastRight.Pos() {
						break
					}
					ifs, isIf := st.(*ast.IfStmt)
					if !isIf {
						continue
					}
					returns := false
					ast.Inspect(ifs.Body, func(m ast.Node) bool {
						if _, isRet := m.(*ast.ReturnStmt); isRet {
							returns = true
						}
						return true
					})
					// for ?? the deciding statement is an if/else whose else branch evaluates the right operand
					if returns || (ifs.Else != nil && op == "OperationNilCoalesce") {
						ok = true
					}
				}
				if op == "OperationNilCoalesce" && !ok {
					// shape: `if some { result = ... } else { result = rightValue() }`
					ast.Inspect(cc, func(m ast.Node) bool {
						if ifs, isIf := m.(*ast.IfStmt); isIf && ifs.Else != nil {
							inElse := lastRight.Pos() >= ifs.Else.Pos() && lastRight.End() <= ifs.Else.End()
							if inElse {
								ok = true
							}
						}
						if sw, isSw := m.(*ast.TypeSwitchStmt); isSw && lastRight.Pos() >= sw.Pos() && lastRight.End() <= sw.End() {
							ok = true
						}
						return true
					})
				}
				return false
			})
			r.Check(ok, "R2.shortcircuit", "interpreter.(Interpreter).VisitBinaryExpression[case "+op+"]", fd.Pos(),
				"the right operand's thunk is called only after a branch on the left value", "the right operand is evaluated without a preceding decision on the left value")
		}
	}
	cp := w.Pkg("bbq/compiler")
	if fd, _ := w.Decl(w.FuncObj("bbq/compiler", "Compiler", "VisitBinaryExpression")); fd != nil {
		for _, op := range []string{"OperationOr", "OperationAnd", "OperationNilCoalesce"} {
			ok := false
			ast.Inspect(fd.Body, func(n ast.Node) bool {
				cc, isCC := n.(*ast.CaseClause)
				if !isCC {
					return true
				}
				match := false
				for _, e := range cc.List {
					if sel, isSel := e.(*ast.SelectorExpr); isSel && sel.Sel.Name == op {
						match = true
					}
				}
				if !match {
					return true
				}
				jumpSeen := false
				for _, st := range cc.Body {
					ast.Inspect(st, func(m ast.Node) bool {
						call, isCall := m.(*ast.CallExpr)
						if !isCall {
							return true
						}
						sel, isSel := call.Fun.(*ast.SelectorExpr)
						if !isSel {
							return true
						}
						if strings.HasPrefix(sel.Sel.Name, "emitUndefinedJumpIf") {
							jumpSeen = true
						}
						if sel.Sel.Name == "compileExpression" && len(call.Args) == 1 {
							if a, isA := call.Args[0].(*ast.SelectorExpr); isA && a.Sel.Name == "Right" && jumpSeen {
								ok = true
							}
						}
						return true
					})
				}
				return false
			})
			r.Check(ok, "R2.shortcircuit", "bbq/compiler.(Compiler).VisitBinaryExpression[case "+op+"]", fd.Pos(),
				"a conditional jump is emitted before the right operand's code", "the right operand's code is emitted without a preceding conditional jump: it always runs")
		}
	}
	r.Floor("R2.shortcircuit", 6)
	_ = ip
	_ = cp
	_ = types.Typ
}
