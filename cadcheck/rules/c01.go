package rules

import (
	"encoding/json"
	"fmt"
	"go/types"
	"os"
	"strings"

	"golang.org/x/tools/go/ssa"

	"cadcheck/core"
)

func init() { register("C01", c01) }

type errClasses struct {
	user, internal, interpErr, rtErr *types.Interface
	external, externalNon            types.Type
}

func loadErrClasses(r *core.Run) *errClasses {
	w := r.W
	get := func(rel, name string) *types.Interface {
		n := w.Named(rel, name)
		if n == nil {
			r.Undecided("anchors", rel+"."+name, "marker interface does not resolve")
			return nil
		}
		it, _ := n.Underlying().(*types.Interface)
		return it
	}
	ec := &errClasses{
		user: get("errors", "UserError"), internal: get("errors", "InternalError"),
	}
	if n := w.Named("errors", "ExternalError"); n != nil {
		ec.external = n
	}
	if n := w.Named("errors", "ExternalNonError"); n != nil {
		ec.externalNon = n
	}
	if ec.user == nil || ec.internal == nil || ec.external == nil {
		return nil
	}
	return ec
}

func implEither(t types.Type, it *types.Interface) bool {
	if it == nil {
		return false
	}
	if types.Implements(t, it) {
		return true
	}
	if _, isPtr := t.(*types.Pointer); !isPtr {
		return types.Implements(types.NewPointer(t), it)
	}
	return false
}

// classify returns the error class of a static type thrown by panic: user, internal, external, or "".
func (ec *errClasses) classify(t types.Type) string {
	if it, ok := t.Underlying().(*types.Interface); ok {
		// an interface-typed operand: classified if the interface itself embeds a marker
		switch {
		case ec.user != nil && types.Implements(t, ec.user) && it.NumMethods() > 0:
			return "user"
		case ec.internal != nil && types.Implements(t, ec.internal) && it.NumMethods() > 0:
			return "internal"
		}
		return "iface"
	}
	base := t
	if p, ok := t.(*types.Pointer); ok {
		base = p.Elem()
	}
	if types.Identical(base, ec.external) || types.Identical(base, ec.externalNon) {
		return "external"
	}
	u, i := implEither(t, ec.user), implEither(t, ec.internal)
	switch {
	case u && i:
		return "both"
	case u:
		return "user"
	case i:
		return "internal"
	}
	return ""
}

// recoverTable is the reviewed classification of every recover() site of the pinned tree:
// key = enclosing declared function, value = expected arm summary and why it is acceptable.
var recoverTable = map[string][2]string{
	"bbq/vm.(VM).RecoverErrors":                                    {"errors.UserError:absorb; errors.ExternalError:absorb; default:absorb", "boundary: hands every recovered value to the error handler"},
	"bbq/vm.convertAndBoxArguments":                                {"*interpreter.ValueTransferTypeError:repanic; default:repanic", "bookkeeping: always re-panics"},
	"encoding/ccf.(Decoder).Decode":                                {"runtime.Error:repanic; errors.InternalError:repanic; error:absorb; default:repanic", "codec boundary: converts user errors to a returned error, re-panics crashers"},
	"encoding/ccf.(Encoder).Encode":                                {"runtime.Error:repanic; errors.InternalError:repanic; error:absorb; default:repanic", "codec boundary"},
	"encoding/json.(Decoder).Decode":                               {"error:absorb; default:repanic", "codec boundary: every error panic becomes a returned decoding error"},
	"encoding/json.(Encoder).Encode":                               {"runtime.Error:repanic; error:absorb; default:repanic", "codec boundary"},
	"errors.WrapPanic":                                             {"runtime.Error:repanic; errors.InternalError:repanic; error:repanic; default:repanic", "bookkeeping: wraps and always re-panics"},
	"interpreter.(Interpreter).RecoverErrors":                      {"default:absorb", "boundary: hands every recovered value to the error handler"},
	"interpreter.(Interpreter).invokeInterpretedFunctionActivated": {"default:repanic", "bookkeeping: always re-panics"},
	"interpreter.transferArguments":                                {"*interpreter.ValueTransferTypeError:repanic; default:repanic", "bookkeeping: always re-panics"},
	"interpreter.checkValue":                                       {"errors.UserError:absorb; errors.ExternalError:absorb; golang.org/x/xerrors.Wrapper:absorb; default:repanic", "filter for storage iteration: user errors mean a broken stored value (skipped); ExternalError absorption is C28 known finding F5"},
	"old_parser.ParseTokenStream":                                  {"old_parser.ParseError:absorb; errors.InternalError:repanic; errors.UserError:repanic; error:repanic; default:repanic", "old parser boundary (contract-update validation only)"},
	"old_parser.defineLessThanOrTypeArgumentsExpression":           {"errors.MemoryMeteringError:repanic; default:absorb", "parser backtracking: a failed speculative parse is replayed"},
	"old_parser/lexer.(lexer).run":                                 {"errors.MemoryMeteringError:repanic; errors.InternalError:repanic; error:absorb; default:absorb", "lexer boundary: errors become error tokens"},
	"parser.ParseTokenStream":                                      {"parser.ParseError:absorb; errors.UserError:absorb; errors.InternalError:absorb; error:absorb; default:absorb", "parser boundary: every panic becomes a returned error"},
	"parser.defineLessThanOrTypeArgumentsExpression":               {"errors.MemoryMeteringError:repanic; default:absorb", "parser backtracking: a failed speculative parse is replayed"},
	"parser/lexer.(lexer).run":                                     {"error:absorb; default:absorb", "lexer boundary: errors become error tokens"},
	"pretty.(ErrorPrettyPrinter).PrettyPrintError":                 {"runtime.Error:repanic; error:absorb; default:absorb", "printer boundary (not on an execution path)"},
	"runtime.(REPL).Accept":                                        {"runtime.Error:repanic; error:absorb; default:absorb", "REPL boundary (not an embedding entry point)"},
	"runtime.Recover":                                              {"default:absorb", "THE runtime boundary: GetWrappedError classifies, unknown values become UnexpectedError"},
	"runtime.UserPanicToError":                                     {"error:absorb; default:repanic", "filter: returns user errors, re-panics internal/external, wraps the rest as UnexpectedError"},
	"sema.(Checker).Check":                                         {"sema.stopChecking:absorb; default:absorb", "checker boundary: every panic becomes a returned error"},
	"stdlib.nativeAccountContractsTryUpdateFunction":               {"errors.UserError:absorb; errors.ExternalError:absorb; golang.org/x/xerrors.Wrapper:absorb; default:repanic", "documented tryUpdate exception: failures inside the update become an unsuccessful deployment result"},
}

// latentSaturating are the recover()-based delegating wrappers of (type, op) pairs the checker does not declare:
// they swallow any non-InvalidOperandsError panic; unreachable from accepted programs (DESIGN §6 L1).
const latentSaturatingSummary = "*interpreter.InvalidOperandsError:repanic; default:absorb"

func isLatentSaturating(key string) bool {
	return strings.HasPrefix(key, "interpreter.(") && strings.Contains(key, "Value).Saturating")
}

func checkRecoverTable(r *core.Run, rule string) {
	w := r.W
	seen := map[string]int{}
	for _, s := range w.RecoverSites() {
		k := core.SSAKey(s.Decl)
		seen[k]++
		key := k
		if seen[k] > 1 {
			key = fmt.Sprintf("%s#%d", k, seen[k])
		}
		sum := s.Summary()
		if isLatentSaturating(k) {
			// allowed only in the exact known shape, and only for undeclared (type, op) pairs (C13.R3 checks the declaration side)
			r.Check(sum == latentSaturatingSummary, rule, key, s.Call.Pos(),
				"LATENT (allow-listed): saturating wrapper of an operation the checker does not declare for this type; re-panics InvalidOperandsError, absorbs the delegate's overflow",
				"recover in saturating wrapper changed shape: "+sum)
			continue
		}
		exp, ok := recoverTable[key]
		if !ok {
			r.Bad(rule, key, s.Call.Pos(), "new, unclassified recover() site (arms: "+sum+"): it must be reviewed as boundary / filter / bookkeeping before it is trusted")
			continue
		}
		r.Check(sum == exp[0], rule, key, s.Call.Pos(), exp[1]+" ["+sum+"]",
			"recover() arms changed: now ["+sum+"], reviewed ["+exp[0]+"] — a type that was re-panicked is absorbed (or vice versa)")
	}
	for k := range recoverTable {
		if seen[k] == 0 {
			r.Note("reviewed recover site %s no longer exists", k)
		}
	}
}

func c01(r *core.Run) {
	r.Explanation = "Decided clauses: (R1) every panic in shipped code throws a classified value: a concrete type implementing errors.UserError or errors.InternalError " +
		"(exactly one of them), errors.ExternalError/ExternalNonError, or a propagated error/any value; never a string, a fmt.Errorf/errors.New result or an unmarked struct " +
		"(which runtime.GetWrappedError would report as an internal UnexpectedError); every error type of the module carries exactly one marker; " +
		"(R2) every embedding entry point of runtime that runs user code defers runtime.Recover before any other call; " +
		"(R3) every recover() site has the reviewed arm summary (which dynamic types are absorbed, which re-panicked): none absorbs a Go runtime.Error or an InternalError except the reviewed boundaries, and new sites are violations until classified; " +
		"(R6) no raw VM.locals / Upvalue.closed slot value is pushed on the VM operand stack without maybeUnwrapImplicitReference (an ImplicitReferenceValue there fails a Go type assertion, i.e. an internal error); " +
		"(R7) every ExternalInterface method converts a non-nil host error with WrappedExternalError (an unwrapped host error is reported as an internal error)."
	r.NotDecided = "type soundness (that defensive internal-error checks never fire for checker-accepted programs) and VM/interpreter parity: these need generated programs."
	w := r.W
	ec := loadErrClasses(r)
	if ec == nil {
		return
	}
	// ---- R1 panic classification
	// reviewed baseline of unclassified panics of the pinned tree: key -> {count, reason}
	var baseline map[string]struct {
		Count  int    `json:"count"`
		Reason string `json:"reason"`
	}
	if !r.Table("c01_unclassified_panics", &baseline) {
		return
	}
	used := map[string]int{}
	n := 0
	for _, fn := range w.SrcFuncs() {
		if fn.Parent() != nil || fn.Pkg == nil {
			continue
		}
		rel := core.RelPkg(fn.Pkg.Pkg.Path())
		if strings.HasPrefix(rel, "old_parser") || rel == "pretty" || rel == "format" {
			continue
		}
		for _, ps := range core.Panics(fn, true) {
			n++
			key := core.SSAKey(fn) + ": panic(" + typeShort(ps.Type) + ")"
			cl := ec.classify(ps.Type)
			switch cl {
			case "user", "internal", "external":
				r.OK("R1.panic", key, ps.Instr.Pos(), "classified "+cl)
			case "both":
				r.Bad("R1.panic", key, ps.Instr.Pos(), "thrown type implements both UserError and InternalError")
			case "iface":
				// propagated value: must not be a freshly made unclassified error
				if c, ok := ps.Val.(*ssa.Call); ok {
					if o := core.Callee(c); o != nil && o.Pkg() != nil && (o.Pkg().Path() == "fmt" || (o.Pkg().Path() == "errors" && o.Name() == "New")) {
						if b, ok := baseline[key]; ok && used[key] < b.Count {
							used[key]++
							r.OK("R1.panic", key, ps.Instr.Pos(), "reviewed assertion/boundary-internal panic: "+b.Reason)
						} else {
							r.Bad("R1.panic", key, ps.Instr.Pos(), "panics with a fresh unclassified error ("+core.FuncKey(o)+"): the runtime reports it as an internal UnexpectedError")
						}
						continue
					}
				}
				r.OK("R1.panic", key, ps.Instr.Pos(), "propagated value of interface type")
			default:
				if b, ok := baseline[key]; ok && used[key] < b.Count {
					used[key]++
					r.OK("R1.panic", key, ps.Instr.Pos(), "reviewed assertion/boundary-internal panic: "+b.Reason)
				} else {
					r.Bad("R1.panic", key, ps.Instr.Pos(), "panics with an unclassified value of type "+typeShort(ps.Type)+" (neither UserError, InternalError nor ExternalError)")
				}
			}
		}
	}
	r.Floor("R1.panic", 1500)
	c01ErrorClasses(r, ec)
	c01Boundary(r)
	// (the module-wide error-discipline baseline formerly registered here as R4 was withdrawn: a swallowed error is not an
	// internal error, so the rule is not a necessary condition of C01; it remains, scoped to their functions, under C41–C45)
	// R5 library error mappers are exhaustive: an unmapped fixed-point library error would be re-panicked as a raw Go error,
	// i.e. surface as an internal UnexpectedError for a user-reachable condition
	fixSaturation(r)
	checkRecoverTable(r, "R3.recover")
	r.Floor("R3.recover", 30)
	// R6 VM-internal wrapper values never reach the operand stack (a Go type-assertion panic there is an internal error)
	vmImplicitRefRule(r, "R6.implicitref")
	// R7 host errors are classified as external: the wrapper shape of runtime.ExternalInterface (shared with C28.R1)
	externalWrapperRule(r, "R7.hostwrap")
	r.Floor("R7.hostwrap", 40)
	// R8 engine twins fail alike: removing an attachment that is not attached is a no-op in both engines (shared with C49.R2)
	removeAbsentIsNoop(r, "R8.twins")
	r.Floor("R8.twins", 2)
}

func typeShort(t types.Type) string {
	return types.TypeString(t, func(p *types.Package) string {
		if p == nil {
			return ""
		}
		return core.RelPkg(p.Path())
	})
}

// preDeferOK are the reviewed calls that may run before the deferred Recover of an entry point.
var preDeferOK = map[string]string{
	"runtime.NewCodesAndPrograms":                   "allocates two empty maps",
	"bbq/vm.(VM).Context":                           "field getter",
	"runtime.(scriptExecutor).Preprocess":           "sync.Once wrapper around preprocess, which has its own deferred Recover",
	"runtime.(transactionExecutor).Preprocess":      "sync.Once wrapper around preprocess, which has its own deferred Recover",
	"runtime.(contractFunctionExecutor).Preprocess": "sync.Once wrapper around preprocess, which has its own deferred Recover",
}

// c01Boundary: R2 — every runtime function that defers runtime.Recover does so before any call that can
// run user code or host code, and the reviewed entry points all have one.
func c01Boundary(r *core.Run) {
	w := r.W
	isRecover := funcOf(mod+"/runtime", "Recover")
	entry := map[string]bool{
		"runtime.(runtime).ParseAndCheckProgram": true, "runtime.(runtime).ReadStored": true,
		"runtime.(scriptExecutor).preprocess": true, "runtime.(scriptExecutor).execute": true, "runtime.(scriptExecutor).executeWithVM": true,
		"runtime.(transactionExecutor).preprocess": true, "runtime.(transactionExecutor).execute": true, "runtime.(transactionExecutor).executeWithVM": true,
		"runtime.(contractFunctionExecutor).preprocess": true, "runtime.(contractFunctionExecutor).execute": true,
	}
	found := map[string]bool{}
	for _, fn := range w.SrcFuncsIn("runtime") {
		if fn.Parent() != nil {
			continue
		}
		var def *ssa.Defer
		for _, c := range core.CallsTo(fn, false, isRecover) {
			if d, ok := c.(*ssa.Defer); ok && def == nil {
				def = d
			}
		}
		k := core.SSAKey(fn)
		if def == nil {
			continue
		}
		found[k] = true
		// calls not dominated by the defer
		var early []string
		for _, c := range core.Calls(fn, false) {
			if c == ssa.CallInstruction(def) || core.Dominates(def, c) {
				continue
			}
			if _, isDefer := c.(*ssa.Defer); isDefer {
				continue
			}
			o := core.Callee(c)
			if o == nil {
				early = append(early, "dynamic call")
				continue
			}
			if o.Pkg() == nil || !core.InMod(o.Pkg().Path()) {
				continue
			}
			if preDeferOK[core.FuncKey(o)] != "" {
				continue
			}
			early = append(early, core.FuncKey(o))
		}
		r.Check(len(early) == 0, "R2.boundary", k, def.Pos(), "defer runtime.Recover precedes every module call of the function",
			"calls executed before (or not dominated by) the deferred runtime.Recover: "+strings.Join(early, ", "))
	}
	for k := range entry {
		if !found[k] {
			r.Bad("R2.boundary", k, 0, "reviewed entry point no longer defers runtime.Recover (a panic would escape the embedding API)")
		}
	}
	r.Floor("R2.boundary", 10)
}

// c01ErrorClasses: every named error type of the module keeps the marker class it has on the pinned tree
// (a user error that loses IsUserError() would surface as an internal UnexpectedError); new error types need a marker.
func c01ErrorClasses(r *core.Run, ec *errClasses) {
	var pinned map[string]string
	if !r.Table("c01_error_classes", &pinned) {
		return
	}
	w := r.W
	gen := os.Getenv("CADCHECK_GEN_TABLES") != ""
	out := map[string]string{}
	for _, p := range w.Roots {
		if !core.InMod(p.PkgPath) {
			continue
		}
		sc := p.Types.Scope()
		for _, name := range sc.Names() {
			tn, ok := sc.Lookup(name).(*types.TypeName)
			if !ok || tn.IsAlias() {
				continue
			}
			nt, ok := tn.Type().(*types.Named)
			if !ok || nt.TypeParams().Len() > 0 {
				continue
			}
			if _, isIface := nt.Underlying().(*types.Interface); isIface {
				continue
			}
			if !implEither(nt, errorIface) {
				continue
			}
			cl := ec.classify(nt)
			if cl == "" {
				// pointer receiver markers
				cl = ec.classify(types.NewPointer(nt))
			}
			if cl == "" {
				cl = "none"
			}
			key := core.RelPkg(p.PkgPath) + "." + name
			out[key] = cl
			if gen {
				continue
			}
			exp, known := pinned[key]
			switch {
			case known && exp == cl:
				r.OK("R1.class", key, tn.Pos(), "error class "+cl+" as on the pinned tree")
			case known:
				r.Bad("R1.class", key, tn.Pos(), "error type changed class: pinned "+exp+", now "+cl+" (runtime.GetWrappedError / IsUserError would classify its failures differently)")
			case cl == "none" || cl == "both":
				r.Bad("R1.class", key, tn.Pos(), "new error type without exactly one of the UserError/InternalError markers")
			default:
				r.OK("R1.class", key, tn.Pos(), "new error type with class "+cl)
			}
		}
	}
	if gen {
		b, _ := json.MarshalIndent(out, "", " ")
		_ = os.WriteFile(r.VerifDir+"/tables/c01_error_classes.json", b, 0o644)
		return
	}
	r.Floor("R1.class", 400)
}

var errorIface = types.Universe.Lookup("error").Type().Underlying().(*types.Interface)

// c01ErrorDiscipline: R4 — module-wide: the error result of a call to a module function (or to atree / the
// fixed-point library) is not dropped, overwritten before being tested, or swallowed on its non-nil edge, except at the
// sites reviewed on the pinned tree (tables/c01_error_baseline.json: "caller -> callee" -> count). A failure that is
// silently ignored lets execution continue on inconsistent state and typically ends in a Go run-time panic.
func c01ErrorDiscipline(r *core.Run) {
	errDiscipline(r, "R4.errdrop", "module-wide scan", nil, 1000)
}

// errDiscipline: ERR engine over a set of functions (nil = whole module): every call of an error-returning module/atree/fixed-point
// function whose error is dropped, overwritten before being tested, or swallowed on its non-nil edge must be one of the sites
// recorded for the pinned tree (tables/c01_error_baseline.json, keyed caller -> callee). Properties share the rule restricted
// to the functions that implement them, so that a swallowed failure in those files is reported under the property it breaks.
func errDiscipline(r *core.Run, rule, what string, inScope func(fn *ssa.Function) bool, floor int) {
	w := r.W
	got := map[string]int{}
	total := 0
	for _, fn := range w.SrcFuncs() {
		if fn.Parent() != nil || fn.Pkg == nil || !w.InScope(fn.Pkg.Pkg.Path()) {
			continue
		}
		if inScope != nil && !inScope(fn) {
			continue
		}
		for _, c := range core.Calls(fn, true) {
			if !core.ReturnsError(c) {
				continue
			}
			o := core.Callee(c)
			if o == nil || o.Pkg() == nil {
				continue
			}
			pp := o.Pkg().Path()
			if !(core.InMod(pp) || pp == atreePath || pp == fixPath) {
				continue
			}
			if _, isDefer := c.(*ssa.Defer); isDefer {
				continue
			}
			total++
			fl := core.FollowErr(c)
			if fl.Dropped || len(fl.Sinks) == 0 || fl.Swallow != nil {
				got[core.SSAKey(fn)+" -> "+core.FuncKey(o)]++
			}
		}
	}
	if genMode() {
		if inScope == nil {
			genJSON(r, "c01_error_baseline", got)
		}
		return
	}
	var base map[string]int
	if !r.Table("c01_error_baseline", &base) {
		return
	}
	for _, k := range sortedKeys(got) {
		if got[k] <= base[k] {
			r.OK(rule, k, 0, "baseline site(s) of the pinned tree where the error is not propagated ("+itoa(got[k])+"; recorded, not individually justified)")
		} else {
			r.Bad(rule, k, 0, "the error result of this call is now dropped, overwritten before being tested, or swallowed on its non-nil edge ("+itoa(got[k])+" site(s), "+itoa(base[k])+" in the pinned baseline): a failure is silently ignored")
		}
	}
	r.Check(total >= floor, rule, what, 0, itoa(total)+" error-returning calls of module/atree/fixed-point functions scanned", "only "+itoa(total)+" error-returning calls scanned, expected at least "+itoa(floor)+": the scanned functions moved")
	r.Floor(rule, 1)
}
