package rules

import (
	"go/ast"
	"go/token"
	"go/types"
	"sort"
	"strings"

	"golang.org/x/tools/go/ssa"

	"cadcheck/core"
)

// arithmetic error kinds of interest, compared by class across the interpreter.* and values.* families
var arithKinds = map[string]bool{"OverflowError": true, "UnderflowError": true, "DivisionByZeroError": true, "NegativeShiftError": true}

// thrownKinds collects the arithmetic error kinds a function can raise: types constructed in panic operands of
// the function, its closures and its static module callees (depth<=2), plus, for panic(err) where err is the error
// result of a module callee, the kinds that callee returns.
func thrownKinds(w *core.World, fn *ssa.Function, depth int) map[string]bool {
	out := map[string]bool{}
	seen := map[*ssa.Function]bool{}
	var visit func(f *ssa.Function, d int)
	addType := func(t types.Type) {
		pkg, name := core.TypeName(t)
		if arithKinds[name] && (pkg == mod+"/interpreter" || pkg == mod+"/values") {
			out[name] = true
		}
	}
	returned := func(g *ssa.Function) {
		// kinds returned in error positions by g and its static module callees (depth 2)
		rs := map[*ssa.Function]bool{}
		var rv func(h *ssa.Function, d int)
		rv = func(h *ssa.Function, d int) {
			if h == nil || rs[h] || len(h.Blocks) == 0 {
				return
			}
			rs[h] = true
			for _, ret := range core.Returns(h) {
				for _, res := range ret.Results {
					if !core.IsErrorType(res.Type()) {
						continue
					}
					v := core.Unwrap(res)
					addType(v.Type())
					if ph, ok := v.(*ssa.Phi); ok {
						for _, e := range ph.Edges {
							addType(core.Unwrap(e).Type())
						}
					}
				}
			}
			if d < 2 {
				for _, c := range core.Calls(h, true) {
					if sf := core.StaticFn(c); core.InModFn(sf) {
						rv(sf, d+1)
					}
				}
			}
		}
		rv(g, 0)
	}
	visit = func(f *ssa.Function, d int) {
		if f == nil || seen[f] || len(f.Blocks) == 0 {
			return
		}
		seen[f] = true
		for _, ps := range core.Panics(f, true) {
			if _, isIface := ps.Type.Underlying().(*types.Interface); !isIface {
				addType(ps.Type)
				continue
			}
			// panic(err): where does err come from?
			v := core.Origin(ps.Val)
			if ex, ok := v.(*ssa.Extract); ok {
				v = ex.Tuple
			}
			if c, ok := v.(*ssa.Call); ok {
				if sf := c.Common().StaticCallee(); core.InModFn(sf) {
					returned(sf)
				}
			}
		}
		if d >= depth {
			return
		}
		for _, c := range core.Calls(f, true) {
			sf := core.StaticFn(c)
			if !core.InModFn(sf) {
				continue
			}
			visit(sf, d+1)
		}
	}
	visit(fn, 0)
	return out
}

func kindSet(ks ...string) string {
	sort.Strings(ks)
	return strings.Join(ks, ",")
}

func kindsOf(m map[string]bool) string {
	var ks []string
	for k := range m {
		ks = append(ks, strings.TrimSuffix(k, "Error"))
	}
	return kindSet(ks...)
}

// signatureRule compares thrown kinds of recv.method against want ("" = none).
func signatureRule(r *core.Run, rule, recv, method, want string) {
	fn := r.W.Fn("interpreter", recv, method)
	key := "interpreter.(" + recv + ")." + method
	if fn == nil || len(fn.Blocks) == 0 {
		r.Undecided(rule, key, "method does not resolve")
		return
	}
	got := kindsOf(thrownKinds(r.W, fn, 3))
	r.Check(got == want, rule, key, fn.Pos(), "raises exactly {"+want+"}",
		"arithmetic error kinds raised are {"+got+"}, the property requires {"+want+"}")
}

// ---- zero divisor guard -------------------------------------------------

var bigDivMethods = map[string]bool{"Quo": true, "Rem": true, "Div": true, "Mod": true, "QuoRem": true, "DivMod": true}

// zeroDivisorRule: in every function of the given packages selected by pick, each integer division/remainder by a
// non-constant divisor is syntactically dominated by an if whose condition tests a root variable of the divisor with
// == and whose body ends in panic/return of a DivisionByZero kind.
func zeroDivisorRule(r *core.Run, rule string, rels []string, pick func(key string) bool) {
	w := r.W
	for _, rel := range rels {
		p := w.Pkg(rel)
		if p == nil {
			r.Undecided(rule, rel, "package not loaded")
			continue
		}
		info := p.TypesInfo
		for _, fd := range w.FuncDeclsIn(rel) {
			key := core.DeclKey(p, fd)
			if !pick(key) {
				continue
			}
			// local single definitions: var -> defining expression
			defs := map[*types.Var]ast.Expr{}
			ast.Inspect(fd, func(n ast.Node) bool {
				if as, ok := n.(*ast.AssignStmt); ok && as.Tok == token.DEFINE && len(as.Lhs) == len(as.Rhs) {
					for i, l := range as.Lhs {
						if id, ok := l.(*ast.Ident); ok {
							if v, ok := info.Defs[id].(*types.Var); ok {
								defs[v] = as.Rhs[i]
							}
						}
					}
				}
				return true
			})
			roots := func(e ast.Expr) map[*types.Var]bool {
				out := map[*types.Var]bool{}
				var add func(e ast.Expr, d int)
				add = func(e ast.Expr, d int) {
					for _, v := range core.RootVars(e, info) {
						if out[v] {
							continue
						}
						out[v] = true
						if de, ok := defs[v]; ok && d < 4 {
							add(de, d+1)
						}
					}
				}
				add(e, 0)
				return out
			}
			// candidate guards
			type guard struct {
				stmt *ast.IfStmt // head of chain (dominance anchor)
				call ast.Stmt    // or: call statement of a guard helper
				vars map[*types.Var]bool
			}
			var guards []guard
			ast.Inspect(fd, func(n ast.Node) bool {
				ifs, ok := n.(*ast.IfStmt)
				if !ok {
					return true
				}
				for _, link := range core.IfChain(ifs) {
					thrown, ends := core.EndsInPanicOrReturn(link.Body)
					if !ends || thrown == nil {
						continue
					}
					_, tn := core.ExprTypeName(core.StripConv(thrown, info), info)
					if ue, ok := thrown.(*ast.UnaryExpr); ok && ue.Op == token.AND {
						_, tn = core.ExprTypeName(ue.X, info)
					}
					if tn != "DivisionByZeroError" {
						continue
					}
					// condition must contain an == comparison
					hasEq := false
					ast.Inspect(link.Cond, func(m ast.Node) bool {
						if be, ok := m.(*ast.BinaryExpr); ok && be.Op == token.EQL {
							hasEq = true
						}
						return true
					})
					if !hasEq {
						continue
					}
					guards = append(guards, guard{stmt: ifs, vars: roots(link.Cond)})
				}
				return true
			})
			// guard helpers: a call statement `helper(x)` of a module function whose body is such a zero test on its parameter
			ast.Inspect(fd, func(n ast.Node) bool {
				es, ok := n.(*ast.ExprStmt)
				if !ok {
					return true
				}
				call, ok := es.X.(*ast.CallExpr)
				if !ok {
					return true
				}
				var callee *types.Func
				switch fx := call.Fun.(type) {
				case *ast.Ident:
					callee, _ = info.Uses[fx].(*types.Func)
				case *ast.SelectorExpr:
					callee, _ = info.Uses[fx.Sel].(*types.Func)
				}
				hd, hp := w.Decl(callee)
				if hd == nil || hd.Body == nil || hd.Type.Params == nil {
					return true
				}
				// parameters tested against zero with a DivisionByZero outcome inside the helper
				var pnames []*types.Var
				for _, f := range hd.Type.Params.List {
					for _, nm := range f.Names {
						if v, ok := hp.TypesInfo.Defs[nm].(*types.Var); ok {
							pnames = append(pnames, v)
						}
					}
				}
				ast.Inspect(hd.Body, func(m ast.Node) bool {
					ifs, ok := m.(*ast.IfStmt)
					if !ok {
						return true
					}
					thrown, ends := core.EndsInPanicOrReturn(ifs.Body)
					if !ends || thrown == nil {
						return true
					}
					t := thrown
					if ue, ok := t.(*ast.UnaryExpr); ok && ue.Op == token.AND {
						t = ue.X
					}
					if _, tn := core.ExprTypeName(core.StripConv(t, hp.TypesInfo), hp.TypesInfo); tn != "DivisionByZeroError" {
						return true
					}
					for _, rv := range core.RootVars(ifs.Cond, hp.TypesInfo) {
						for i, pv := range pnames {
							if rv == pv && i < len(call.Args) {
								// the helper guards argument i: a pseudo guard anchored at the call statement
								guards = append(guards, guard{stmt: nil, call: es, vars: roots(call.Args[i])})
							}
						}
					}
					return true
				})
				return true
			})
			check := func(site ast.Node, divisor ast.Expr, what string) {
				d := core.StripConv(divisor, info)
				ckey := key + ": " + what + " by " + types.ExprString(d)
				if core.IsConst(d, info) {
					return // constant (non-zero by compilation: Go rejects constant division by zero)
				}
				// package-level variables of the module (sema.*Big bounds, factors) are initialised once to non-zero values
				if sel, ok := d.(*ast.SelectorExpr); ok {
					if v, ok := info.Uses[sel.Sel].(*types.Var); ok && !v.IsField() && v.Pkg() != nil && v.Parent() == v.Pkg().Scope() && core.InMod(v.Pkg().Path()) {
						r.OK(rule, ckey, site.Pos(), "divisor is the package-level bound "+types.ExprString(sel)+" (initialised once, non-zero)")
						return
					}
				}
				if id, ok := d.(*ast.Ident); ok {
					if v, ok := info.Uses[id].(*types.Var); ok {
						if by := nonZeroByContext(fd, site, v, info); by != "" {
							r.OK(rule, ckey, site.Pos(), "divisor proven non-zero by the enclosing condition "+by)
							return
						}
					}
				}
				dr := roots(d)
				for _, g := range guards {
					shared := false
					for v := range dr {
						if g.vars[v] {
							shared = true
						}
					}
					var anchor ast.Stmt = g.call
					if g.stmt != nil {
						anchor = g.stmt
					}
					if shared && core.SynDominates(fd, anchor, site) {
						r.OK(rule, ckey, site.Pos(), "dominated by the zero test at "+w.Pos(anchor.Pos())+" raising DivisionByZeroError")
						return
					}
				}
				r.Bad(rule, ckey, site.Pos(), "division/remainder whose divisor is not tested against zero (with a DivisionByZeroError outcome) on every path: a zero divisor would be a Go run-time panic, i.e. an internal error")
			}
			ast.Inspect(fd, func(n ast.Node) bool {
				switch x := n.(type) {
				case *ast.BinaryExpr:
					if x.Op == token.QUO || x.Op == token.REM {
						if tv, ok := info.Types[x]; ok && tv.Value == nil {
							if b, ok := tv.Type.Underlying().(*types.Basic); ok && b.Info()&types.IsInteger != 0 {
								check(x, x.Y, x.Op.String())
							}
						}
					}
				case *ast.AssignStmt:
					if (x.Tok == token.QUO_ASSIGN || x.Tok == token.REM_ASSIGN) && len(x.Rhs) == 1 {
						if tv, ok := info.Types[x.Lhs[0]]; ok {
							if b, ok := tv.Type.Underlying().(*types.Basic); ok && b.Info()&types.IsInteger != 0 {
								check(x, x.Rhs[0], x.Tok.String())
							}
						}
					}
				case *ast.CallExpr:
					if sel, ok := x.Fun.(*ast.SelectorExpr); ok && bigDivMethods[sel.Sel.Name] {
						if f, ok := info.Uses[sel.Sel].(*types.Func); ok && f.Pkg() != nil && f.Pkg().Path() == "math/big" && core.RecvName(f) == "Int" && len(x.Args) >= 2 {
							check(x, x.Args[1], "big.Int."+sel.Sel.Name)
						}
					}
				}
				return true
			})
		}
	}
}

// ---- own constants -------------------------------------------------------

// ownConstRule: inside functions whose key names family member T, every reference to a width-specific bound
// (math.Max*/Min*, sema.*TypeMinInt*/MaxInt*, sema.*TypeMaxIntPlusOne*, sema.*TypeSize) names T itself.
func ownConstRule(r *core.Run, rule string, fams []*core.Family, rels []string, pick func(key string) bool) {
	w := r.W
	type tagInfo struct{ tag, digits string }
	for _, rel := range rels {
		p := w.Pkg(rel)
		if p == nil {
			continue
		}
		info := p.TypesInfo
		for _, fd := range w.FuncDeclsIn(rel) {
			key := core.DeclKey(p, fd)
			if !pick(key) {
				continue
			}
			var own *core.FamilyMember
			for _, fam := range fams {
				for i, m := range fam.Members {
					if keyHasTag(key, m.Tag) {
						own = &fam.Members[i]
					}
				}
			}
			if own == nil {
				continue
			}
			ast.Inspect(fd.Body, func(n ast.Node) bool {
				sel, ok := n.(*ast.SelectorExpr)
				if !ok {
					return true
				}
				obj := info.Uses[sel.Sel]
				if obj == nil || obj.Pkg() == nil {
					return true
				}
				name := obj.Name()
				var named string // the member the constant belongs to
				switch obj.Pkg().Path() {
				case "math":
					for _, pre := range []string{"MaxInt", "MinInt", "MaxUint"} {
						if strings.HasPrefix(name, pre) && len(name) > len(pre) {
							d := name[len(pre):]
							if pre == "MaxUint" {
								named = "U" + d
							} else {
								named = "S" + d
							}
						}
					}
				case mod + "/sema":
					for _, suf := range []string{"TypeMinInt", "TypeMaxInt", "TypeMinIntBig", "TypeMaxIntBig", "TypeMaxIntPlusOneBig", "TypeSize"} {
						if strings.HasSuffix(name, suf) {
							named = "T" + strings.TrimSuffix(name, suf)
						}
					}
				}
				if named == "" {
					return true
				}
				ckey := key + ": " + types.ExprString(sel)
				digits := strings.TrimLeft(own.Tag, "UIntWord")
				ok2 := false
				switch named[0] {
				case 'S':
					ok2 = named[1:] == digits && strings.HasPrefix(own.Tag, "Int")
				case 'U':
					ok2 = named[1:] == digits && (strings.HasPrefix(own.Tag, "UInt") || strings.HasPrefix(own.Tag, "Word"))
				case 'T':
					ok2 = named[1:] == own.Tag
				}
				r.Check(ok2, rule, ckey, sel.Pos(), "bound belongs to the function's own type "+own.Tag,
					"function of "+own.Tag+" uses the bound of another width/type: "+types.ExprString(sel))
				return true
			})
		}
	}
}

func keyHasTag(key, tag string) bool {
	idx := 0
	for {
		i := strings.Index(key[idx:], tag)
		if i < 0 {
			return false
		}
		i += idx
		end := i + len(tag)
		okBefore := i == 0 || !(key[i-1] == 'U' || key[i-1] == 'u')
		okAfter := end >= len(key) || !(key[end] >= '0' && key[end] <= '9')
		if okBefore && okAfter {
			return true
		}
		idx = end
		if idx >= len(key) {
			return false
		}
	}
}

// nonZeroByContext: the site lies in the body of an if (or to the right of an &&) one of whose conjuncts is
// `v > 0`, `v < 0`, `v != 0` (or mirrored) for exactly this variable.
func nonZeroByContext(fd *ast.FuncDecl, site ast.Node, v *types.Var, info *types.Info) string {
	path := core.PathTo(fd, site)
	isTest := func(e ast.Expr) bool {
		be, ok := core.StripConv(e, info).(*ast.BinaryExpr)
		if !ok || (be.Op != token.GTR && be.Op != token.LSS && be.Op != token.NEQ) {
			return false
		}
		isZero := func(x ast.Expr) bool {
			tv, ok := info.Types[x]
			return ok && tv.Value != nil && tv.Value.String() == "0"
		}
		isV := func(x ast.Expr) bool {
			id, ok := core.StripConv(x, info).(*ast.Ident)
			return ok && info.Uses[id] == v
		}
		return (isV(be.X) && isZero(be.Y)) || (isV(be.Y) && isZero(be.X))
	}
	var conj func(e ast.Expr) []ast.Expr
	conj = func(e ast.Expr) []ast.Expr {
		e2 := e
		for {
			if p, ok := e2.(*ast.ParenExpr); ok {
				e2 = p.X
				continue
			}
			break
		}
		if be, ok := e2.(*ast.BinaryExpr); ok && be.Op == token.LAND {
			return append(conj(be.X), conj(be.Y)...)
		}
		return []ast.Expr{e2}
	}
	for i := len(path) - 2; i >= 0; i-- {
		child := path[i+1]
		switch x := path[i].(type) {
		case *ast.IfStmt:
			if child == ast.Node(x.Body) {
				for _, c := range conj(x.Cond) {
					if isTest(c) {
						return types.ExprString(c)
					}
				}
			}
		case *ast.BinaryExpr:
			if x.Op == token.LAND && child == ast.Node(x.Y) {
				for _, c := range conj(x.X) {
					if isTest(c) {
						return types.ExprString(c)
					}
				}
			}
		}
	}
	return ""
}

// signatureRange: the kinds raised must include every kind of must and nothing outside must ∪ may.
func signatureRange(r *core.Run, rule, recv, method string, must, may []string) {
	fn := r.W.Fn("interpreter", recv, method)
	key := "interpreter.(" + recv + ")." + method
	if fn == nil || len(fn.Blocks) == 0 {
		r.Undecided(rule, key, "method does not resolve")
		return
	}
	got := thrownKinds(r.W, fn, 3)
	allowed := map[string]bool{}
	bad := ""
	for _, k := range must {
		allowed[k+"Error"] = true
		if !got[k+"Error"] {
			bad = "never raises " + k
		}
	}
	for _, k := range may {
		allowed[k+"Error"] = true
	}
	for k := range got {
		if !allowed[k] {
			bad = "raises " + k + ", which the property does not allow for this operation"
		}
	}
	r.Check(bad == "", rule, key, fn.Pos(), "raises {"+kindsOf(got)+"} within must {"+kindSet(must...)+"} may {"+kindSet(may...)+"}", bad)
}

// euclidRule: signed fixed-point code must divide with truncation toward zero (big.Int.Quo / Rem), the rounding of the
// plain operators and of every other fixed-point type. big.Int.Div / Mod / DivMod implement Euclidean division, which
// differs exactly for negative operands with an inexact quotient (-1.5 → -2). Every call of the Euclidean methods in a
// function of the signed fixed-point value types (receiver Fix64Value / Fix128Value, or a helper named after them) must be
// listed in tables/fix_euclid_reviewed with the reason why its rounding does not matter.
func euclidRule(r *core.Run, rule string, inScope func(fn *ssa.Function) bool, minFns, minQuo int) {
	w := r.W
	reviewed := map[string]string{}
	if !r.Table("fix_euclid_reviewed", &reviewed) {
		return
	}
	used := map[string]bool{}
	nFns, nQuo := 0, 0
	for _, fn := range w.SrcFuncs() {
		if fn.Parent() != nil || fn.Pkg == nil {
			continue
		}
		pp := fn.Pkg.Pkg.Path()
		if pp != mod+"/interpreter" && pp != mod+"/values" && pp != mod+"/fixedpoint" {
			continue
		}
		recv := core.RecvName0(fn)
		lname := strings.ToLower(fn.Name())
		signedFix := recv == "Fix64Value" || recv == "Fix128Value" ||
			((strings.Contains(lname, "fix64") || strings.Contains(lname, "fix128")) && !strings.Contains(lname, "ufix"))
		if !signedFix || !inScope(fn) {
			continue
		}
		nFns++
		for _, c := range core.Calls(fn, true) {
			sc := c.Common().StaticCallee()
			if sc == nil || sc.Pkg == nil || sc.Pkg.Pkg.Path() != "math/big" || sc.Signature.Recv() == nil {
				continue
			}
			if !strings.Contains(sc.Signature.Recv().Type().String(), "big.Int") {
				continue
			}
			switch sc.Name() {
			case "Quo", "Rem", "QuoRem":
				nQuo++
			case "Div", "Mod", "DivMod":
				key := core.SSAKey(fn) + ": big.Int." + sc.Name()
				if why, ok := reviewed[key]; ok {
					used[key] = true
					r.OK(rule, key, c.Pos(), "reviewed: "+why)
					continue
				}
				r.Bad(rule, key, c.Pos(), "signed fixed-point code divides with Euclidean rounding (big.Int."+sc.Name()+"): for a negative operand with an inexact quotient the result is rounded away from zero instead of truncated (-1.5 → -2)")
			}
		}
	}
	r.Check(nFns >= minFns && nQuo >= minQuo, rule, "signed fixed-point functions examined", 0, itoa(nFns)+" functions, "+itoa(nQuo)+" truncating divisions", "fewer signed fixed-point functions / truncating divisions than reviewed")
	r.Floor(rule, 1)
}

// isFixArithmetic: the arithmetic methods of a fixed-point value type (the plain operators and their saturating variants).
func isFixArithmetic(fn *ssa.Function) bool {
	switch fn.Name() {
	case "Plus", "Minus", "Mul", "Div", "Mod", "Negate":
		return true
	}
	return strings.HasPrefix(fn.Name(), "Saturating")
}
