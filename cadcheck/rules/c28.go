package rules

import (
	"go/token"
	"go/types"
	"sort"
	"strings"

	"golang.org/x/tools/go/ssa"

	"cadcheck/core"
)

func init() { register("C28", c28) }

// hostMethods returns name -> signature for every method of runtime.Interface (embedded interfaces included).
func hostMethods(r *core.Run) map[string]*types.Signature {
	out := map[string]*types.Signature{}
	n := r.W.Named("runtime", "Interface")
	if n == nil {
		r.Undecided("anchors", "runtime.Interface", "type does not resolve")
		return out
	}
	it := n.Underlying().(*types.Interface)
	for i := 0; i < it.NumMethods(); i++ {
		m := it.Method(i)
		out[m.Name()] = m.Type().(*types.Signature)
	}
	return out
}

func sameSig(a, b *types.Signature) bool {
	return types.Identical(types.NewSignatureType(nil, nil, nil, a.Params(), a.Results(), a.Variadic()),
		types.NewSignatureType(nil, nil, nil, b.Params(), b.Results(), b.Variadic()))
}

func sigReturnsError(s *types.Signature) bool {
	for i := 0; i < s.Results().Len(); i++ {
		if core.IsErrorType(s.Results().At(i).Type()) {
			return true
		}
	}
	return false
}

// isHostCall: interface-dispatched call of a method that the host Interface provides (same name and signature),
// or of an atree.Ledger method; or a static call of an ExternalInterface wrapper.
func isHostCallee(host map[string]*types.Signature) func(*types.Func) bool {
	return func(o *types.Func) bool {
		if o == nil {
			return false
		}
		sig, _ := o.Type().(*types.Signature)
		if sig == nil || sig.Recv() == nil || !sigReturnsError(sig) {
			return false
		}
		rt := sig.Recv().Type()
		_, isIface := rt.Underlying().(*types.Interface)
		if !isIface {
			return core.RecvName(o) == "ExternalInterface" && o.Pkg().Path() == mod+"/runtime"
		}
		if o.Pkg() != nil && o.Pkg().Path() == atreePath && core.RecvName(o) == "Ledger" {
			return true
		}
		if o.Pkg() == nil || !core.InMod(o.Pkg().Path()) {
			return false
		}
		hs, ok := host[o.Name()]
		return ok && sameSig(hs, sig)
	}
}

func c28(r *core.Run) {
	r.Explanation = "Decided clauses: (R1) every method of runtime.ExternalInterface forwards to the same-named method of the wrapped Interface inside errors.WrapPanic, " +
		"passes its parameters unchanged and in order, and, when it returns an error, converts a non-nil error with interpreter.WrappedExternalError on every returning path; " +
		"all six runtime entry points install the wrapper; (R2) every call, anywhere in shipped code, of a host-backed interface method returning an error " +
		"(methods of runtime.Interface, of atree.Ledger, and of any module interface whose method has the name and signature of a runtime.Interface method) has its error value " +
		"flow to a sink (panic, return, store, handler call) and no return on the error's non-nil edge drops it; documented exceptions are listed one symbol each; " +
		"(R3) recover() sites that can absorb an ExternalError are only the reviewed ones."
	r.NotDecided = "outcomes under per-call-index fault injection; host calls made through function values (e.g. the EmitEvent method value handed to EmitEventFields) are followed only inside the function that receives them."
	w := r.W
	host := hostMethods(r)

	externalWrapperRule(r, "R1.wrapper")
	r.Floor("R1.wrapper", 40)

	// entry points install the wrapper
	for _, e := range []string{"NewScriptExecutor", "NewContractFunctionExecutor", "NewTransactionExecutor", "ParseAndCheckProgram", "Storage", "ReadStored"} {
		fn := mustFn(r, "R1.install", "runtime", "runtime", e)
		if fn == nil {
			continue
		}
		found := false
		core.Instrs(fn, false, func(in ssa.Instruction) {
			if mi, ok := in.(*ssa.MakeInterface); ok {
				if _, n := core.TypeName(mi.X.Type()); n == "ExternalInterface" {
					found = true
				}
			}
		})
		r.Check(found, "R1.install", core.SSAKey(fn), fn.Pos(), "context.Interface is replaced by ExternalInterface{…}", "entry point no longer wraps the host interface in ExternalInterface")
	}
	r.Floor("R1.install", 6)

	// ---- R2 error flow of host calls
	exceptions := map[string]string{
		// (none needed on the pinned tree: the two documented exceptions of the property propagate the error value
		// to their caller, which turns it into the invalid-key / failed-deployment result)
	}
	isHost0 := isHostCallee(host)
	// carriers: module functions that return an error derived from a host call (wrappers), to a fixpoint
	carriers := map[*types.Func]bool{}
	isHost := func(o *types.Func) bool { return o != nil && (isHost0(o) || carriers[o.Origin()]) }
	hostSites := func(fn *ssa.Function) ([]ssa.CallInstruction, map[ssa.CallInstruction]string) {
		var sites []ssa.CallInstruction
		names := map[ssa.CallInstruction]string{}
		for _, c := range core.Calls(fn, true) {
			if o := core.Callee(c); o != nil {
				if isHost(o) {
					sites = append(sites, c)
					names[c] = o.Name()
				}
				continue
			}
			// host method handed over as a function value: a call of a func-typed parameter / captured variable
			// whose signature is exactly that of an error-returning runtime.Interface method
			if _, isBuiltin := c.Common().Value.(*ssa.Builtin); isBuiltin {
				continue
			}
			sig := c.Common().Signature()
			if sig == nil || !sigReturnsError(sig) {
				continue
			}
			hn := make([]string, 0)
			for n, hs := range host {
				if sameSig(hs, sig) {
					hn = append(hn, n)
				}
			}
			sort.Strings(hn)
			if len(hn) > 0 {
				sites = append(sites, c)
				names[c] = "func-value:" + strings.Join(hn, "|")
			}
		}
		return sites, names
	}
	for round := 0; round < 6; round++ {
		added := 0
		for _, fn := range w.SrcFuncs() {
			if fn.Parent() != nil {
				continue
			}
			fo, _ := fn.Object().(*types.Func)
			if fo == nil || carriers[fo] || !sigReturnsError(fo.Type().(*types.Signature)) {
				continue
			}
			if rn := core.RecvName0(fn); rn == "ExternalInterface" || rn == "EmptyRuntimeInterface" {
				continue
			}
			cs, _ := hostSites(fn)
			for _, c := range cs {
				fl := core.FollowErr(c)
				ret := false
				for _, sk := range fl.Sinks {
					if sk == "return" {
						ret = true
					}
				}
				if ret {
					carriers[fo] = true
					added++
					break
				}
			}
		}
		if added == 0 {
			break
		}
	}
	r.Note("host-error carriers inferred: %d", len(carriers))
	total := 0
	for _, fn := range w.SrcFuncs() {
		if fn.Parent() != nil {
			continue
		}
		if core.RecvName0(fn) == "ExternalInterface" || core.RecvName0(fn) == "EmptyRuntimeInterface" {
			continue
		}
		sites, names := hostSites(fn)
		for _, c := range sites {
			total++
			key := core.SSAKey(fn) + " -> " + names[c]
			if _, isDefer := c.(*ssa.Defer); isDefer {
				r.Bad("R2.errflow", key, posOf(c), "host call is deferred: its error cannot be propagated")
				continue
			}
			fl := core.FollowErr(c)
			switch {
			case exceptions[key] != "":
				r.OK("R2.errflow", key, posOf(c), "documented exception: "+exceptions[key])
			case fl.Dropped:
				r.Bad("R2.errflow", key, posOf(c), "error result of the host call is discarded")
			case len(fl.Sinks) == 0:
				r.Bad("R2.errflow", key, posOf(c), "error result of the host call reaches no sink (only compared or unused)")
			case fl.Swallow != nil:
				r.Bad("R2.errflow", key, posOf(c), "on the error's non-nil edge a return at "+w.Pos(fl.Swallow.Pos())+" carries nothing derived from the error")
			default:
				if ret := returnsBeforeExamined(c); ret != nil {
					r.Bad("R2.errflow", key, posOf(c), "a return at "+w.Pos(ret.Pos())+" is reachable after the host call before its error is examined (another result is tested first): the failure is ignored on that path")
				} else {
					r.OK("R2.errflow", key, posOf(c), "error reaches "+strings.Join(uniq(fl.Sinks), ","))
				}
			}
		}
	}
	r.Floor("R2.errflow", 45)

	// ---- R3 recover sites that absorb a host failure (ExternalError arm, or an absorbing default) inside execution code
	boundary := map[string]string{
		"runtime.Recover":                                    "runtime boundary: converts to the returned error (carries the host failure)",
		"interpreter.(Interpreter).RecoverErrors":            "interpreter boundary: hands the value to the error handler",
		"bbq/vm.(VM).RecoverErrors":                          "VM boundary: hands the value to the error handler",
		"stdlib.nativeAccountContractsTryUpdateFunction":     "documented exception of the property (contracts.tryUpdate)",
		"runtime.(REPL).Accept":                              "REPL tooling boundary, reports the error",
		"pretty.(ErrorPrettyPrinter).PrettyPrintError":       "printer, not on an execution path",
		"sema.(Checker).Check":                               "checker boundary: returns the error",
		"parser.ParseTokenStream":                            "parser boundary: returns the error",
		"parser/lexer.(lexer).run":                           "lexer boundary: error token",
		"parser.defineLessThanOrTypeArgumentsExpression":     "speculative parse replay; no host call inside the parser",
		"old_parser.defineLessThanOrTypeArgumentsExpression": "speculative parse replay; no host call inside the parser",
		"old_parser/lexer.(lexer).run":                       "lexer boundary: error token",
		"encoding/ccf.(Decoder).Decode":                      "codec boundary: returns the error",
		"encoding/ccf.(Encoder).Encode":                      "codec boundary: returns the error",
		"encoding/json.(Decoder).Decode":                     "codec boundary: returns the error",
		"encoding/json.(Encoder).Encode":                     "codec boundary: returns the error",
		"runtime.UserPanicToError":                           "absorbs only user errors (errors.As UserError); ExternalError is re-panicked in the type switch",
	}
	for _, s := range w.RecoverSites() {
		k := core.SSAKey(s.Decl)
		absorbs := false
		for _, a := range s.Arms {
			if a == "errors.ExternalError:absorb" || a == "default:absorb" || a == "error:absorb" {
				absorbs = true
			}
		}
		if !absorbs {
			r.OK("R3.recover", k, s.Call.Pos(), "cannot absorb an ExternalError: "+s.Summary())
			continue
		}
		if isLatentSaturating(k) {
			r.OK("R3.recover", k, s.Call.Pos(), "LATENT saturating wrapper (undeclared member, arithmetic only, no host call below it)")
			continue
		}
		if why, ok := boundary[k]; ok {
			r.OK("R3.recover", k, s.Call.Pos(), "reviewed: "+why)
			continue
		}
		r.Bad("R3.recover", k, s.Call.Pos(), "recover() absorbs an ExternalError (host failure) and execution continues: "+s.Summary())
	}
	r.Floor("R3.recover", 30)
}

// forwardsParam: value a (inside closure built by mc) is the parameter #pi of fn (directly, or a load of the
// cell fn spilled it to, or a free variable bound to either).
func forwardsParam(a ssa.Value, fn *ssa.Function, pi int, mc *ssa.MakeClosure) bool {
	if pi >= len(fn.Params) {
		return false
	}
	p := fn.Params[pi]
	a = core.Unwrap(a)
	// variadic: slice of param
	if fv, ok := a.(*ssa.FreeVar); ok {
		clo := mc.Fn.(*ssa.Function)
		for i, x := range clo.FreeVars {
			if x == fv && i < len(mc.Bindings) {
				return mc.Bindings[i] == p
			}
		}
		return false
	}
	if u, ok := a.(*ssa.UnOp); ok && u.Op == token.MUL {
		// load of a captured cell holding the param
		if fv, ok := u.X.(*ssa.FreeVar); ok {
			clo := mc.Fn.(*ssa.Function)
			for i, x := range clo.FreeVars {
				if x == fv && i < len(mc.Bindings) {
					if al, ok := mc.Bindings[i].(*ssa.Alloc); ok {
						// the alloc is initialised from the param
						if refs := al.Referrers(); refs != nil {
							for _, ref := range *refs {
								if st, ok := ref.(*ssa.Store); ok && st.Addr == al && st.Val == p {
									return true
								}
							}
						}
					}
				}
			}
		}
	}
	return a == p
}

func uniq(xs []string) []string {
	m := map[string]bool{}
	var out []string
	for _, x := range xs {
		if !m[x] {
			m[x] = true
			out = append(out, x)
		}
	}
	sort.Strings(out)
	return out
}

// externalWrapperRule: every method of runtime.ExternalInterface = errors.WrapPanic{Interface.M(params in order)} with
// interpreter.WrappedExternalError on the non-nil edge before every return (shared by C28.R1 and C01.R7: an unwrapped
// host error is classified as an internal error).
func externalWrapperRule(r *core.Run, rule string, only ...string) {
	onlySet := map[string]bool{}
	for _, o := range only {
		onlySet[o] = true
	}
	w := r.W
	// ---- R1 wrapper shape
	ext := w.Named("runtime", "ExternalInterface")
	if ext == nil {
		r.Undecided(rule, "runtime.ExternalInterface", "type does not resolve")
		return
	}
	wrapPanic := funcOf(mod+"/errors", "WrapPanic")
	wrappedExt := funcOf(mod+"/interpreter", "WrappedExternalError")
	for i := 0; i < ext.NumMethods(); i++ {
		m := ext.Method(i)
		if len(onlySet) > 0 && !onlySet[m.Name()] {
			continue
		}
		fn := w.Prog.FuncValue(m)
		key := core.FuncKey(m)
		if fn == nil || len(fn.Blocks) == 0 {
			r.Undecided(rule, key, "no body")
			continue
		}
		// (a) WrapPanic(closure) where closure invokes Interface.<same name> with params in order
		var inner ssa.CallInstruction
		wp := core.CallsTo(fn, false, wrapPanic)
		if len(wp) != 1 {
			r.Bad(rule, key, fn.Pos(), "does not call errors.WrapPanic exactly once")
			continue
		}
		mc, _ := wp[0].Common().Args[0].(*ssa.MakeClosure)
		if mc == nil {
			r.Bad(rule, key, fn.Pos(), "errors.WrapPanic argument is not a function literal")
			continue
		}
		clo := mc.Fn.(*ssa.Function)
		for _, c := range core.Calls(clo, true) {
			if o := core.Callee(c); o != nil && c.Common().IsInvoke() && o.Name() == m.Name() {
				inner = c
			}
		}
		// any other host call outside WrapPanic?
		outside := false
		for _, c := range core.Calls(fn, false) {
			if c.Common().IsInvoke() {
				outside = true
			}
		}
		if inner == nil {
			r.Bad(rule, key, fn.Pos(), "closure passed to WrapPanic does not call the wrapped Interface."+m.Name())
			continue
		}
		if outside {
			r.Bad(rule, key, fn.Pos(), "calls an interface method outside errors.WrapPanic")
			continue
		}
		// params forwarded unchanged in order
		okArgs := len(inner.Common().Args) == len(fn.Params)-1
		if okArgs {
			for ai, a := range inner.Common().Args {
				if !forwardsParam(a, fn, ai+1, mc) {
					okArgs = false
				}
			}
		}
		if !okArgs {
			r.Bad(rule, key, posOf(inner), "arguments of the wrapped call are not the wrapper's parameters in order")
			continue
		}
		sig := m.Type().(*types.Signature)
		if !sigReturnsError(sig) {
			r.OK(rule, key, fn.Pos(), "forwards inside WrapPanic (no error result)")
			continue
		}
		// (b) error conversion: each Return is preceded on all paths by a nil test of the error cell, and the non-nil edge stores WrappedExternalError(load cell) to it
		conv := core.CallsTo(fn, false, wrappedExt)
		good := len(conv) >= 1
		var why string
		if !good {
			why = "never calls interpreter.WrappedExternalError"
		}
		for _, cv := range conv {
			// result stored to the cell loaded as its argument
			arg := core.Unwrap(cv.Common().Args[0])
			ld, ok := arg.(*ssa.UnOp)
			if !ok || ld.Op != token.MUL {
				good, why = false, "WrappedExternalError argument is not the error result variable"
				continue
			}
			stored := false
			if refs := cv.Value().Referrers(); refs != nil {
				for _, ref := range *refs {
					if st, ok := ref.(*ssa.Store); ok && st.Addr == ld.X {
						stored = true
					}
				}
			}
			if !stored {
				good, why = false, "result of WrappedExternalError is not assigned back to the error result"
			}
			// the conversion lies on the non-nil edge of a test of the same cell, and every return passes that test
			onEdge := false
			for _, t := range core.NilTests(fn) {
				raw := t.If.Cond.(*ssa.BinOp).X
				u, ok := core.Unwrap(raw).(*ssa.UnOp)
				if !ok || u.X != ld.X {
					continue
				}
				if core.OnlyViaEdge(cv, t.If.Block(), t.NonNilSucc) && t.NonNilSucc.Dominates(cv.Block()) {
					// every path from the non-nil successor to a return passes the conversion
					allConv := true
					for _, ret := range core.Returns(fn) {
						if core.Reachable(ret, core.ReachOpts{
							CutEdge: func(f, to *ssa.BasicBlock) bool { return f == t.If.Block() && to == t.NilSucc },
							Barrier: func(in ssa.Instruction) bool { return in == cv },
						}) {
							allConv = false
						}
						// the returned error is the cell
						for ri := 0; ri < sig.Results().Len(); ri++ {
							if core.IsErrorType(sig.Results().At(ri).Type()) {
								rv, ok := core.Unwrap(ret.Results[ri]).(*ssa.UnOp)
								if !ok || rv.X != ld.X {
									allConv = false
								}
							}
						}
					}
					if allConv {
						onEdge = true
					}
				}
			}
			if !onEdge {
				good, why = false, "a return is reachable with a non-nil host error that did not pass WrappedExternalError"
			}
		}
		// the inner call's error is stored to the same cell
		r.Check(good, rule, key, fn.Pos(), "WrapPanic + WrappedExternalError on the non-nil edge before every return", why)
	}

}

// returnsBeforeExamined: a return that does not carry the error of call c is reachable from c without passing any branch
// on that error (the error is tested only later, or only on other paths).
func returnsBeforeExamined(c ssa.CallInstruction) *ssa.Return {
	errs := core.ErrResults(c)
	if len(errs) == 0 {
		return nil
	}
	e := errs[0]
	fn := c.Parent()
	// values equivalent to the error: itself, loads of cells it is stored into
	cells := map[ssa.Value]bool{}
	if refs := e.Referrers(); refs != nil {
		for _, ref := range *refs {
			if st, ok := ref.(*ssa.Store); ok && st.Val == e {
				if _, isLocal := st.Addr.(*ssa.Alloc); isLocal {
					cells[st.Addr] = true
				}
			}
		}
	}
	isErr := func(v ssa.Value, d int) bool { return false }
	var derives func(v ssa.Value, d int) bool
	derives = func(v ssa.Value, d int) bool {
		if v == nil || d > 4 {
			return false
		}
		v = core.Unwrap(v)
		if v == e {
			return true
		}
		switch x := v.(type) {
		case *ssa.UnOp:
			if cells[x.X] {
				return true
			}
			return derives(x.X, d+1)
		case *ssa.Phi:
			for _, ed := range x.Edges {
				if derives(ed, d+1) {
					return true
				}
			}
		case *ssa.BinOp:
			return derives(x.X, d+1) || derives(x.Y, d+1)
		case *ssa.Call:
			for _, a := range x.Call.Args {
				if derives(a, d+1) {
					return true
				}
			}
		}
		return false
	}
	_ = isErr
	examined := func(in ssa.Instruction) bool {
		switch x := in.(type) {
		case *ssa.If:
			return derives(x.Cond, 0)
		case *ssa.Panic:
			return true
		case ssa.CallInstruction:
			// handing the error to a function (handler, wrapper) counts as examining it
			for _, a := range x.Common().Args {
				if derives(a, 0) {
					return true
				}
			}
		case *ssa.Store:
			// stored into a result cell or structure: carried onwards
			if derives(x.Val, 0) && !cells[x.Addr] {
				return true
			}
		}
		return false
	}
	target := func(in ssa.Instruction) bool {
		ret, ok := in.(*ssa.Return)
		if !ok {
			return false
		}
		for _, res := range ret.Results {
			if derives(res, 0) {
				return false
			}
		}
		// only returns after the call
		return core.ReachableAfter(c, ret)
	}
	// start right after the call: scan the rest of its block, then successors
	blk := c.Block()
	started := false
	for _, in := range blk.Instrs {
		if in == ssa.Instruction(c) {
			started = true
			continue
		}
		if !started {
			continue
		}
		if examined(in) {
			return nil
		}
		if target(in) {
			return in.(*ssa.Return)
		}
	}
	if hit := core.ReachUnder(fn, nil, blk.Succs, examined, target); hit != nil {
		return hit.(*ssa.Return)
	}
	return nil
}
