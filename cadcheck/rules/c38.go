package rules

import (
	"fmt"
	"go/ast"
	"go/token"
	"regexp"
	"go/types"
	"sort"
	"strings"

	"golang.org/x/tools/go/ssa"

	"cadcheck/core"
)

func init() {
	register("C38", c38)
	register("C39", c39)
}

// fieldsReadDeep: names of the fields of struct type `typ` read by fn, its function literals and its static callees in
// the same package (depth 2).
func fieldsReadDeep(fn *ssa.Function, typ *types.Named, depth int) map[string]bool {
	out := map[string]bool{}
	seen := map[*ssa.Function]bool{}
	var visit func(f *ssa.Function, d int)
	visit = func(f *ssa.Function, d int) {
		if f == nil || seen[f] || len(f.Blocks) == 0 {
			return
		}
		seen[f] = true
		core.Instrs(f, true, func(in ssa.Instruction) {
			var base types.Type
			var idx int
			switch x := in.(type) {
			case *ssa.FieldAddr:
				if refs := x.Referrers(); refs != nil {
					for _, ref := range *refs {
						if st, ok := ref.(*ssa.Store); ok && st.Addr == x {
							return
						}
					}
				}
				base, idx = x.X.Type(), x.Field
			case *ssa.Field:
				base, idx = x.X.Type(), x.Field
			default:
				return
			}
			if p, ok := base.Underlying().(*types.Pointer); ok {
				base = p.Elem()
			}
			nt, ok := base.(*types.Named)
			if !ok || nt.Obj() != typ.Obj() {
				return
			}
			if st, ok := nt.Underlying().(*types.Struct); ok && idx < st.NumFields() {
				out[st.Field(idx).Name()] = true
			}
		})
		if d >= depth {
			return
		}
		for _, c := range core.Calls(f, true) {
			if sf := core.StaticFn(c); sf != nil && sf.Pkg == fn.Pkg {
				visit(sf, d+1)
			}
		}
	}
	visit(fn, 0)
	return out
}

func c38(r *core.Run) {
	r.Explanation = "Decided clause (narrow): the pretty printer renders every field it rendered on the reviewed tree — for every ast node type with a Doc method, the set of the node's own fields read by Doc (through function literals and same-package helpers, depth 2) " +
		"includes the set pinned from the reviewed tree (tables/c38_doc_fields.json): a field that is no longer read cannot appear in the printed program, so re-parsing cannot reproduce it (an access modifier, a purity annotation, a type argument list, a transfer operator); " +
		"(R2) every Doc method still makes the decisions (branch conditions, by operator/callee and operand origins) and calls the module helpers it did on the reviewed tree (tables/c38_doc_decisions.json)."
	r.NotDecided = "that the printed text re-parses to an equal AST (precedence and parenthesisation, keyword spelling, separators); fields that were never printed."
	w := r.W
	p := w.Pkg("ast")
	if p == nil {
		r.Undecided("R1.fields", "ast", "package not loaded")
		return
	}
	got := map[string][]string{}
	scope := p.Types.Scope()
	for _, name := range scope.Names() {
		tn, ok := scope.Lookup(name).(*types.TypeName)
		if !ok {
			continue
		}
		nt, ok := tn.Type().(*types.Named)
		if !ok {
			continue
		}
		if _, isStruct := nt.Underlying().(*types.Struct); !isStruct {
			continue
		}
		for _, recv := range []types.Type{nt, types.NewPointer(nt)} {
			ms := types.NewMethodSet(recv)
			sel := ms.Lookup(p.Types, "Doc")
			if sel == nil {
				continue
			}
			m, _ := sel.Obj().(*types.Func)
			fn := w.Prog.FuncValue(m)
			if fn == nil || len(fn.Blocks) == 0 || fn.Synthetic != "" {
				continue
			}
			fs := fieldsReadDeep(fn, nt, 2)
			if len(fs) > 0 {
				got["ast."+name] = sortedKeys(fs)
			}
			break
		}
	}
	if genMode() {
		genJSON(r, "c38_doc_fields", got)
		c38Decisions(r, "R2.decisions")
		return
	}
	var pinned map[string][]string
	if !r.Table("c38_doc_fields", &pinned) {
		return
	}
	for _, k := range sortedKeys(pinned) {
		have := map[string]bool{}
		for _, f := range got[k] {
			have[f] = true
		}
		if _, ok := got[k]; !ok {
			r.Undecided("R1.fields", k+".Doc", "the node type or its Doc method does not resolve")
			continue
		}
		var missing []string
		for _, f := range pinned[k] {
			if !have[f] {
				missing = append(missing, f)
			}
		}
		sort.Strings(missing)
		r.Check(len(missing) == 0, "R1.fields", k+".Doc renders "+strings.Join(pinned[k], ","), 0, "every reviewed field is still read by the printer",
			"the printer no longer reads field(s) "+strings.Join(missing, ",")+" of this node: they cannot appear in the printed program, so the re-parsed AST differs")
	}
	r.Floor("R1.fields", 50)
	c38Decisions(r, "R2.decisions")
	r.Floor("R2.decisions", 60)
}

// c38Decisions: the decisions the printer makes and the helpers it consults — for every Doc method of package ast the set of
// branch conditions (described by operator / callee and the data-flow origins of the operands, polarity ignored) and the set
// of module functions called must include the sets pinned from the reviewed tree: a parenthesisation test that loses a
// conjunct, a dropped `exactly one statement` guard, or a separator that is no longer asked of the node are reported.
// Added conditions and calls, reordering and restructuring are not.
func c38Decisions(r *core.Run, rule string) {
	w := r.W
	type entry struct {
		Conds []string `json:"conds"`
		Calls []string `json:"calls"`
	}
	got := map[string]entry{}
	for _, fn := range w.SrcFuncsIn("ast") {
		if fn.Parent() != nil || fn.Name() != "Doc" || fn.Signature.Recv() == nil || fn.Synthetic != "" {
			continue
		}
		conds, calls := map[string]bool{}, map[string]bool{}
		c38Collect(fn, nil, 0, conds, calls)
		got[core.SSAKey(fn)] = entry{sortedKeys(conds), sortedKeys(calls)}
	}
	if genMode() {
		genJSON(r, "c38_doc_decisions", got)
		return
	}
	var pinned map[string]entry
	if !r.Table("c38_doc_decisions", &pinned) {
		return
	}
	for _, k := range sortedKeys(pinned) {
		cur, ok := got[k]
		if !ok {
			r.Undecided(rule, k, "Doc method does not resolve")
			continue
		}
		have := map[string]bool{}
		for _, c := range cur.Conds {
			have["c:"+c] = true
		}
		for _, c := range cur.Calls {
			have["f:"+c] = true
		}
		var missing []string
		for _, c := range cur.Conds {
			have["l:"+c38Loose(c)] = true
		}
		for _, c := range pinned[k].Conds {
			if !have["c:"+c] && !have["l:"+c38Loose(c)] {
				missing = append(missing, "condition "+c)
			}
		}
		for _, c := range pinned[k].Calls {
			if !have["f:"+c] {
				missing = append(missing, "call of "+c)
			}
		}
		r.Check(len(missing) == 0, rule, k+": decisions and helpers of the reviewed printer", 0, itoa(len(pinned[k].Conds))+" conditions, "+itoa(len(pinned[k].Calls))+" helpers still present",
			"the printer no longer makes a decision / consults a helper it did on the reviewed tree: "+strings.Join(missing, "; ")+" — the printed form of some programs changes (parentheses, separators, dropped statements) and re-parses to a different AST")
	}
}

// normCond maps complementary comparison operators to one spelling (polarity is ignored).
func normCond(s string) string {
	for _, p := range [][2]string{{">=(", "<("}, {"<=(", ">("}, {"!=(", "==("}} {
		if strings.HasPrefix(s, p[0]) {
			return p[1] + "~" + s[len(p[0]):]
		}
	}
	for _, p := range []string{"<(", ">(", "==("} {
		if strings.HasPrefix(s, p) {
			return p + "~" + s[len(p):]
		}
	}
	return s
}

func c39(r *core.Run) {
	r.Explanation = "Decided clauses (narrow): (R1) formatter.Format returns a result without error only on paths on which the comment map was found empty (no orphaned comment) and, unless Options.SkipVerify is set, verify.RoundTrip returned nil; " +
		"(R2) CommentMap.IsEmpty examines every comment store of the map (header, footer, leading, trailing, same-line); (R3) consuming accessors consume: TakeRaw deletes from every map it reads, TakeHeader/TakeFooter reset the slice they return — so a comment handed to the renderer cannot be handed out again; " +
		"(R4) the ast printer keeps the decisions and helpers of the reviewed tree (C38.R2); (R5) a comment list compacted in place is stored back into its comment map."
	r.NotDecided = "that the formatted source parses to the same AST, idempotence, and that every comment is attached somewhere by trivia.Attach (the self-verification inside Format is itself only structural)."
	w := r.W
	// R1 gates
	if fn := mustFn(r, "R1.gates", "formatter", "", "Format"); fn != nil {
		success := func(ret *ssa.Return) bool {
			if len(ret.Results) != 2 {
				return false
			}
			c, ok := ret.Results[1].(*ssa.Const)
			return ok && c.IsNil()
		}
		pg, complete := core.PathGroundsTo(fn, 256, success)
		if !complete || len(pg) == 0 {
			r.Undecided("R1.gates", "formatter.Format", "the successful returns cannot be enumerated")
		}
		for i, g := range pg {
			hasEmpty := strings.Contains(g, "+IsEmpty{")
			verified := false
			for _, conj := range strings.Split(g, " ∧ ") {
				if strings.HasPrefix(conj, "+value{") && strings.Contains(conj, ".SkipVerify") {
					verified = true
				}
				if (strings.HasPrefix(conj, "+==(") || strings.HasPrefix(conj, "-!=(")) && strings.Contains(conj, "via:RoundTrip") && strings.Contains(conj, "const:nil") {
					verified = true
				}
			}
			r.Check(hasEmpty && verified, "R1.gates", "formatter.Format: successful path #"+itoa(i+1), fn.Pos(), "comment map empty and round trip verified (or verification switched off by the caller)",
				"a result is returned without error on a path that did not find the comment map empty, or did not pass verify.RoundTrip with SkipVerify unset: "+g)
		}
	}
	r.Floor("R1.gates", 1)

	cm := w.Named("formatter/trivia", "CommentMap")
	if cm == nil {
		r.Undecided("R2.isempty", "formatter/trivia.CommentMap", "does not resolve")
		return
	}
	st, _ := cm.Underlying().(*types.Struct)
	var stores []string
	for i := 0; st != nil && i < st.NumFields(); i++ {
		f := st.Field(i)
		if strings.Contains(types.TypeString(f.Type(), nil), "CommentGroup") {
			stores = append(stores, f.Name())
		}
	}
	if fn := mustFn(r, "R2.isempty", "formatter/trivia", "CommentMap", "IsEmpty"); fn != nil {
		read := fieldsReadDeep(fn, cm, 1)
		for _, s := range stores {
			r.Check(read[s], "R2.isempty", "formatter/trivia.(CommentMap).IsEmpty examines "+s, fn.Pos(), "store examined", "comments left in CommentMap."+s+" are not noticed by the orphan check: the formatter can drop them silently")
		}
	}
	r.Floor("R2.isempty", 5)
	if fn := mustFn(r, "R3.take", "formatter/trivia", "CommentMap", "TakeRaw"); fn != nil {
		for _, s := range stores {
			var look, del int
			core.Instrs(fn, false, func(in ssa.Instruction) {
				switch x := in.(type) {
				case *ssa.Lookup:
					if fieldLoaded(x.X) == s {
						look++
					}
				case ssa.CallInstruction:
					if b, ok := x.Common().Value.(*ssa.Builtin); ok && b.Name() == "delete" && len(x.Common().Args) > 0 && fieldLoaded(x.Common().Args[0]) == s {
						del++
					}
				}
			})
			if look == 0 && del == 0 {
				continue
			}
			r.Check(look == del, "R3.take", "formatter/trivia.(CommentMap).TakeRaw: "+s+" read and removed", fn.Pos(), "every lookup is paired with a delete",
				"TakeRaw hands out comments from CommentMap."+s+" without removing them (or removes without returning): a comment is rendered twice or lost")
		}
	}
	for _, x := range [][2]string{{"TakeHeader", "HeaderComments"}, {"TakeFooter", "FooterComments"}} {
		fn := mustFn(r, "R3.take", "formatter/trivia", "CommentMap", x[0])
		if fn == nil {
			continue
		}
		reset := false
		core.Instrs(fn, false, func(in ssa.Instruction) {
			if st, ok := in.(*ssa.Store); ok {
				if fa, ok := st.Addr.(*ssa.FieldAddr); ok {
					if _, f := structFieldOf(fa); f == x[1] {
						if c, ok := st.Val.(*ssa.Const); ok && c.IsNil() {
							reset = true
						}
					}
				}
			}
		})
		r.Check(reset, "R3.take", "formatter/trivia.(CommentMap)."+x[0]+": "+x[1]+" reset", fn.Pos(), "the slice handed out is cleared", x[0]+" no longer clears CommentMap."+x[1]+": the comments are handed out again or reported as orphans")
	}
	r.Floor("R3.take", 5)

	// R4 the pretty printer the formatter renders with keeps its decisions and helpers (shared with C38.R2)
	c38Decisions(r, "R4.printer")
	r.Floor("R4.printer", 60)

	// R5 comment lists filtered in place are written back: wherever package trivia re-slices a comment list taken from one of the
	// comment maps to length zero (`keep := groups[:0]`) and appends the survivors, the result is stored back into that map
	// (the map entry still has the old length over the compacted array, so a missing write-back renders a comment twice)
	nfilter := 0
	for _, fn := range w.SrcFuncsIn("formatter/trivia") {
		if fn.Parent() != nil {
			continue
		}
		core.Instrs(fn, true, func(in ssa.Instruction) {
			sl, ok := in.(*ssa.Slice)
			if !ok || sl.High == nil {
				return
			}
			if c, isC := sl.High.(*ssa.Const); !isC || c.Value == nil || c.Value.ExactString() != "0" {
				return
			}
			// the sliced list comes from a lookup in a comment map field
			var src *ssa.Lookup
			switch x := sl.X.(type) {
			case *ssa.Lookup:
				src = x
			case *ssa.Extract:
				src, _ = x.Tuple.(*ssa.Lookup)
			}
			if src == nil {
				return
			}
			field := fieldLoaded(src.X)
			if field == "" {
				return
			}
			nfilter++
			// a MapUpdate on the same map field whose value derives from the re-sliced list
			stored := false
			f := in.Parent()
			core.Instrs(f, false, func(x ssa.Instruction) {
				mu, ok := x.(*ssa.MapUpdate)
				if !ok || fieldLoaded(mu.Map) != field {
					return
				}
				seen := map[ssa.Value]bool{}
				var derives func(v ssa.Value, d int) bool
				derives = func(v ssa.Value, d int) bool {
					if v == nil || seen[v] || d > 8 {
						return false
					}
					seen[v] = true
					if v == ssa.Value(sl) {
						return true
					}
					if vi, ok := v.(ssa.Instruction); ok {
						for _, op := range vi.Operands(nil) {
							if op != nil && *op != nil && derives(*op, d+1) {
								return true
							}
						}
					}
					return false
				}
				if derives(mu.Value, 0) {
					stored = true
				}
			})
			top := f
			for top.Parent() != nil {
				top = top.Parent()
			}
			r.Check(stored, "R5.writeback", core.SSAKey(top)+": CommentMap."+field+" filtered in place is stored back", in.Pos(), "the filtered list is written back to the map",
				"a comment list is compacted in place but the shorter list is not stored back into CommentMap."+field+": the entry keeps its old length and a surviving comment is rendered twice")
		})
	}
	if nfilter == 0 {
		r.Undecided("R5.writeback", "formatter/trivia", "no in-place filter of a comment list found")
	}
	r.Floor("R5.writeback", 1)
}

var c38Group = regexp.MustCompile(`\{[^{}]*\}`)

// c38Subst rewrites the leaf groups of a descriptor: a `param#i:T` leaf of a helper is replaced by the leaves of the
// argument the printer passes at that position, so a decision moved into a helper keeps its descriptor.
func c38Subst(desc string, subst map[int][]string) string {
	if len(subst) == 0 {
		return desc
	}
	return c38Group.ReplaceAllStringFunc(desc, func(g string) string {
		toks := strings.Fields(g[1 : len(g)-1])
		set := map[string]bool{}
		for _, t := range toks {
			if strings.HasPrefix(t, "param#") {
				var i int
				if _, err := fmt.Sscanf(t, "param#%d:", &i); err == nil {
					if rep, ok := subst[i]; ok {
						for _, x := range rep {
							set[x] = true
						}
						continue
					}
				}
			}
			set[t] = true
		}
		return "{" + strings.Join(sortedKeys(set), " ") + "}"
	})
}

// c38Loose drops parameter leaves and, in groups that have other members, the nil constant a phi contributes.
func c38Loose(desc string) string {
	return c38Group.ReplaceAllStringFunc(desc, func(g string) string {
		toks := strings.Fields(g[1 : len(g)-1])
		var keep []string
		for _, t := range toks {
			if strings.HasPrefix(t, "param#") || strings.HasPrefix(t, "closure-param") {
				continue
			}
			keep = append(keep, t)
		}
		if len(keep) > 1 {
			var k2 []string
			for _, t := range keep {
				if t != "const:nil" {
					k2 = append(k2, t)
				}
			}
			keep = k2
		}
		return "{" + strings.Join(keep, " ") + "}"
	})
}

// c38Collect gathers the branch conditions and module callees of a printer method, following static calls into
// helpers of the same package (not themselves Doc methods) up to depth 2 with the helper's parameters replaced by
// the caller's arguments.
func c38Collect(fn *ssa.Function, subst map[int][]string, depth int, conds, calls map[string]bool) {
	c38CollectX(fn, subst, depth, conds, calls, nil)
}

// c38CollectX is c38Collect that does not descend into the functions of stop (they are examined on their own).
func c38CollectX(fn *ssa.Function, subst map[int][]string, depth int, conds, calls map[string]bool, stop map[*ssa.Function]bool) {
	core.Instrs(fn, true, func(in ssa.Instruction) {
		switch x := in.(type) {
		case *ssa.If:
			c := x.Cond
			for {
				if u, ok := c.(*ssa.UnOp); ok && u.Op == token.NOT {
					c = u.X
					continue
				}
				break
			}
			if phi, isPhi := c.(*ssa.Phi); isPhi {
				for _, e := range phi.Edges {
					if _, isConst := e.(*ssa.Const); !isConst {
						conds[c38Subst(normCond(core.ValueDesc(e)), subst)] = true
					}
				}
				return
			}
			conds[c38Subst(normCond(core.ValueDesc(c)), subst)] = true
		case ssa.CallInstruction:
			o := core.Callee(x)
			if o == nil || o.Pkg() == nil || !core.InMod(o.Pkg().Path()) {
				return
			}
			calls[o.Name()] = true
			sc := x.Common().StaticCallee()
			if sc == nil || depth >= 2 || sc.Pkg != fn.Pkg || sc.Name() == "Doc" || sc == fn || len(sc.Blocks) == 0 || ast.IsExported(sc.Name()) || stop[sc] {
				return
			}
			sub := map[int][]string{}
			for i, a := range x.Common().Args {
				l := c38Subst(core.OriginLeavesVia(a), subst)
				sub[i] = strings.Fields(strings.Trim(l, "{}"))
			}
			c38CollectX(sc, sub, depth+1, conds, calls, stop)
		}
	})
}

// decisionCensus: the set of branch conditions and module callees (helper-aware, c38Collect) of each given function is
// compared with the table pinned from the reviewed tree; anything pinned that is no longer present is reported.
func decisionCensus(r *core.Run, rule, table string, fns []*ssa.Function, what string) {
	type entry struct {
		Conds []string `json:"conds"`
		Calls []string `json:"calls"`
	}
	got := map[string]entry{}
	stop := map[*ssa.Function]bool{}
	for _, fn := range fns {
		stop[fn] = true
	}
	for _, fn := range fns {
		conds, calls := map[string]bool{}, map[string]bool{}
		c38CollectX(fn, nil, 0, conds, calls, stop)
		got[core.SSAKey(fn)] = entry{sortedKeys(conds), sortedKeys(calls)}
	}
	if genMode() {
		genJSON(r, table, got)
		return
	}
	var pinned map[string]entry
	if !r.Table(table, &pinned) {
		return
	}
	for _, k := range sortedKeys(pinned) {
		cur, ok := got[k]
		if !ok {
			r.Undecided(rule, k, "function does not resolve")
			continue
		}
		have := map[string]bool{}
		for _, c := range cur.Conds {
			have["c:"+c] = true
			have["l:"+c38Loose(c)] = true
		}
		for _, c := range cur.Calls {
			have["f:"+c] = true
		}
		var missing []string
		for _, c := range pinned[k].Conds {
			if !have["c:"+c] && !have["l:"+c38Loose(c)] {
				missing = append(missing, "condition "+c)
			}
		}
		for _, c := range pinned[k].Calls {
			if !have["f:"+c] {
				missing = append(missing, "call of "+c)
			}
		}
		r.Check(len(missing) == 0, rule, k+": decisions and helpers of the reviewed tree", 0, itoa(len(pinned[k].Conds))+" conditions, "+itoa(len(pinned[k].Calls))+" helpers still present",
			what+": "+strings.Join(missing, "; "))
	}
}
