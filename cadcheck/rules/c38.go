package rules

import (
	"go/types"
	"sort"
	"strings"

	"golang.org/x/tools/go/ssa"

	"cadcheck/core"
)

func init() {
	register("C38", c38)
	register("C39", c39)
}

// fieldsReadDeep: names of the fields of struct type `typ` read by fn, its function literals and its static callees in
// the same package (depth 2).
func fieldsReadDeep(fn *ssa.Function, typ *types.Named, depth int) map[string]bool {
	out := map[string]bool{}
	seen := map[*ssa.Function]bool{}
	var visit func(f *ssa.Function, d int)
	visit = func(f *ssa.Function, d int) {
		if f == nil || seen[f] || len(f.Blocks) == 0 {
			return
		}
		seen[f] = true
		core.Instrs(f, true, func(in ssa.Instruction) {
			var base types.Type
			var idx int
			switch x := in.(type) {
			case *ssa.FieldAddr:
				if refs := x.Referrers(); refs != nil {
					for _, ref := range *refs {
						if st, ok := ref.(*ssa.Store); ok && st.Addr == x {
							return
						}
					}
				}
				base, idx = x.X.Type(), x.Field
			case *ssa.Field:
				base, idx = x.X.Type(), x.Field
			default:
				return
			}
			if p, ok := base.Underlying().(*types.Pointer); ok {
				base = p.Elem()
			}
			nt, ok := base.(*types.Named)
			if !ok || nt.Obj() != typ.Obj() {
				return
			}
			if st, ok := nt.Underlying().(*types.Struct); ok && idx < st.NumFields() {
				out[st.Field(idx).Name()] = true
			}
		})
		if d >= depth {
			return
		}
		for _, c := range core.Calls(f, true) {
			if sf := core.StaticFn(c); sf != nil && sf.Pkg == fn.Pkg {
				visit(sf, d+1)
			}
		}
	}
	visit(fn, 0)
	return out
}

func c38(r *core.Run) {
	r.Explanation = "Decided clause (narrow): the pretty printer renders every field it rendered on the reviewed tree — for every ast node type with a Doc method, the set of the node's own fields read by Doc (through function literals and same-package helpers, depth 2) " +
		"includes the set pinned from the reviewed tree (tables/c38_doc_fields.json): a field that is no longer read cannot appear in the printed program, so re-parsing cannot reproduce it (an access modifier, a purity annotation, a type argument list, a transfer operator)."
	r.NotDecided = "that the printed text re-parses to an equal AST (precedence and parenthesisation, keyword spelling, separators); fields that were never printed."
	w := r.W
	p := w.Pkg("ast")
	if p == nil {
		r.Undecided("R1.fields", "ast", "package not loaded")
		return
	}
	got := map[string][]string{}
	scope := p.Types.Scope()
	for _, name := range scope.Names() {
		tn, ok := scope.Lookup(name).(*types.TypeName)
		if !ok {
			continue
		}
		nt, ok := tn.Type().(*types.Named)
		if !ok {
			continue
		}
		if _, isStruct := nt.Underlying().(*types.Struct); !isStruct {
			continue
		}
		for _, recv := range []types.Type{nt, types.NewPointer(nt)} {
			ms := types.NewMethodSet(recv)
			sel := ms.Lookup(p.Types, "Doc")
			if sel == nil {
				continue
			}
			m, _ := sel.Obj().(*types.Func)
			fn := w.Prog.FuncValue(m)
			if fn == nil || len(fn.Blocks) == 0 || fn.Synthetic != "" {
				continue
			}
			fs := fieldsReadDeep(fn, nt, 2)
			if len(fs) > 0 {
				got["ast."+name] = sortedKeys(fs)
			}
			break
		}
	}
	if genMode() {
		genJSON(r, "c38_doc_fields", got)
		return
	}
	var pinned map[string][]string
	if !r.Table("c38_doc_fields", &pinned) {
		return
	}
	for _, k := range sortedKeys(pinned) {
		have := map[string]bool{}
		for _, f := range got[k] {
			have[f] = true
		}
		if _, ok := got[k]; !ok {
			r.Undecided("R1.fields", k+".Doc", "the node type or its Doc method does not resolve")
			continue
		}
		var missing []string
		for _, f := range pinned[k] {
			if !have[f] {
				missing = append(missing, f)
			}
		}
		sort.Strings(missing)
		r.Check(len(missing) == 0, "R1.fields", k+".Doc renders "+strings.Join(pinned[k], ","), 0, "every reviewed field is still read by the printer",
			"the printer no longer reads field(s) "+strings.Join(missing, ",")+" of this node: they cannot appear in the printed program, so the re-parsed AST differs")
	}
	r.Floor("R1.fields", 50)
}

func c39(r *core.Run) {
	r.Explanation = "Decided clauses (narrow): (R1) formatter.Format returns a result without error only on paths on which the comment map was found empty (no orphaned comment) and, unless Options.SkipVerify is set, verify.RoundTrip returned nil; " +
		"(R2) CommentMap.IsEmpty examines every comment store of the map (header, footer, leading, trailing, same-line); (R3) consuming accessors consume: TakeRaw deletes from every map it reads, TakeHeader/TakeFooter reset the slice they return — so a comment handed to the renderer cannot be handed out again."
	r.NotDecided = "that the formatted source parses to the same AST, idempotence, and that every comment is attached somewhere by trivia.Attach (the self-verification inside Format is itself only structural)."
	w := r.W
	// R1 gates
	if fn := mustFn(r, "R1.gates", "formatter", "", "Format"); fn != nil {
		success := func(ret *ssa.Return) bool {
			if len(ret.Results) != 2 {
				return false
			}
			c, ok := ret.Results[1].(*ssa.Const)
			return ok && c.IsNil()
		}
		pg, complete := core.PathGroundsTo(fn, 256, success)
		if !complete || len(pg) == 0 {
			r.Undecided("R1.gates", "formatter.Format", "the successful returns cannot be enumerated")
		}
		for i, g := range pg {
			hasEmpty := strings.Contains(g, "+IsEmpty{")
			verified := false
			for _, conj := range strings.Split(g, " ∧ ") {
				if strings.HasPrefix(conj, "+value{") && strings.Contains(conj, ".SkipVerify") {
					verified = true
				}
				if (strings.HasPrefix(conj, "+==(") || strings.HasPrefix(conj, "-!=(")) && strings.Contains(conj, "via:RoundTrip") && strings.Contains(conj, "const:nil") {
					verified = true
				}
			}
			r.Check(hasEmpty && verified, "R1.gates", "formatter.Format: successful path #"+itoa(i+1), fn.Pos(), "comment map empty and round trip verified (or verification switched off by the caller)",
				"a result is returned without error on a path that did not find the comment map empty, or did not pass verify.RoundTrip with SkipVerify unset: "+g)
		}
	}
	r.Floor("R1.gates", 1)

	cm := w.Named("formatter/trivia", "CommentMap")
	if cm == nil {
		r.Undecided("R2.isempty", "formatter/trivia.CommentMap", "does not resolve")
		return
	}
	st, _ := cm.Underlying().(*types.Struct)
	var stores []string
	for i := 0; st != nil && i < st.NumFields(); i++ {
		f := st.Field(i)
		if strings.Contains(types.TypeString(f.Type(), nil), "CommentGroup") {
			stores = append(stores, f.Name())
		}
	}
	if fn := mustFn(r, "R2.isempty", "formatter/trivia", "CommentMap", "IsEmpty"); fn != nil {
		read := fieldsReadDeep(fn, cm, 1)
		for _, s := range stores {
			r.Check(read[s], "R2.isempty", "formatter/trivia.(CommentMap).IsEmpty examines "+s, fn.Pos(), "store examined", "comments left in CommentMap."+s+" are not noticed by the orphan check: the formatter can drop them silently")
		}
	}
	r.Floor("R2.isempty", 5)
	if fn := mustFn(r, "R3.take", "formatter/trivia", "CommentMap", "TakeRaw"); fn != nil {
		for _, s := range stores {
			var look, del int
			core.Instrs(fn, false, func(in ssa.Instruction) {
				switch x := in.(type) {
				case *ssa.Lookup:
					if fieldLoaded(x.X) == s {
						look++
					}
				case ssa.CallInstruction:
					if b, ok := x.Common().Value.(*ssa.Builtin); ok && b.Name() == "delete" && len(x.Common().Args) > 0 && fieldLoaded(x.Common().Args[0]) == s {
						del++
					}
				}
			})
			if look == 0 && del == 0 {
				continue
			}
			r.Check(look == del, "R3.take", "formatter/trivia.(CommentMap).TakeRaw: "+s+" read and removed", fn.Pos(), "every lookup is paired with a delete",
				"TakeRaw hands out comments from CommentMap."+s+" without removing them (or removes without returning): a comment is rendered twice or lost")
		}
	}
	for _, x := range [][2]string{{"TakeHeader", "HeaderComments"}, {"TakeFooter", "FooterComments"}} {
		fn := mustFn(r, "R3.take", "formatter/trivia", "CommentMap", x[0])
		if fn == nil {
			continue
		}
		reset := false
		core.Instrs(fn, false, func(in ssa.Instruction) {
			if st, ok := in.(*ssa.Store); ok {
				if fa, ok := st.Addr.(*ssa.FieldAddr); ok {
					if _, f := structFieldOf(fa); f == x[1] {
						if c, ok := st.Val.(*ssa.Const); ok && c.IsNil() {
							reset = true
						}
					}
				}
			}
		})
		r.Check(reset, "R3.take", "formatter/trivia.(CommentMap)."+x[0]+": "+x[1]+" reset", fn.Pos(), "the slice handed out is cleared", x[0]+" no longer clears CommentMap."+x[1]+": the comments are handed out again or reported as orphans")
	}
	r.Floor("R3.take", 5)
}
