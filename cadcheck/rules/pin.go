package rules

import (
	"encoding/json"
	"go/types"
	"os"
	"sort"
	"strings"

	"cadcheck/core"
)

// pinGroup selects constants of one persisted enum.
type pinGroup struct {
	Rel      string   // module-relative package
	TypeName string   // constants of this named type (""= use Prefixes on all package-level constants)
	Prefixes []string // name prefixes (for untyped / differently typed constants)
	Why      string
}

func (g pinGroup) key() string {
	if g.TypeName != "" {
		return g.Rel + "." + g.TypeName
	}
	return g.Rel + ":" + strings.Join(g.Prefixes, "|")
}

// collect returns name -> exact value of the group's constants.
func (g pinGroup) collect(w *core.World) map[string]string {
	out := map[string]string{}
	p := w.Pkg(g.Rel)
	if p == nil {
		return nil
	}
	sc := p.Types.Scope()
	for _, n := range sc.Names() {
		c, ok := sc.Lookup(n).(*types.Const)
		if !ok {
			continue
		}
		if g.TypeName != "" {
			nt, ok := c.Type().(*types.Named)
			if !ok || nt.Obj().Name() != g.TypeName || nt.Obj().Pkg() != p.Types {
				continue
			}
		} else {
			match := false
			for _, pre := range g.Prefixes {
				if strings.HasPrefix(n, pre) {
					match = true
				}
			}
			if !match {
				continue
			}
		}
		out[n] = c.Val().ExactString()
	}
	return out
}

// pinRule: every constant of the group recorded in tables/<table>.json still exists with the same value; new
// constants must not reuse a pinned value of the same group (typed groups only).
func pinRule(r *core.Run, rule, table string, groups []pinGroup) {
	gen := os.Getenv("CADCHECK_GEN_TABLES") != ""
	var pinned map[string]map[string]string
	if !gen && !r.Table(table, &pinned) {
		return
	}
	out := map[string]map[string]string{}
	for _, g := range groups {
		cur := g.collect(r.W)
		if cur == nil {
			r.Undecided(rule, g.key(), "package not loaded")
			continue
		}
		out[g.key()] = cur
		if gen {
			continue
		}
		pg, ok := pinned[g.key()]
		if !ok {
			r.Undecided(rule, g.key(), "group missing from the pinned table")
			continue
		}
		names := make([]string, 0, len(pg))
		for n := range pg {
			names = append(names, n)
		}
		sort.Strings(names)
		used := map[string]string{}
		for _, n := range names {
			key := g.Rel + "." + n
			v, exists := cur[n]
			used[pg[n]] = n
			switch {
			case !exists:
				r.Bad(rule, key, 0, "persisted constant was removed or renamed (pinned value "+pg[n]+"): "+g.Why)
			case v != pg[n]:
				var pos = r.W.Lookup(g.Rel, n).Pos()
				r.Bad(rule, key, pos, "persisted constant renumbered: pinned "+pg[n]+", now "+v+" — "+g.Why)
			default:
				r.OK(rule, key, r.W.Lookup(g.Rel, n).Pos(), "= "+v+" as pinned")
			}
		}
		if g.TypeName != "" {
			for n, v := range cur {
				if _, old := pg[n]; old {
					continue
				}
				if strings.HasSuffix(n, "_Count") || strings.HasSuffix(n, "Count") {
					continue
				}
				if other, clash := used[v]; clash {
					r.Bad(rule, g.Rel+"."+n, r.W.Lookup(g.Rel, n).Pos(), "new constant reuses the pinned value "+v+" of "+other)
				} else {
					r.OK(rule, g.Rel+"."+n, r.W.Lookup(g.Rel, n).Pos(), "new constant at fresh value "+v)
				}
			}
		}
	}
	if gen {
		b, _ := json.MarshalIndent(out, "", " ")
		_ = os.WriteFile(r.VerifDir+"/tables/"+table+".json", b, 0o644)
	}
}
