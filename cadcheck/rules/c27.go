package rules

import (
	"go/types"
	"sort"
	"strings"

	"golang.org/x/tools/go/ssa"

	"cadcheck/core"
)

func init() { register("C27", c27) }

// fieldsReadOf: names of the fields of the struct pointed to by param p that fn reads (directly).
func fieldsReadOf(fn *ssa.Function, p *ssa.Parameter) map[string]bool {
	out := map[string]bool{}
	core.Instrs(fn, true, func(in ssa.Instruction) {
		fa, ok := in.(*ssa.FieldAddr)
		if !ok {
			return
		}
		base := fa.X
		if fv, isFV := base.(*ssa.FreeVar); isFV {
			_ = fv
		}
		if base != ssa.Value(p) && !core.IsParamValue(base, p) {
			return
		}
		pt, ok := fa.X.Type().Underlying().(*types.Pointer)
		if !ok {
			return
		}
		if s, ok := pt.Elem().Underlying().(*types.Struct); ok {
			out[s.Field(fa.Field).Name()] = true
		}
	})
	return out
}

func c27(r *core.Run) {
	r.Explanation = "Decided clauses: (R1) field coverage of the contract-update type comparator: every Check…TypeEquality method of stdlib.TypeComparator reads every semantic field of the ast type it compares (e.g. ConstantSizedType: Type and Size; ReferenceType: Type and Authorization; DictionaryType: KeyType and ValueType) — " +
		"positions, ranges and comments are not semantic; a comparator that skips a field treats different field types as equal and accepts an update that makes stored data unreadable; " +
		"(R2) rule census: the update validator still reaches its field, nested-declaration, enum-case and conformance checks."
	r.NotDecided = "sufficiency of the update rules for keeping stored data decodable."
	w := r.W
	tc := w.Named("stdlib", "TypeComparator")
	if tc == nil {
		r.Undecided("R1.fields", "stdlib.TypeComparator", "does not resolve")
		return
	}
	ignore := func(name string) bool {
		// Legacy* fields carry pre-1.0 syntax (restricted types, `auth` keyword) that the 1.0 parser only keeps for error reporting
		return strings.Contains(name, "Pos") || strings.Contains(name, "Range") || strings.Contains(name, "Comment") || strings.HasPrefix(name, "Legacy")
	}
	for i := 0; i < tc.NumMethods(); i++ {
		m := tc.Method(i)
		if !strings.HasPrefix(m.Name(), "Check") || !strings.HasSuffix(m.Name(), "Equality") {
			continue
		}
		fn := w.Prog.FuncValue(m)
		if fn == nil || len(fn.Params) < 2 {
			continue
		}
		exp := fn.Params[1]
		pt, ok := exp.Type().Underlying().(*types.Pointer)
		if !ok {
			continue
		}
		st, ok := pt.Elem().Underlying().(*types.Struct)
		if !ok {
			continue
		}
		read := fieldsReadOf(fn, exp)
		// delegation: handing the whole expected type to a module helper counts as reading every field there
		delegated := false
		for _, c := range core.Calls(fn, true) {
			if sf := core.StaticFn(c); sf != nil && core.InModFn(sf) {
				for _, a := range c.Common().Args {
					if a == ssa.Value(exp) {
						delegated = true
					}
				}
			}
		}
		var missing []string
		for j := 0; j < st.NumFields(); j++ {
			f := st.Field(j)
			if ignore(f.Name()) || read[f.Name()] || delegated {
				continue
			}
			missing = append(missing, f.Name())
		}
		sort.Strings(missing)
		r.Check(len(missing) == 0, "R1.fields", core.FuncKey(m), fn.Pos(), "reads every semantic field of "+types.TypeString(pt.Elem(), nil),
			"does not read field(s) "+strings.Join(missing, ", ")+" of the expected type: types differing only there compare equal")
	}
	r.Floor("R1.fields", 9)

	// R2 census
	named := func(n string) func(*types.Func) bool {
		return func(o *types.Func) bool { return o != nil && o.Name() == n }
	}
	if fn := mustFn(r, "R2.census", "stdlib", "ContractUpdateValidator", "Validate"); fn != nil {
		census(r, "R2.census", fn, "checkDeclarationUpdatability", named("checkDeclarationUpdatability"), 3)
	}
	if fn := mustFn(r, "R2.census", "stdlib", "", "checkDeclarationUpdatability"); fn != nil {
		for _, c := range []string{"checkDeclarationKindChange", "checkFields", "checkNestedDeclarations"} {
			census(r, "R2.census", fn, c, func(o *types.Func) bool { return o != nil && strings.EqualFold(o.Name(), c) }, 3)
		}
	}
	r.Floor("R2.census", 3)
}
