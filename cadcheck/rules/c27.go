package rules

import (
	"go/token"
	"go/types"
	"sort"
	"strings"

	"golang.org/x/tools/go/ssa"

	"cadcheck/core"
)

func init() { register("C27", c27) }

// fieldsReadOf: names of the fields of the struct pointed to by param p that fn reads (directly).
func fieldsReadOf(fn *ssa.Function, p *ssa.Parameter) map[string]bool {
	out := map[string]bool{}
	core.Instrs(fn, true, func(in ssa.Instruction) {
		fa, ok := in.(*ssa.FieldAddr)
		if !ok {
			return
		}
		base := fa.X
		if fv, isFV := base.(*ssa.FreeVar); isFV {
			_ = fv
		}
		if base != ssa.Value(p) && !core.IsParamValue(base, p) {
			return
		}
		pt, ok := fa.X.Type().Underlying().(*types.Pointer)
		if !ok {
			return
		}
		if s, ok := pt.Elem().Underlying().(*types.Struct); ok {
			out[s.Field(fa.Field).Name()] = true
		}
	})
	return out
}

func c27(r *core.Run) {
	r.Explanation = "Decided clauses: (R1) field coverage of the contract-update type comparator: every Check…TypeEquality method of stdlib.TypeComparator reads every semantic field of the ast type it compares (e.g. ConstantSizedType: Type and Size; ReferenceType: Type and Authorization; DictionaryType: KeyType and ValueType) — " +
		"positions, ranges and comments are not semantic; a comparator that skips a field treats different field types as equal and accepts an update that makes stored data unreadable; " +
		"(R2) rule census: the update validator still reaches its field, nested-declaration, enum-case and conformance checks; " +
		"(R3) checkNestedDeclarations tests every nested declaration against the removed types on every loop iteration; (R4) inside the comparator a reported mismatch returns before any further comparison runs; " +
		"(R5) every Check<T>Equality method asserts the new type to exactly the concrete kind *ast.T of the old one; (R6) the import table of the validator records, for every alias, the location of the imported declaration (its own name), not of the alias."
	r.NotDecided = "sufficiency of the update rules for keeping stored data decodable."
	w := r.W
	tc := w.Named("stdlib", "TypeComparator")
	if tc == nil {
		r.Undecided("R1.fields", "stdlib.TypeComparator", "does not resolve")
		return
	}
	ignore := func(name string) bool {
		// Legacy* fields carry pre-1.0 syntax (restricted types, `auth` keyword) that the 1.0 parser only keeps for error reporting
		return strings.Contains(name, "Pos") || strings.Contains(name, "Range") || strings.Contains(name, "Comment") || strings.HasPrefix(name, "Legacy")
	}
	for i := 0; i < tc.NumMethods(); i++ {
		m := tc.Method(i)
		if !strings.HasPrefix(m.Name(), "Check") || !strings.HasSuffix(m.Name(), "Equality") {
			continue
		}
		fn := w.Prog.FuncValue(m)
		if fn == nil || len(fn.Params) < 2 {
			continue
		}
		exp := fn.Params[1]
		pt, ok := exp.Type().Underlying().(*types.Pointer)
		if !ok {
			continue
		}
		st, ok := pt.Elem().Underlying().(*types.Struct)
		if !ok {
			continue
		}
		read := fieldsReadOf(fn, exp)
		// delegation: handing the whole expected type to a module helper counts as reading every field there
		delegated := false
		for _, c := range core.Calls(fn, true) {
			if sf := core.StaticFn(c); sf != nil && core.InModFn(sf) {
				for _, a := range c.Common().Args {
					if a == ssa.Value(exp) {
						delegated = true
					}
				}
			}
		}
		var missing []string
		for j := 0; j < st.NumFields(); j++ {
			f := st.Field(j)
			if ignore(f.Name()) || read[f.Name()] || delegated {
				continue
			}
			missing = append(missing, f.Name())
		}
		sort.Strings(missing)
		r.Check(len(missing) == 0, "R1.fields", core.FuncKey(m), fn.Pos(), "reads every semantic field of "+types.TypeString(pt.Elem(), nil),
			"does not read field(s) "+strings.Join(missing, ", ")+" of the expected type: types differing only there compare equal")
	}
	r.Floor("R1.fields", 9)

	// R2 census
	named := func(n string) func(*types.Func) bool {
		return func(o *types.Func) bool { return o != nil && o.Name() == n }
	}
	if fn := mustFn(r, "R2.census", "stdlib", "ContractUpdateValidator", "Validate"); fn != nil {
		census(r, "R2.census", fn, "checkDeclarationUpdatability", named("checkDeclarationUpdatability"), 3)
	}
	if fn := mustFn(r, "R2.census", "stdlib", "", "checkDeclarationUpdatability"); fn != nil {
		for _, c := range []string{"checkDeclarationKindChange", "checkFields", "checkNestedDeclarations"} {
			census(r, "R2.census", fn, c, func(o *types.Func) bool { return o != nil && strings.EqualFold(o.Name(), c) }, 3)
		}
	}
	r.Floor("R2.census", 3)

	// R3 every new nested declaration is tested against the removed types: in checkNestedDeclarations the call of
	// checkTypeNotRemoved is executed on every iteration of the loop it stands in (it dominates every back edge of that loop),
	// in particular for declarations that have no predecessor in the old program (a removed type re-declared later)
	if fn := mustFn(r, "R3.removed", "stdlib", "", "checkNestedDeclarations"); fn != nil {
		n := 0
		for _, c := range core.CallsTo(fn, false, named("checkTypeNotRemoved")) {
			n++
			cb := c.Block()
			ok := true
			loops := 0
			for _, b := range fn.Blocks {
				for _, h := range b.Succs {
					if !h.Dominates(b) || !h.Dominates(cb) {
						continue // not a back edge, or the call is not inside this loop
					}
					// the call must be inside the loop body: the latch is reachable from it
					if !core.ReachableAfter(c, b.Instrs[len(b.Instrs)-1]) && cb != b {
						continue
					}
					loops++
					if !cb.Dominates(b) {
						ok = false
					}
				}
			}
			r.Check(ok && loops > 0, "R3.removed", "stdlib.checkNestedDeclarations: checkTypeNotRemoved #"+itoa(n)+" runs for every declaration", posOf(c), "the call dominates every back edge of its loop",
				"an iteration of the declaration loop can continue without the removed-type test (e.g. new declarations are skipped first): a type removed with #removedType can be declared again with another shape, and stored values of the old type are decoded against it")
		}
		if n == 0 {
			r.Undecided("R3.removed", "stdlib.checkNestedDeclarations", "no call of checkTypeNotRemoved")
		}
	}
	r.Floor("R3.removed", 3)

	// R4 comparators stop at the first mismatch: in every Check…Equality method, the non-nil outcome of a nested comparison
	// leads to a return before any further comparison is made (a later successful comparison must not overwrite the mismatch)
	isCmp := func(o *types.Func) bool {
		return o != nil && (o.Name() == "CheckEqual" || strings.HasPrefix(o.Name(), "Check") && strings.HasSuffix(o.Name(), "Equality") || o.Name() == "checkNameEquality")
	}
	ncmp := 0
	for i := 0; i < tc.NumMethods(); i++ {
		m := tc.Method(i)
		fn := w.Prog.FuncValue(m)
		if fn == nil || len(fn.Blocks) == 0 {
			continue
		}
		for _, c := range core.CallsTo(fn, false, isCmp) {
			errs := core.ErrResults(c)
			if len(errs) == 0 {
				continue
			}
			e := errs[0]
			refs := e.Referrers()
			if refs == nil {
				continue
			}
			for _, ref := range *refs {
				bo, ok := ref.(*ssa.BinOp)
				if !ok || (bo.Op != token.NEQ && bo.Op != token.EQL) {
					continue
				}
				brefs := bo.Referrers()
				if brefs == nil {
					continue
				}
				for _, br := range *brefs {
					iff, ok := br.(*ssa.If)
					if !ok {
						continue
					}
					ncmp++
					// successor taken when the error is non-nil
					nonNil := iff.Block().Succs[0]
					if bo.Op == token.EQL {
						nonNil = iff.Block().Succs[1]
					}
					hit := core.ReachUnder(fn, nil, []*ssa.BasicBlock{nonNil}, func(in ssa.Instruction) bool { _, isRet := in.(*ssa.Return); return isRet },
						func(in ssa.Instruction) bool {
							cc, isCall := in.(ssa.CallInstruction)
							return isCall && isCmp(core.Callee(cc))
						})
					r.Check(hit == nil, "R4.firstmismatch", core.SSAKey(fn)+" -> "+core.Callee(c).Name()+": mismatch ends the comparison", posOf(c), "the non-nil outcome returns before any further comparison",
						"after a nested comparison reported a mismatch another comparison can still run before the method returns: a later match overwrites the mismatch and different types compare equal")
				}
			}
		}
	}
	r.Floor("R4.firstmismatch", 5)
	c27SameKindAssertion(r)
	c27ImportLocationName(r)
}

// c27SameKindAssertion: R5 — each Check<T>Equality method of the update validator's type comparator receives the old
// type as a concrete *ast.T and the new one as an interface; the new type must be asserted to exactly *ast.T (a
// mismatch is an incompatible update). Asserting a wider interface makes different kinds of types (a disjunctive and a
// conjunctive entitlement set, say) compare equal element-wise.
func c27SameKindAssertion(r *core.Run) {
	const rule = "R5.samekind"
	w := r.W
	n := 0
	for _, fn := range w.SrcFuncsIn("stdlib") {
		if fn.Parent() != nil || core.RecvName0(fn) != "TypeComparator" || !strings.HasPrefix(fn.Name(), "Check") || !strings.HasSuffix(fn.Name(), "Equality") {
			continue
		}
		if len(fn.Params) < 3 {
			continue
		}
		expected, found := fn.Params[1], fn.Params[2]
		if _, isPtr := expected.Type().(*types.Pointer); !isPtr {
			continue
		}
		if _, isIface := found.Type().Underlying().(*types.Interface); !isIface {
			continue
		}
		n++
		same, other := false, ""
		core.Instrs(fn, true, func(in ssa.Instruction) {
			ta, ok := in.(*ssa.TypeAssert)
			if !ok || !strings.Contains(core.OriginLeaves(ta.X), "param#2:") {
				return
			}
			if types.Identical(ta.AssertedType, expected.Type()) {
				same = true
			} else {
				other = types.TypeString(ta.AssertedType, shortQual)
			}
		})
		why := "the new type is never asserted to the old type's kind"
		if other != "" {
			why = "the new type is asserted to " + other + " instead of the old type's kind " + types.TypeString(expected.Type(), shortQual)
		}
		r.Check(same, rule, core.SSAKey(fn), fn.Pos(), "the new type is asserted to the kind of the old type", why+": types of different kinds compare equal and an incompatible update is accepted")
	}
	r.Floor(rule, 8)
}

// c27ImportLocationName: R6 — the validator resolves a nominal type through the table built by collectImports: alias →
// location of the imported declaration. Two versions of a contract refer to the same imported type only if address
// *and declared name* agree; a location named after the alias makes `import Foo as X` and `import Bar as X` identical.
// The Name stored into every common.AddressLocation built in collectImports must come from the import's identifier,
// never from its alias.
func c27ImportLocationName(r *core.Run) {
	const rule = "R6.importname"
	fn := mustFn(r, rule, "stdlib", "", "collectImports")
	if fn == nil {
		return
	}
	n := 0
	core.Instrs(fn, true, func(in ssa.Instruction) {
		st, ok := in.(*ssa.Store)
		if !ok {
			return
		}
		fa, ok := st.Addr.(*ssa.FieldAddr)
		if !ok {
			return
		}
		pt, ok := fa.X.Type().Underlying().(*types.Pointer)
		if !ok {
			return
		}
		nt, ok := pt.Elem().(*types.Named)
		if !ok || nt.Obj().Name() != "AddressLocation" {
			return
		}
		stt := nt.Underlying().(*types.Struct)
		if stt.Field(fa.Field).Name() != "Name" {
			return
		}
		n++
		leaves := core.OriginLeaves(st.Val)
		r.Check(!strings.Contains(leaves, ".Alias"), rule, "stdlib.collectImports: AddressLocation.Name", st.Pos(), "the location is named after the imported declaration "+leaves,
			"the location recorded for an import is named after its alias "+leaves+": the same alias for different contracts yields identical locations, and a type swapped behind an alias compares as unchanged")
	})
	r.Check(n >= 1, rule, "stdlib.collectImports: recorded locations", 0, itoa(n)+" found", "the location construction of collectImports was not found")
	r.Floor(rule, 2)
}
