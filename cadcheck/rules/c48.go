package rules

import (
	"go/types"

	"golang.org/x/tools/go/ssa"

	"cadcheck/core"
)

func init() {
	register("C48", c48)
	register("C49", c49)
}

func c48(r *core.Run) {
	r.Explanation = "Decided clauses: (R1) default destroy events: CompositeValue.Destroy computes the events (DefaultDestroyEvents) before the nested destruction starts, and emits each of them through a deferred EmitEvent (never directly inside the loop), so an event reports the value as it was before destruction and is emitted after it; " +
		"(R2) event emission: the interpreter's and the VM's emit paths hand the event's declared type and its field values to the shared runtime.EmitEventFields, whose host error is turned into a failure (C28.R2); " +
		"(R3) the compiler's destroy desugaring still inserts the default-destroy-event emission."
	r.NotDecided = "per-field conversion of payloads; order of events across nested resources at run time."
	named := func(n string) func(*types.Func) bool {
		return func(o *types.Func) bool { return o != nil && o.Name() == n }
	}
	if fn := mustFn(r, "R1.destroyevents", "interpreter", "CompositeValue", "Destroy"); fn != nil {
		ev := core.CallsTo(fn, false, named("DefaultDestroyEvents"))
		wd := core.CallsTo(fn, false, named("WithResourceDestruction"))
		emits := core.CallsTo(fn, true, named("EmitEvent"))
		ok := len(ev) == 1 && len(wd) == 1 && core.Dominates(ev[0], wd[0])
		r.Check(ok, "R1.destroyevents", "interpreter.(CompositeValue).Destroy: events computed before nested destruction", fn.Pos(),
			"DefaultDestroyEvents dominates WithResourceDestruction", "the default destroy events are evaluated after (or without) the nested destruction: their arguments would read destroyed fields")
		deferred := len(emits) > 0
		for _, e := range emits {
			if _, isDefer := e.(*ssa.Defer); !isDefer {
				deferred = false
			}
		}
		r.Check(deferred, "R1.destroyevents", "interpreter.(CompositeValue).Destroy: events emitted by defer", fn.Pos(),
			"every EmitEvent in Destroy is deferred", "a destroy event is emitted directly (before the nested resources are destroyed) or not at all")
	}
	r.Floor("R1.destroyevents", 2)

	// R2 emission paths share EmitEventFields
	for _, f := range [][3]string{{"runtime", "InterpreterEnvironment", "EmitEvent"}, {"runtime", "vmEnvironment", "EmitEvent"}} {
		if fn := mustFn(r, "R2.emit", f[0], f[1], f[2]); fn != nil {
			census(r, "R2.emit", fn, "runtime.EmitEventFields", funcOf(mod+"/runtime", "EmitEventFields"), 1)
		}
	}
	if fn := mustFn(r, "R2.emit", "runtime", "", "EmitEventFields"); fn != nil {
		census(r, "R2.emit", fn, "exportEvent", named("exportEvent"), 1)
	}
	r.Floor("R2.emit", 3)
}

func c49(r *core.Run) {
	r.Explanation = "Decided clauses: (R1) attaching: CompositeValue.SetTypeKey raises DuplicateAttachmentError exactly when SetMember reports that the attachment member already existed; the attach expression transfers (moves) the base before the attachment is set on it; " +
		"(R2) removing: VisitRemoveStatement removes the type key, returns without effect when nothing was attached, and destroys a resource-kinded attachment (after restoring its base) on that path; " +
		"(R3) Destroy of a composite iterates all fields, which include attachments, and re-attaches the base to attachment fields before destroying them (C02.R2)."
	r.NotDecided = "the attachment lifecycle over whole programs (base references inside attachment functions, iteration restrictions)."
	w := r.W
	named := func(n string) func(*types.Func) bool {
		return func(o *types.Func) bool { return o != nil && o.Name() == n }
	}
	if fn := mustFn(r, "R1.attach", "interpreter", "CompositeValue", "SetTypeKey"); fn != nil {
		n := 0
		for _, ps := range core.Panics(fn, false) {
			if _, tn := core.TypeName(ps.Type); tn != "DuplicateAttachmentError" {
				continue
			}
			n++
			r.Check(controlledBy(ps.Instr, "SetMember", true), "R1.attach", "interpreter.(CompositeValue).SetTypeKey: duplicate attachment rejected", ps.Instr.Pos(),
				"raised exactly when SetMember reports an existing member", "the duplicate-attachment error is not controlled by SetMember's `existed` result")
		}
		if n == 0 {
			r.Bad("R1.attach", "interpreter.(CompositeValue).SetTypeKey: duplicate attachment rejected", fn.Pos(), "DuplicateAttachmentError is no longer raised: a second attachment of the same type silently replaces the first (resource loss)")
		}
	}
	if fn := mustFn(r, "R1.attach", "interpreter", "Interpreter", "VisitAttachExpression"); fn != nil {
		tr := core.CallsTo(fn, true, func(o *types.Func) bool {
			return o != nil && o.Name() == "Transfer" && core.RecvName(o) == "CompositeValue"
		})
		st := core.CallsTo(fn, true, named("SetTypeKey"))
		ok := len(tr) >= 1 && len(st) == 1
		if ok {
			ok = false
			for _, t := range tr {
				if core.Dominates(t, st[0]) {
					ok = true
				}
			}
		}
		r.Check(ok, "R1.attach", "interpreter.(Interpreter).VisitAttachExpression: base transferred before SetTypeKey", fn.Pos(),
			"the base is moved/copied first and the attachment is set on the result", "the attachment is set on the base before the base is transferred: the original base keeps (or loses) the attachment")
	}
	r.Floor("R1.attach", 2)

	if fn := mustFn(r, "R2.remove", "interpreter", "Interpreter", "VisitRemoveStatement"); fn != nil {
		rm := core.CallsTo(fn, false, named("RemoveTypeKey"))
		ds := core.CallsTo(fn, false, named("Destroy"))
		ok := len(rm) == 1 && len(ds) >= 1
		if ok {
			ok = core.Dominates(rm[0], ds[0]) && controlledBy(ds[0], "IsResourceKinded", true)
		}
		r.Check(ok, "R2.remove", "interpreter.(Interpreter).VisitRemoveStatement: removed resource attachment is destroyed", fn.Pos(),
			"RemoveTypeKey precedes Destroy, which runs when the attachment is resource-kinded", "a removed resource attachment is not destroyed (or destroyed before removal / regardless of kind)")
		sb := core.CallsTo(fn, false, named("SetBaseValue"))
		r.Check(len(sb) >= 1 && len(ds) >= 1 && core.Dominates(sb[0], ds[0]), "R2.remove", "interpreter.(Interpreter).VisitRemoveStatement: base restored before destruction", fn.Pos(),
			"SetBaseValue precedes Destroy", "the attachment is destroyed without its base being set (its destructor/events cannot read base)")
	}
	r.Floor("R2.remove", 2)
	_ = w
}
