package rules

import (
	"go/types"
	"strings"

	"golang.org/x/tools/go/ssa"

	"cadcheck/core"
)

func init() {
	register("C48", c48)
	register("C49", c49)
}

func c48(r *core.Run) {
	r.Explanation = "Decided clauses: (R1) default destroy events: CompositeValue.Destroy computes the events (DefaultDestroyEvents) before the nested destruction starts, and emits each of them through a deferred EmitEvent (never directly inside the loop), so an event reports the value as it was before destruction and is emitted after it; " +
		"(R2) event emission: the interpreter's and the VM's emit paths hand the event's declared type and its field values to the shared runtime.EmitEventFields, whose host error is turned into a failure (C28.R2); " +
		"(R3) the compiler's destroy desugaring still inserts the default-destroy-event emission."
	r.NotDecided = "per-field conversion of payloads; order of events across nested resources at run time."
	named := func(n string) func(*types.Func) bool {
		return func(o *types.Func) bool { return o != nil && o.Name() == n }
	}
	if fn := mustFn(r, "R1.destroyevents", "interpreter", "CompositeValue", "Destroy"); fn != nil {
		ev := core.CallsTo(fn, false, named("DefaultDestroyEvents"))
		wd := core.CallsTo(fn, false, named("WithResourceDestruction"))
		emits := core.CallsTo(fn, true, named("EmitEvent"))
		ok := len(ev) == 1 && len(wd) == 1 && core.Dominates(ev[0], wd[0])
		r.Check(ok, "R1.destroyevents", "interpreter.(CompositeValue).Destroy: events computed before nested destruction", fn.Pos(),
			"DefaultDestroyEvents dominates WithResourceDestruction", "the default destroy events are evaluated after (or without) the nested destruction: their arguments would read destroyed fields")
		deferred := len(emits) > 0
		for _, e := range emits {
			if _, isDefer := e.(*ssa.Defer); !isDefer {
				deferred = false
			}
		}
		r.Check(deferred, "R1.destroyevents", "interpreter.(CompositeValue).Destroy: events emitted by defer", fn.Pos(),
			"every EmitEvent in Destroy is deferred", "a destroy event is emitted directly (before the nested resources are destroyed) or not at all")
	}
	r.Floor("R1.destroyevents", 2)

	// R2 emission paths share EmitEventFields
	for _, f := range [][3]string{{"runtime", "InterpreterEnvironment", "EmitEvent"}, {"runtime", "vmEnvironment", "EmitEvent"}} {
		if fn := mustFn(r, "R2.emit", f[0], f[1], f[2]); fn != nil {
			census(r, "R2.emit", fn, "runtime.EmitEventFields", funcOf(mod+"/runtime", "EmitEventFields"), 1)
		}
	}
	if fn := mustFn(r, "R2.emit", "runtime", "", "EmitEventFields"); fn != nil {
		census(r, "R2.emit", fn, "exportEvent", named("exportEvent"), 1)
	}
	r.Floor("R2.emit", 3)

	// R3 the recursion guard of value export is scoped: in runtime.exportValue every insertion into the seen-references map is
	// paired with a deferred delete (otherwise a reference that occurs twice in one event is exported as nil the second time)
	if fn := mustFn(r, "R3.seenrefs", "runtime", "", "exportValue"); fn != nil {
		ins, del := 0, 0
		core.Instrs(fn, false, func(in ssa.Instruction) {
			switch x := in.(type) {
			case *ssa.MapUpdate:
				if _, tn := core.TypeName(x.Map.Type()); tn == "seenReferences" {
					ins++
				}
			case *ssa.Defer:
				if b, ok := x.Call.Value.(*ssa.Builtin); ok && b.Name() == "delete" && len(x.Call.Args) > 0 {
					if _, tn := core.TypeName(x.Call.Args[0].Type()); tn == "seenReferences" {
						del++
					}
				}
			}
		})
		r.Check(ins > 0 && ins == del, "R3.seenrefs", "runtime.exportValue: seen-references entries are removed on return", fn.Pos(), itoa(ins)+" insertions, "+itoa(del)+" deferred deletions",
			"a reference is marked as seen ("+itoa(ins)+" insertion(s)) without a matching deferred removal ("+itoa(del)+"): the recursion guard becomes a permanent visited set and the second occurrence of the same reference in an event is exported as nil")
	}
	r.Floor("R3.seenrefs", 1)

	// R4 every argument of a compiled emit statement is converted to its parameter type: in Compiler.VisitEmitStatement the
	// conversion call runs on every iteration of the argument loop (it dominates every back edge), so an optional parameter
	// receives a boxed value on every path of a branching argument
	if fn := mustFn(r, "R4.emitconvert", "bbq/compiler", "Compiler", "VisitEmitStatement"); fn != nil {
		n := callsDominateBackEdges(r, "R4.emitconvert", fn, func(o *types.Func) bool {
			return o != nil && (o.Name() == "emitConvert" || o.Name() == "emitTransferAndConvert" || o.Name() == "mustEmitTransferAndConvert")
		},
			"bbq/compiler.(Compiler).VisitEmitStatement: argument conversion", "the conversion of an event argument to its parameter type is skipped on some iteration of the argument loop (e.g. when the last emitted instruction is `nil`): a branching argument reaches an optional field unboxed in the VM only")
		if n == 0 {
			r.Undecided("R4.emitconvert", "bbq/compiler.(Compiler).VisitEmitStatement", "no conversion call inside the argument loop")
		}
	}
	r.Floor("R4.emitconvert", 1)
}

func c49(r *core.Run) {
	r.Explanation = "Decided clauses: (R1) attaching: CompositeValue.SetTypeKey raises DuplicateAttachmentError exactly when SetMember reports that the attachment member already existed; the attach expression transfers (moves) the base before the attachment is set on it; " +
		"(R2) removing: VisitRemoveStatement removes the type key, returns without effect when nothing was attached, and destroys a resource-kinded attachment (after restoring its base) on that path; " +
		"(R3) Destroy of a composite iterates all fields, which include attachments, and re-attaches the base to attachment fields before destroying them (C02.R2)."
	r.NotDecided = "the attachment lifecycle over whole programs (base references inside attachment functions, iteration restrictions)."
	w := r.W
	named := func(n string) func(*types.Func) bool {
		return func(o *types.Func) bool { return o != nil && o.Name() == n }
	}
	if fn := mustFn(r, "R1.attach", "interpreter", "CompositeValue", "SetTypeKey"); fn != nil {
		n := 0
		for _, ps := range core.Panics(fn, false) {
			if _, tn := core.TypeName(ps.Type); tn != "DuplicateAttachmentError" {
				continue
			}
			n++
			r.Check(controlledBy(ps.Instr, "SetMember", true), "R1.attach", "interpreter.(CompositeValue).SetTypeKey: duplicate attachment rejected", ps.Instr.Pos(),
				"raised exactly when SetMember reports an existing member", "the duplicate-attachment error is not controlled by SetMember's `existed` result")
		}
		if n == 0 {
			r.Bad("R1.attach", "interpreter.(CompositeValue).SetTypeKey: duplicate attachment rejected", fn.Pos(), "DuplicateAttachmentError is no longer raised: a second attachment of the same type silently replaces the first (resource loss)")
		}
	}
	if fn := mustFn(r, "R1.attach", "interpreter", "Interpreter", "VisitAttachExpression"); fn != nil {
		tr := core.CallsTo(fn, true, func(o *types.Func) bool {
			return o != nil && o.Name() == "Transfer" && core.RecvName(o) == "CompositeValue"
		})
		st := core.CallsTo(fn, true, named("SetTypeKey"))
		ok := len(tr) >= 1 && len(st) == 1
		if ok {
			ok = false
			for _, t := range tr {
				if core.Dominates(t, st[0]) {
					ok = true
				}
			}
		}
		r.Check(ok, "R1.attach", "interpreter.(Interpreter).VisitAttachExpression: base transferred before SetTypeKey", fn.Pos(),
			"the base is moved/copied first and the attachment is set on the result", "the attachment is set on the base before the base is transferred: the original base keeps (or loses) the attachment")
	}
	r.Floor("R1.attach", 2)

	// both engines: the interpreter's statement visitor and the VM's instruction handler
	for _, f := range [][3]string{{"interpreter", "Interpreter", "VisitRemoveStatement"}, {"bbq/vm", "", "opRemoveTypeIndex"}} {
		fn := mustFn(r, "R2.remove", f[0], f[1], f[2])
		if fn == nil {
			continue
		}
		key := core.SSAKey(fn)
		rm := core.CallsTo(fn, false, named("RemoveTypeKey"))
		ds := core.CallsTo(fn, false, named("Destroy"))
		ok := len(rm) == 1 && len(ds) >= 1
		if ok {
			ok = core.Dominates(rm[0], ds[0]) && controlledBy(ds[0], "IsResourceKinded", true)
		}
		r.Check(ok, "R2.remove", key+": removed resource attachment is destroyed", fn.Pos(),
			"RemoveTypeKey precedes Destroy, which runs when the attachment is resource-kinded (IsResourceKinded)", "a removed resource attachment is not destroyed (or destroyed before removal / under another test than IsResourceKinded, e.g. a comparison of the attachment's composite kind, which is never `resource`)")
		sb := core.CallsTo(fn, false, named("SetBaseValue"))
		r.Check(len(sb) >= 1 && len(ds) >= 1 && core.Dominates(sb[0], ds[0]), "R2.remove", key+": base restored before destruction", fn.Pos(),
			"SetBaseValue precedes Destroy", "the attachment is destroyed without its base being set (its destructor/events cannot read base)")
	}
	removeAbsentIsNoop(r, "R2.remove")
	r.Floor("R2.remove", 6)

	// R3 the base of an attachment is always rebound: every returning path of CompositeValue.SetBaseValue assigns v.base (a
	// resource moved within an account gets a new wrapper with the same value ID; keeping the old wrapper leaves `base`
	// pointing at an invalidated value), and the assignment follows the base-type test
	if fn := mustFn(r, "R3.rebind", "interpreter", "CompositeValue", "SetBaseValue"); fn != nil {
		isStore := func(in ssa.Instruction) bool {
			st, ok := in.(*ssa.Store)
			if !ok {
				return false
			}
			fa, ok := st.Addr.(*ssa.FieldAddr)
			if !ok {
				return false
			}
			tn, f := structFieldOf(fa)
			return tn == "CompositeValue" && f == "base" && len(fn.Params) > 1 && core.IsParamValue(st.Val, fn.Params[len(fn.Params)-1])
		}
		ok := len(core.Returns(fn)) > 0
		for _, ret := range core.Returns(fn) {
			if !core.MustPass(ret, isStore) {
				ok = false
			}
		}
		r.Check(ok, "R3.rebind", "interpreter.(CompositeValue).SetBaseValue: base assigned on every returning path", fn.Pos(), "v.base = base before every return",
			"SetBaseValue can return without assigning the given base (e.g. a same-value-ID shortcut): after a move of the base resource the attachment keeps the invalidated wrapper and `base` fails")
	}
	r.Floor("R3.rebind", 1)
	_ = w
}

// callsDominateBackEdges: every call selected by sel that stands inside a loop of fn dominates every back edge of that
// loop — it is executed on every iteration that continues. Returns the number of calls examined.
func callsDominateBackEdges(r *core.Run, rule string, fn *ssa.Function, sel func(*types.Func) bool, what, why string) int {
	n := 0
	for _, c := range core.CallsTo(fn, false, sel) {
		cb := c.Block()
		ok := true
		loops := 0
		for _, b := range fn.Blocks {
			for _, h := range b.Succs {
				if !h.Dominates(b) || !h.Dominates(cb) {
					continue
				}
				if cb != b && !core.ReachableAfter(c, b.Instrs[len(b.Instrs)-1]) {
					continue
				}
				loops++
				if !cb.Dominates(b) {
					ok = false
				}
			}
		}
		if loops == 0 {
			continue
		}
		n++
		r.Check(ok, rule, what+" #"+itoa(n)+" runs on every iteration", posOf(c), "the call dominates every back edge of its loop", why)
	}
	return n
}

// removeAbsentIsNoop: in both engines `remove A from v` of an attachment that is not attached is a no-op: the handler returns
// normally under a nil test of RemoveTypeKey's result, before the result is type-asserted (a nil interface fails the
// assertion and surfaces as an internal "unreachable" error in one engine only).
func removeAbsentIsNoop(r *core.Run, rule string) {
	for _, f := range [][3]string{{"interpreter", "Interpreter", "VisitRemoveStatement"}, {"bbq/vm", "", "opRemoveTypeIndex"}} {
		fn := mustFn(r, rule, f[0], f[1], f[2])
		if fn == nil {
			continue
		}
		ok := false
		for _, ret := range core.Returns(fn) {
			for _, a := range core.ControllingConds(ret) {
				d := core.CondDesc(a.Var.Call, a.Val)
				if (strings.HasPrefix(d, "+==(") || strings.HasPrefix(d, "-!=(")) && strings.Contains(d, "via:RemoveTypeKey") && strings.Contains(d, "const:nil") {
					ok = true
				}
			}
		}
		r.Check(ok, rule, core.SSAKey(fn)+": absent attachment is a no-op", fn.Pos(), "returns under RemoveTypeKey(...) == nil",
			"the handler no longer returns when RemoveTypeKey reports that the attachment is not attached: the nil result reaches the type assertion and the statement fails with an internal error in this engine")
	}
}
