package rules

import (
	"go/types"
	"sort"
	"strings"

	"golang.org/x/tools/go/ssa"

	"cadcheck/core"
)

// c42PanicKinds (R9.panickind): Decoder.Decode turns a recovered panic into a returned error only when the panic value
// is an `error` that is neither a Go run-time error nor a cadence InternalError; everything else is re-panicked and
// crashes the caller. So every panic raised on the decoding side of encoding/ccf must carry a plain error. The
// reviewed exceptions (states no input can reach) are listed in tables/c42_decoder_hard_panics.
func c42PanicKinds(r *core.Run) {
	w := r.W
	rule := "R9.panickind"
	ccfPath := mod + "/encoding/ccf"
	var internal *types.Interface
	if ep := w.ByPath[mod+"/errors"]; ep != nil {
		if o := ep.Types.Scope().Lookup("InternalError"); o != nil {
			internal, _ = o.Type().Underlying().(*types.Interface)
		}
	}
	errT, _ := types.Universe.Lookup("error").Type().Underlying().(*types.Interface)
	if internal == nil || errT == nil {
		r.Undecided(rule, "errors.InternalError", "does not resolve")
		return
	}
	reviewed := map[string]string{}
	if !r.Table("c42_decoder_hard_panics", &reviewed) {
		return
	}

	// decoding side: functions declared in decode*.go, plus package functions they reach statically
	side := map[*ssa.Function]bool{}
	var work []*ssa.Function
	for _, fn := range w.SrcFuncsIn("encoding/ccf") {
		if fn.Parent() == nil && strings.HasPrefix(w.File(fn.Pos()), "encoding/ccf/decode") {
			side[fn] = true
			work = append(work, fn)
		}
	}
	for len(work) > 0 {
		fn := work[0]
		work = work[1:]
		for _, c := range core.Calls(fn, true) {
			if sc := c.Common().StaticCallee(); sc != nil && sc.Pkg != nil && sc.Pkg.Pkg.Path() == ccfPath && sc.Parent() == nil && sc.Synthetic == "" && !side[sc] {
				if strings.HasPrefix(w.File(sc.Pos()), "encoding/ccf/encode") || strings.HasPrefix(w.File(sc.Pos()), "encoding/ccf/traverse") {
					continue
				}
				side[sc] = true
				work = append(work, sc)
			}
		}
	}
	var fns []*ssa.Function
	for fn := range side {
		fns = append(fns, fn)
	}
	sort.Slice(fns, func(i, j int) bool { return core.SSAKey(fns[i]) < core.SSAKey(fns[j]) })

	var classify func(v ssa.Value, d int) string
	classify = func(v ssa.Value, d int) string {
		if v == nil || d > 6 {
			return "error"
		}
		t := v.Type()
		if types.Implements(t, internal) {
			return "internal:" + types.TypeString(t, func(p *types.Package) string { return p.Name() })
		}
		switch x := v.(type) {
		case *ssa.MakeInterface:
			return classify(x.X, d+1)
		case *ssa.ChangeInterface:
			return classify(x.X, d+1)
		case *ssa.Phi:
			worst := "error"
			for _, e := range x.Edges {
				if c := classify(e, d+1); c != "error" {
					worst = c
				}
			}
			return worst
		}
		if _, isIface := t.Underlying().(*types.Interface); isIface {
			// a value of interface type whose dynamic type is not visible here (a recovered value, an `error` variable)
			return "error"
		}
		if types.Implements(t, errT) || types.Implements(types.NewPointer(t), errT) {
			return "error"
		}
		return "non-error:" + types.TypeString(t, func(p *types.Package) string { return p.Name() })
	}
	n := 0
	used := map[string]bool{}
	for _, fn := range fns {
		core.Instrs(fn, true, func(in ssa.Instruction) {
			p, ok := in.(*ssa.Panic)
			if !ok {
				return
			}
			n++
			cls := classify(p.X, 0)
			key := core.SSAKey(fn) + ": panic " + cls
			if cls == "error" {
				r.OK(rule, core.SSAKey(fn)+": panic error", p.Pos(), "panic value is a plain error: Decode returns it")
				return
			}
			if why, ok := reviewed[key]; ok {
				used[key] = true
				r.OK(rule, key, p.Pos(), "reviewed: "+why)
				return
			}
			r.Bad(rule, key, p.Pos(), "the decoding side panics with a value Decoder.Decode re-panics instead of returning as a decode error: malformed input that reaches it crashes the caller")
		})
	}
	for k := range reviewed {
		if !used[k] {
			r.Bad(rule, "stale reviewed entry: "+k, 0, "tables/c42_decoder_hard_panics lists a panic that no longer exists")
		}
	}
	r.Check(n >= 8, rule, "encoding/ccf decoding side: panic sites examined", 0, "panic sites found", "fewer panic sites than reviewed: the decoding side was not resolved")
	r.Floor(rule, 3)
}

// c42TypeKeys (R10.typekey): the encoder's tables about cadence types (visited typedefs, CCF type IDs, abstract-type
// cache, sorted-field-index cache) are maps keyed by a string taken from the type. Two different types must never
// share a key, and Type.ID() is the one identifier that is unique per type (it includes the location); a key derived
// from any other method of a cadence type (qualified identifier, name) makes same-named types of different locations
// share an entry.
func c42TypeKeys(r *core.Run) {
	w := r.W
	rule := "R10.typekey"
	n := 0
	isCadenceRecv := func(c *ssa.Call) (string, bool) {
		var recv types.Type
		name := ""
		if c.Call.IsInvoke() {
			recv = c.Call.Value.Type()
			name = c.Call.Method.Name()
		} else if sc := c.Call.StaticCallee(); sc != nil && sc.Signature.Recv() != nil {
			recv = sc.Signature.Recv().Type()
			name = sc.Name()
		} else {
			return "", false
		}
		if p, ok := recv.(*types.Pointer); ok {
			recv = p.Elem()
		}
		nt, ok := recv.(*types.Named)
		if !ok || nt.Obj().Pkg() == nil || nt.Obj().Pkg().Path() != mod {
			return "", false
		}
		// only methods of cadence types (implementations of / the interface cadence.Type and its refinements)
		if !strings.HasSuffix(nt.Obj().Name(), "Type") {
			return "", false
		}
		return nt.Obj().Name() + "." + name, true
	}
	var derive func(v ssa.Value, d int, pd int, seen map[ssa.Value]bool, out map[string]bool)
	derive = func(v ssa.Value, d int, pd int, seen map[ssa.Value]bool, out map[string]bool) {
		if v == nil || d > 10 || seen[v] {
			return
		}
		seen[v] = true
		switch x := v.(type) {
		case *ssa.Call:
			if m, ok := isCadenceRecv(x); ok {
				if b, ok := x.Type().Underlying().(*types.Basic); ok && b.Info()&types.IsString != 0 {
					out[m] = true
					return
				}
			}
			// string helpers (string(x), fmt) over a type-derived value keep the derivation
			for _, a := range x.Call.Args {
				if b, ok := a.Type().Underlying().(*types.Basic); ok && b.Info()&types.IsString != 0 {
					derive(a, d+1, pd, seen, out)
				}
			}
		case *ssa.Phi:
			for _, e := range x.Edges {
				derive(e, d+1, pd, seen, out)
			}
		case *ssa.Convert:
			derive(x.X, d+1, pd, seen, out)
		case *ssa.ChangeType:
			derive(x.X, d+1, pd, seen, out)
		case *ssa.BinOp:
			derive(x.X, d+1, pd, seen, out)
			derive(x.Y, d+1, pd, seen, out)
		case *ssa.UnOp:
			if a, ok := x.X.(*ssa.Alloc); ok {
				if refs := a.Referrers(); refs != nil {
					for _, ref := range *refs {
						if st, ok := ref.(*ssa.Store); ok && st.Addr == ssa.Value(a) {
							derive(st.Val, d+1, pd, seen, out)
						}
					}
				}
			}
		case *ssa.Parameter:
			fn := x.Parent()
			if pd >= 2 || fn.Parent() != nil {
				return
			}
			obj, _ := fn.Object().(*types.Func)
			if obj == nil {
				return
			}
			idx := -1
			for i, p := range fn.Params {
				if p == x {
					idx = i
				}
			}
			for _, cs := range w.SitesCalling(obj) {
				args := cs.Instr.Common().Args
				j := idx
				if cs.Invoke && fn.Signature.Recv() != nil {
					j = idx - 1
				}
				if j >= 0 && j < len(args) {
					derive(args[j], d+1, pd+1, seen, out)
				}
			}
		}
	}
	for _, fn := range w.SrcFuncsIn("encoding/ccf") {
		if fn.Parent() != nil {
			continue
		}
		core.Instrs(fn, true, func(in ssa.Instruction) {
			var m, k ssa.Value
			switch x := in.(type) {
			case *ssa.Lookup:
				m, k = x.X, x.Index
			case *ssa.MapUpdate:
				m, k = x.Map, x.Key
			default:
				return
			}
			mt, ok := m.Type().Underlying().(*types.Map)
			if !ok {
				return
			}
			if b, ok := mt.Key().Underlying().(*types.Basic); !ok || b.Info()&types.IsString == 0 {
				return
			}
			out := map[string]bool{}
			derive(k, 0, 0, map[ssa.Value]bool{}, out)
			if len(out) == 0 {
				return
			}
			n++
			var ms []string
			okAll := true
			for s := range out {
				ms = append(ms, s)
				if !strings.HasSuffix(s, ".ID") {
					okAll = false
				}
			}
			sort.Strings(ms)
			key := core.SSAKey(fn) + ": " + core.ValueDesc(m) + " keyed by " + strings.Join(ms, ",")
			r.Check(okAll, rule, key, in.Pos(), "the table about cadence types is keyed by Type.ID()",
				"a table about cadence types is keyed by an identifier that is not unique per type (not Type.ID()): types of the same name in different locations share the entry")
		})
	}
	r.Check(n >= 6, rule, "encoding/ccf: type-keyed map accesses examined", 0, "type-keyed map accesses found", "fewer type-keyed map accesses than reviewed: keys were not resolved")
	r.Floor(rule, 6)
}
