package rules

import (
	"strings"
	"go/types"

	"golang.org/x/tools/go/ssa"

	"cadcheck/core"
)

const atreePath = "github.com/onflow/atree"

func init() { register("C24", c24) }

func isLedgerSetValue(o *types.Func) bool {
	if o == nil || o.Name() != "SetValue" {
		return false
	}
	sig := o.Type().(*types.Signature)
	if sig.Recv() == nil || sig.Params().Len() != 3 || sig.Results().Len() != 1 || !core.IsErrorType(sig.Results().At(0).Type()) {
		return false
	}
	for i := 0; i < 3; i++ {
		s, ok := sig.Params().At(i).Type().(*types.Slice)
		if !ok || !types.Identical(s.Elem(), types.Typ[types.Byte]) {
			return false
		}
	}
	return true
}

func c24(r *core.Run) {
	r.Explanation = "Decided clauses: (R1) who may write — the only module functions that call a ledger SetValue (any method SetValue([]byte,[]byte,[]byte) error) " +
		"or an atree slab-storage commit are the reviewed commit-path functions; (R2) who may commit — every caller of Storage.Commit/commit/CommitStorage/commitStorage/" +
		"CommitStorageTemporarily is in the reviewed list (executors after success; the three documented temporary commits are known findings); " +
		"(R3) in every executor function that commits, the commit call is not deferred, is not inside a closure, and executes only on paths where the error result of " +
		"every error-returning call that precedes it was tested and found nil; (R4) nothing declared in runtime/script_executor.go reaches a commit function; " +
		"(R5) contract value writes happen only inside commit(commitContractUpdates=true); (R6) inside Storage.commit no fallible metering call is reachable after a register-writing call."
	r.NotDecided = "that the committed writes hold everything a later transaction observes; host-side buffering; writes performed by the host itself."
	w := r.W

	// R1 who may write registers: backward closure from the ledger/slab write calls; every path must pass Storage.commit
	slabCommit := anyOf(
		methodOf("Commit", atreePath+".PersistentSlabStorage"),
		methodOf("FastCommit", atreePath+".PersistentSlabStorage"),
		methodOf("NondeterministicFastCommit", atreePath+".PersistentSlabStorage"),
		methodOf("Store", atreePath+".LedgerBaseStorage", atreePath+".BaseStorage"),
		methodOf("Remove", atreePath+".LedgerBaseStorage", atreePath+".BaseStorage"),
	)
	commitObj := mustObj(r, "R1.write", "runtime", "Storage", "commit")
	gateCommit := func(f *ssa.Function) bool { return commitObj != nil && f.Object() == commitObj }
	g := w.GatedCallers(anyOf(isLedgerSetValue, slabCommit), gateCommit)
	reportGated(r, "R1.write", g, map[string]string{
		"runtime.writeSlabIndexToRegister":                      "writes one account storage-map index register",
		"runtime.(AccountStorage).writeAccountStorageSlabIndex": "commit helper",
		"runtime.(AccountStorage).commit":                       "account storage commit, called from Storage.commit",
		"runtime.(ExternalInterface).SetValue":                  "panic/err wrapper delegating to the embedded Interface",
	}, nil, "a ledger SetValue / atree slab commit", "runtime.(Storage).commit")
	// the gate itself must still contain both write mechanisms
	if cf := mustFn(r, "R1.write", "runtime", "Storage", "commit"); cf != nil {
		census(r, "R1.write", cf, "AccountStorage.commit", methodOf("commit", mod+"/runtime.AccountStorage"), 1)
		census(r, "R1.write", cf, "atree FastCommit", slabCommit, 1)
	}
	r.Floor("R1.write", 5)

	// R2 who may commit
	commitFns := anyOf(
		methodOf("Commit", mod+"/runtime.Storage"),
		methodOf("NondeterministicCommit", mod+"/runtime.Storage"),
		methodOf("commit", mod+"/runtime.Storage"),
		funcOf(mod+"/runtime", "CommitStorage"),
	)
	isEnvCommitImpl := func(f *ssa.Function) bool {
		o, _ := f.Object().(*types.Func)
		return o != nil && o.Pkg() != nil && o.Pkg().Path() == mod+"/runtime" &&
			(o.Name() == "commitStorage" || o.Name() == "CommitStorageTemporarily")
	}
	g2 := w.GatedCallers(commitFns, isEnvCommitImpl)
	allowedRoots := map[string]string{
		"runtime.(Storage).NondeterministicCommit": "deprecated exported API for migration programs; no caller in shipped code",
	}
	reportGated(r, "R2.commit", g2, map[string]string{
		"runtime.(Storage).Commit": "deterministic wrapper of commit",
		"runtime.CommitStorage":    "commit + health check",
	}, allowedRoots, "Storage.commit", "an environment commitStorage/CommitStorageTemporarily method")
	r.Floor("R2.commit", 3)
	envCommit := func(o *types.Func) bool {
		return o != nil && o.Name() == "commitStorage" && o.Pkg() != nil && o.Pkg().Path() == mod+"/runtime"
	}
	whoMayCall(r, "R2.envcommit", "environment.commitStorage", envCommit, map[string]string{
		"runtime.(transactionExecutor).executeWithInterpreter":      "after successful execution (R3)",
		"runtime.(transactionExecutor).executeWithVM":               "after successful execution (R3)",
		"runtime.(contractFunctionExecutor).executeWithInterpreter": "after successful invocation (R3)",
		"runtime.(contractFunctionExecutor).executeWithVM":          "after successful invocation (R3)",
	})
	r.Floor("R2.envcommit", 4)
	tempCommit := func(o *types.Func) bool { return o != nil && o.Name() == "CommitStorageTemporarily" }
	// the three mid-execution commits are genuine deviations from the property (known findings F4)
	callers := w.CallersOf(tempCommit)
	for k, ps := range callers {
		r.Bad("R2.temp", k+" -> CommitStorageTemporarily", ps[0],
			"commits account storage (ledger SetValue) during program execution, before the transaction/script outcome is known")
	}
	r.Floor("R2.temp", 0)

	// R3 commit only after success
	for _, ex := range [][2]string{
		{"transactionExecutor", "executeWithInterpreter"},
		{"transactionExecutor", "executeWithVM"},
		{"contractFunctionExecutor", "executeWithInterpreter"},
		{"contractFunctionExecutor", "executeWithVM"},
	} {
		fn := mustFn(r, "R3.aftersuccess", "runtime", ex[0], ex[1])
		if fn == nil {
			continue
		}
		for _, c := range callsIn(r, "R3.aftersuccess", fn, "commitStorage", envCommit) {
			key := core.SSAKey(fn) + ": commitStorage"
			if _, isDefer := c.(*ssa.Defer); isDefer || c.Parent() != fn {
				r.Bad("R3.aftersuccess", key, posOf(c), "commit is deferred or inside a closure: it can run on failing paths")
				continue
			}
			un := core.UncheckedErrorsBefore(c)
			// at least one fallible execution call must precede the commit
			preceded := false
			for _, d := range core.Calls(fn, false) {
				if d != c && core.ReturnsError(d) && core.Dominates(d, c) {
					preceded = true
				}
			}
			if len(un) > 0 {
				r.Bad("R3.aftersuccess", key, posOf(c), "commit reachable although the error of "+calleeName(un[0])+" (executed before it) was not tested nil on that path")
			} else if !preceded {
				r.Bad("R3.aftersuccess", key, posOf(c), "no fallible execution call precedes the commit")
			} else {
				r.OK("R3.aftersuccess", key, posOf(c), "every preceding error result is tested and the commit lies on the nil edge")
			}
		}
	}
	r.Floor("R3.aftersuccess", 4)

	// R4 scripts never commit: no function declared in script_executor.go reaches a commit function (depth 3)
	n := 0
	allCommit := anyOf(commitFns, envCommit, tempCommit, isLedgerSetValue)
	for _, fn := range w.SrcFuncsIn("runtime") {
		if w.File(fn.Pos()) != "runtime/script_executor.go" {
			continue
		}
		n++
		hit := ""
		for o := range w.ReachFuncs(fn, 3) {
			if allCommit(o) {
				hit = core.FuncKey(o)
			}
		}
		r.Check(hit == "", "R4.script", core.SSAKey(fn), fn.Pos(), "no commit function within 3 static calls", "script executor reaches commit function "+hit)
	}
	r.Floor("R4.script", 5)

	// R6 inside Storage.commit no fallible metering call can run after a register-writing call
	if cf := mustFn(r, "R6.meterorder", "runtime", "Storage", "commit"); cf != nil {
		writes := core.CallsTo(cf, false, anyOf(methodOf("commit", mod+"/runtime.AccountStorage"), slabCommit))
		isMeter := anyOf(funcOf(mod+"/common", "UseComputation"), funcOf(mod+"/common", "UseMemory"))
		var meters []ssa.CallInstruction
		for _, c := range core.Calls(cf, false) {
			// a metering call, or a call of a helper that meters (depth 2)
			if core.CallReaches(c, func(cc ssa.CallInstruction) bool { o := core.Callee(cc); return o != nil && isMeter(o) }, 2) {
				if o := core.Callee(c); o != nil && (isMeter(o) || (o.Pkg() != nil && o.Pkg().Path() == mod+"/runtime" && !methodOf("commit", mod+"/runtime.AccountStorage")(o) && !methodOf("commitContractUpdates", mod+"/runtime.Storage")(o))) {
					meters = append(meters, c)
				}
			}
		}
		for _, wr := range writes {
			late := ""
			for _, m := range meters {
				if core.ReachableAfter(wr, m) {
					late = calleeName(m) + " at " + w.Pos(m.Pos())
				}
			}
			key := "runtime.(Storage).commit: " + calleeName(wr)
			r.Check(late == "", "R6.meterorder", key, posOf(wr), "no metering call (which can fail the transaction) is reachable after this register write",
				"metering call "+late+" can fail the transaction after this call has already written registers")
		}
		if len(meters) == 0 {
			r.Undecided("R6.meterorder", "runtime.(Storage).commit", "no metering call found")
		}
	}
	r.Floor("R6.meterorder", 3)

	// R5 contract updates written only from commit
	whoMayCall(r, "R5.contract", "Storage.writeContractUpdate", methodOf("writeContractUpdate", mod+"/runtime.Storage"), map[string]string{
		"runtime.(Storage).commitContractUpdates": "commit path",
	})
	whoMayCall(r, "R5.contract", "Storage.commitContractUpdates", methodOf("commitContractUpdates", mod+"/runtime.Storage"), map[string]string{
		"runtime.(Storage).commit": "guarded by the commitContractUpdates flag",
	})
	r.Floor("R5.contract", 2)

	// R7 a rejected register access fails the execution: the ledger methods of runtime.ExternalInterface keep the wrapper shape
	// (shared with C28.R1) — a SetValue error that is not propagated lets a transaction report success with writes missing
	externalWrapperRule(r, "R7.ledgerwrap", "SetValue", "GetValue", "ValueExists", "AllocateSlabIndex")
	r.Floor("R7.ledgerwrap", 4)

	// R8 an executor runs its program once: the unguarded execute() of the transaction, script and contract-function executors
	// is called only from the function literal handed to sync.Once.Do in Execute() (Result() and repeated calls go through the
	// guard) — a second run works on a Storage that still holds the first run's uncommitted changes and commits them
	for _, recv := range []string{"transactionExecutor", "scriptExecutor", "contractFunctionExecutor"} {
		m := w.FuncObj("runtime", recv, "execute")
		if m == nil {
			r.Undecided("R8.once", "runtime.("+recv+").execute", "does not resolve")
			continue
		}
		target := w.Prog.FuncValue(m)
		ok, n := true, 0
		var where []string
		for _, fn := range w.SrcFuncsIn("runtime") {
			if fn.Parent() != nil {
				continue
			}
			var all []*ssa.Function
			var collect func(f *ssa.Function)
			collect = func(f *ssa.Function) {
				all = append(all, f)
				for _, a := range f.AnonFuncs {
					collect(a)
				}
			}
			collect(fn)
			for _, f := range all {
				for _, c := range core.Calls(f, false) {
					if core.StaticFn(c) != target {
						continue
					}
					n++
					// the caller must be a function literal that is the argument of (*sync.Once).Do
					guarded := false
					if f.Parent() != nil {
						core.Instrs(f.Parent(), false, func(in ssa.Instruction) {
							cc, isCall := in.(ssa.CallInstruction)
							if !isCall {
								return
							}
							o := core.Callee(cc)
							if o == nil || o.Name() != "Do" || o.Pkg() == nil || o.Pkg().Path() != "sync" {
								return
							}
							for _, a := range cc.Common().Args {
								if mc, isMC := a.(*ssa.MakeClosure); isMC && mc.Fn == ssa.Value(f) {
									guarded = true
								}
							}
						})
					}
					if !guarded {
						ok = false
						where = append(where, core.SSAKey(fn))
					}
				}
			}
		}
		r.Check(ok && n > 0, "R8.once", "runtime.("+recv+").execute is called only under sync.Once", target.Pos(), itoa(n)+" call(s), all inside Once.Do",
			"the unguarded execute() is called outside the sync.Once guard (from "+strings.Join(where, ", ")+"): calling Result() after Execute() runs the program a second time on the same storage and commits writes of a failed first run")
	}
	r.Floor("R8.once", 3)
}
