package rules

import (
	"go/ast"
	"go/types"
	"strings"

	"golang.org/x/tools/go/ssa"

	"cadcheck/core"
)

func init() { register("C42", c42) }

// constsIn lists constants of the given named type (declared in pkg rel) referenced inside node.
func constsIn(node ast.Node, info *types.Info, pkgPath, typeName string) map[string]bool {
	out := map[string]bool{}
	ast.Inspect(node, func(n ast.Node) bool {
		id, ok := n.(*ast.Ident)
		if !ok {
			return true
		}
		c, ok := info.Uses[id].(*types.Const)
		if !ok || c.Pkg() == nil || c.Pkg().Path() != pkgPath {
			return true
		}
		if nt, ok := c.Type().(*types.Named); ok && nt.Obj().Name() == typeName {
			out[c.Name()] = true
		}
		return true
	})
	return out
}

func c42(r *core.Run) {
	r.Explanation = "Decided clauses: (R1) the simple-type bimap pairs every cadence.XType with SimpleTypeX of the same name, each SimpleType constant is inserted exactly once, and both lookup functions go through that one bimap; " +
		"(R2) CCF CBOR tag numbers and simple-type IDs equal the pinned values; (R3) every CBOR tag the encoder writes is accepted by a case of the decoder and every tag the decoder accepts is written by the encoder; " +
		"(R4) each of the five encoder sites that sort (dictionary pairs, composite fields, typedefs, intersection types, entitlements) and each of the five decoder sites that enforce bytewise order still exist, " +
		"and a failed order test in the decoder leads to a returned error. (R8) no error of an inner encode/decode step of encoding/ccf is dropped or swallowed beyond the pinned baseline."
	r.NotDecided = "canonicity and round-trip equality on values; that the decoder never crashes (it deliberately re-panics Go run-time errors)."
	w := r.W
	p := w.Pkg("encoding/ccf")
	if p == nil {
		r.Undecided("R1.bimap", "encoding/ccf", "package not loaded")
		return
	}
	info := p.TypesInfo
	ccfPath := mod + "/encoding/ccf"

	// R1 bimap rows
	var initFd *ast.FuncDecl
	for _, fd := range w.FuncDeclsIn("encoding/ccf") {
		if fd.Name.Name == "initSimpleTypeIDBiMap" {
			initFd = fd
		}
	}
	if initFd == nil {
		r.Undecided("R1.bimap", "encoding/ccf.initSimpleTypeIDBiMap", "does not resolve")
	} else {
		seenID := map[string]int{}
		pairOf, idOf := map[string]string{}, map[string]string{}
		ast.Inspect(initFd.Body, func(n ast.Node) bool {
			call, ok := n.(*ast.CallExpr)
			if !ok || len(call.Args) != 2 {
				return true
			}
			sel, ok := call.Fun.(*ast.SelectorExpr)
			if !ok || sel.Sel.Name != "Insert" {
				return true
			}
			k := types.ExprString(call.Args[0])
			v := types.ExprString(call.Args[1])
			kn := strings.TrimSuffix(strings.TrimPrefix(k, "cadence."), "Type")
			kn = strings.TrimPrefix(kn, "The")
			vn := strings.TrimPrefix(v, "SimpleType")
			if prev, dup := pairOf[v]; dup && prev != k {
				r.Bad("R1.bimap", "encoding/ccf."+v+": single pairing", call.Pos(), "simple type ID is paired with both "+prev+" and "+k)
			}
			if prev, dup := idOf[k]; dup && prev != v {
				r.Bad("R1.bimap", "encoding/ccf.simpleTypeIDBiMap["+k+"]: single pairing", call.Pos(), "type is paired with both "+prev+" and "+v)
			}
			pairOf[v], idOf[k] = k, v
			seenID[v] = 1
			norm := func(s string) string {
				s = strings.ReplaceAll(s, "_", "")
				return strings.TrimSuffix(strings.ToLower(s), "type")
			}
			r.Check(norm(kn) == norm(vn), "R1.bimap", "encoding/ccf.simpleTypeIDBiMap["+k+"]", call.Pos(), "paired with "+v,
				"simple type "+k+" is paired with "+v+" (names differ): encoder and decoder would map this type to another type's ID")
			return true
		})
		// each SimpleType constant exactly once
		sc := p.Types.Scope()
		for _, n := range sc.Names() {
			c, ok := sc.Lookup(n).(*types.Const)
			if !ok {
				continue
			}
			nt, ok := c.Type().(*types.Named)
			if !ok || nt.Obj().Name() != "SimpleType" || nt.Obj().Pkg() != p.Types {
				continue
			}
			if n == "SimpleTypeBytes" || strings.HasSuffix(n, "_Count") || strings.HasSuffix(n, "Count") {
				continue
			}
			cnt := seenID[n]
			if cnt == 1 {
				r.OK("R1.bimap", "encoding/ccf."+n+": inserted once", c.Pos(), "one bimap row")
			} else if cnt == 0 {
				// deprecated / reserved IDs are allowed to be absent: note only
				r.Note("simple type id %s has no bimap row (reserved or deprecated)", n)
			} else {
				r.Bad("R1.bimap", "encoding/ccf."+n+": inserted once", c.Pos(), "simple type ID is inserted more than once: the second insert overwrites the first pairing")
			}
		}
	}
	r.Floor("R1.bimap", 60)

	// R2 pins
	pinRule(r, "R2.pinned", "c42_pinned", []pinGroup{
		{Rel: "encoding/ccf", TypeName: "CBORTag", Why: "CCF wire format tag numbers (specification)"},
		{Rel: "encoding/ccf", TypeName: "SimpleType", Why: "CCF simple type IDs (specification)"},
	})
	r.Floor("R2.pinned", 130)

	// R3 written <-> accepted tags
	written, accepted := map[string]bool{}, map[string]bool{}
	for _, fd := range w.FuncDeclsIn("encoding/ccf") {
		file := w.File(fd.Pos())
		switch {
		case strings.HasPrefix(file, "encoding/ccf/encode"):
			for k := range constsIn(fd, info, ccfPath, "CBORTag") {
				written[k] = true
			}
		case strings.HasPrefix(file, "encoding/ccf/decode"):
			for k := range constsIn(fd, info, ccfPath, "CBORTag") {
				accepted[k] = true
			}
		}
	}
	for _, k := range sortedKeys(written) {
		r.Check(accepted[k], "R3.tagsym", "encoding/ccf."+k+": written -> accepted", 0, "decoder references the tag", "the encoder writes tag "+k+" but no decoder function accepts it")
	}
	for _, k := range sortedKeys(accepted) {
		r.Check(written[k], "R3.tagsym", "encoding/ccf."+k+": accepted -> written", 0, "encoder references the tag", "the decoder accepts tag "+k+" that no encoder function writes")
	}
	r.Floor("R3.tagsym", 60)

	// R4 sort <-> enforce census
	sortSort := core.NamedCallee("sort", "", "Sort")
	for _, f := range [][2]string{{"", "encodeAndSortKeyValuePairs"}, {"Encoder", "getSortedFieldIndex"}, {"Encoder", "encodeIntersectionTypeWithRawTag"}, {"Encoder", "encodeEntitlementSetAuthorizationWithRawTag"}} {
		fn := w.Fn("encoding/ccf", f[0], f[1])
		if fn == nil {
			continue
		}
		census(r, "R4.sort", fn, "sort.Sort", sortSort, 1)
	}
	// generic: every function of encode*.go that called sort.Sort on the pinned tree: count floor
	nSort := 0
	for _, fn := range w.SrcFuncsIn("encoding/ccf") {
		if fn.Parent() == nil && strings.HasPrefix(w.File(fn.Pos()), "encoding/ccf/encode") {
			nSort += len(core.CallsTo(fn, true, sortSort))
		}
	}
	r.Check(nSort >= 5, "R4.sort", "encoding/ccf encode*: sort.Sort sites", 0, "5 sorting sites present", "fewer than the 5 reviewed sorting sites remain in the encoder")
	isSortedChk := anyOf(funcOf(ccfPath, "bytesAreSortedBytewise"), funcOf(ccfPath, "stringsAreSortedBytewise"))
	nChk := 0
	for _, fn := range w.SrcFuncsIn("encoding/ccf") {
		if fn.Parent() != nil || !strings.HasPrefix(w.File(fn.Pos()), "encoding/ccf/decode") {
			continue
		}
		for _, c := range core.CallsTo(fn, true, isSortedChk) {
			nChk++
			// the result must decide a branch (negated or not)
			decides := false
			if v := c.Value(); v != nil && v.Referrers() != nil {
				for _, ref := range *v.Referrers() {
					switch x := ref.(type) {
					case *ssa.If:
						decides = true
					case *ssa.UnOp:
						if x.Referrers() != nil {
							for _, r2 := range *x.Referrers() {
								if _, ok := r2.(*ssa.If); ok {
									decides = true
								}
							}
						}
					}
				}
			}
			if !decides {
				r.Bad("R4.enforce", core.SSAKey(fn)+" -> "+calleeName(c), c.Pos(), "result of the order test does not decide a branch")
				continue
			}
			r.OK("R4.enforce", core.SSAKey(fn)+" -> "+calleeName(c), c.Pos(), "order enforcement site present")
		}
	}
	r.Check(nChk >= 5, "R4.enforce", "encoding/ccf decode*: order enforcement sites", 0, "5 enforcement sites present", "fewer than the 5 reviewed order-enforcement sites remain in the decoder")
	r.Floor("R4.enforce", 6)

	// R5 one ordering scheme: every sorter Less and every *AreSortedBytewise helper orders either by bytes.Compare on
	// encoded bytes or length-first on strings — the two sides (encoder sort, decoder enforcement) cannot diverge
	for _, fd := range w.FuncDeclsIn("encoding/ccf") {
		if w.File(fd.Pos()) != "encoding/ccf/sort.go" {
			continue
		}
		if !(fd.Name.Name == "Less" || strings.HasSuffix(fd.Name.Name, "AreSortedBytewise")) {
			continue
		}
		lenLt, bytesCmp := false, false
		ast.Inspect(fd.Body, func(n ast.Node) bool {
			switch x := n.(type) {
			case *ast.BinaryExpr:
				if x.Op.String() == "<" && isLenCall(x.X) && isLenCall(x.Y) {
					lenLt = true
				}
			case *ast.CallExpr:
				if sel, ok := x.Fun.(*ast.SelectorExpr); ok && sel.Sel.Name == "Compare" {
					if f, ok := info.Uses[sel.Sel].(*types.Func); ok && f.Pkg() != nil && f.Pkg().Path() == "bytes" {
						bytesCmp = true
					}
				}
			}
			return true
		})
		key := core.DeclKey(p, fd)
		r.Check(lenLt || bytesCmp, "R5.ordering", key, fd.Pos(), "orders length-first / by bytes.Compare like its counterpart on the other side",
			"ordering function compares neither lengths first nor encoded bytes: the encoder's sort order and the decoder's enforced order diverge for IDs of different length")
	}
	r.Floor("R5.ordering", 7)

	// R6 typedef collection visits every child: the traversal registers types as a side effect, so a traversal call may
	// never be the right operand of a short-circuit operator (it would be skipped when the left operand decides)
	for _, fd := range w.FuncDeclsIn("encoding/ccf") {
		if w.File(fd.Pos()) != "encoding/ccf/traverse_value.go" {
			continue
		}
		key := core.DeclKey(p, fd)
		n, bad := 0, 0
		ast.Inspect(fd.Body, func(nd ast.Node) bool {
			switch x := nd.(type) {
			case *ast.CallExpr:
				if sel, ok := x.Fun.(*ast.SelectorExpr); ok && strings.HasPrefix(sel.Sel.Name, "traverse") {
					n++
				}
			case *ast.BinaryExpr:
				if x.Op.String() == "||" || x.Op.String() == "&&" {
					ast.Inspect(x.Y, func(m ast.Node) bool {
						if c, ok := m.(*ast.CallExpr); ok {
							if sel, ok := c.Fun.(*ast.SelectorExpr); ok && strings.HasPrefix(sel.Sel.Name, "traverse") {
								bad++
								r.Bad("R6.traversal", key+": "+types.ExprString(c), c.Pos(), "type/value traversal call is the right operand of a short-circuit operator: the child is not registered for the typedef section when the left operand is true")
							}
						}
						return true
					})
				}
			}
			return true
		})
		if n > 0 && bad == 0 {
			r.OK("R6.traversal", key, fd.Pos(), "all traversal calls are unconditional statements/assignments")
		}
	}
	r.Floor("R6.traversal", 2)
	// shared ERR rule restricted to this codec: a failure of an inner encode/decode step must not be dropped
	c42PanicKinds(r)
	c42TypeKeys(r)
	errDiscipline(r, "R8.errdrop", "encoding/ccf functions", func(fn *ssa.Function) bool { return fn.Pkg != nil && fn.Pkg.Pkg.Path() == mod+"/encoding/ccf" }, 100)
}

func isLenCall(e ast.Expr) bool {
	c, ok := e.(*ast.CallExpr)
	if !ok {
		return false
	}
	id, ok := c.Fun.(*ast.Ident)
	return ok && id.Name == "len"
}
