package rules

import (
	"fmt"
	"go/ast"
	"go/token"
	"go/types"
	"strings"

	"cadcheck/core"
)

func init() {
	register("C19", c19)
	register("C20", c20)
	register("C40", c40)
}

func c19(r *core.Run) {
	r.Explanation = "Decided clause (narrow): constructor ownership of normalisation — StringValue and CharacterValue struct literals occur only in the constructors NewUnmeteredStringValue / NewUnmeteredCharacterValue (which apply norm.NFC) and the deprecated *_Unsafe constructors, " +
		"and the unsafe constructors have no caller in shipped code; every other producer therefore yields NFC-normalised strings."
	r.NotDecided = "grapheme-cluster semantics of every string operation (length, slicing, indexing, comparison)."
	stringNormalisation(r, "R1.normalised")
	r.Floor("R1.normalised", 4)
}

func c20(r *core.Run) {
	r.Explanation = "Decided clause (narrow): atree error discipline of the container values — no error returned by an atree call in interpreter's array, dictionary, composite and storage-map code is dropped or overwritten before being tested; " +
		"each reaches a panic (as ExternalError), a return or a named handler (e.g. the index-out-of-bounds conversion)."
	r.NotDecided = "model equivalence of arrays and dictionaries over operation sequences; slab thresholds; persistence."
	w := r.W
	isAtree := func(o *types.Func) bool {
		return o != nil && o.Pkg() != nil && o.Pkg().Path() == atreePath && sigReturnsError(o.Type().(*types.Signature))
	}
	for _, fn := range w.SrcFuncsIn("interpreter") {
		if fn.Parent() != nil {
			continue
		}
		for _, c := range core.CallsTo(fn, true, isAtree) {
			fl := core.FollowErr(c)
			key := core.SSAKey(fn) + " -> atree." + core.Callee(c).Name()
			switch {
			case fl.Dropped || len(fl.Sinks) == 0:
				r.Bad("R1.atreeerr", key, posOf(c), "the error of the atree call is dropped (or only compared): a storage failure is ignored and the operation continues on a stale container")
			default:
				r.OK("R1.atreeerr", key, posOf(c), "error reaches "+strings.Join(uniq(fl.Sinks), ","))
			}
		}
	}
	r.Floor("R1.atreeerr", 80)
}

func c40(r *core.Run) {
	r.Explanation = "Decided clauses (narrow): (R1) numeric type declarations are self-consistent: every sema.TType numeric type declaration names only its own name constant, tag and bounds (TTypeMinInt/MaxInt, …), and every bound variable TTypeMinInt/MaxInt is initialised from the math constant of the same width and signedness; " +
		"(R2) integer literal kinds map to their base (binary 2, octal 8, decimal 10, hexadecimal 16) in common.IntegerLiteralKind.Base."
	r.NotDecided = "that literal values are parsed and range-checked to the written value (arithmetic on digit strings); string escapes."
	w := r.W
	p := w.Pkg("sema")
	if p == nil {
		r.Undecided("R1.decls", "sema", "package not loaded")
		return
	}
	for _, f := range p.Syntax {
		for _, d := range f.Decls {
			gd, ok := d.(*ast.GenDecl)
			if !ok || gd.Tok != token.VAR {
				continue
			}
			for _, sp := range gd.Specs {
				vs := sp.(*ast.ValueSpec)
				for i, nm := range vs.Names {
					if i >= len(vs.Values) {
						continue
					}
					own := tagsOf(nm, p.TypesInfo)
					// own tag from the variable's name
					ownTag := ""
					name := nm.Name
					for _, t := range allNumberTags {
						if strings.HasPrefix(name, t+"Type") && (ownTag == "" || len(t) > len(ownTag)) {
							ownTag = t
						}
					}
					_ = own
					if ownTag == "" || strings.Contains(name, "Annotation") || strings.Contains(ownTag, "Fix") {
						continue // fixed-point declarations share scale and pow types between the signed and unsigned variants
					}
					t := tagsOf(vs.Values[i], p.TypesInfo)
					// WithByteSize(n) states the size in bytes: it must be width/8 and is not a bit width itself
					byteSizeBad := ""
					ast.Inspect(vs.Values[i], func(n ast.Node) bool {
						call, ok := n.(*ast.CallExpr)
						if !ok {
							return true
						}
						sel, ok := call.Fun.(*ast.SelectorExpr)
						if !ok || sel.Sel.Name != "WithByteSize" || len(call.Args) != 1 {
							return true
						}
						tv, ok := p.TypesInfo.Types[call.Args[0]]
						if !ok || tv.Value == nil {
							return true
						}
						var nbytes int
						fmt.Sscanf(tv.Value.ExactString(), "%d", &nbytes)
						delete(t.widths, nbytes)
						digits := reDigits.FindString(ownTag)
						var wbits int
						fmt.Sscanf(digits, "%d", &wbits)
						if digits != "" && nbytes*8 != wbits {
							byteSizeBad = fmt.Sprintf("WithByteSize(%d) but the type is %d bits wide", nbytes, wbits)
						}
						return true
					})
					if byteSizeBad != "" {
						r.Bad("R1.decls", "sema."+name+": byte size", nm.Pos(), byteSizeBad)
					}
					if len(t.full) == 0 && len(t.widths) == 0 {
						continue
					}
					t.full[ownTag] = nm.Pos()
					t.first = ownTag
					why := t.incoherent()
					r.Check(why == "", "R1.decls", "sema."+name, nm.Pos(), "initialiser names only "+ownTag+"'s own constants and width", why)
				}
			}
		}
	}
	r.Floor("R1.decls", 40)

	// R2 literal kind bases
	if fd, cp := w.Decl(w.FuncObj("common", "IntegerLiteralKind", "Base")); fd != nil {
		want := map[string]string{"IntegerLiteralKindBinary": "2", "IntegerLiteralKindOctal": "8", "IntegerLiteralKindDecimal": "10", "IntegerLiteralKindHexadecimal": "16"}
		got := map[string]string{}
		ast.Inspect(fd, func(n ast.Node) bool {
			cc, ok := n.(*ast.CaseClause)
			if !ok || len(cc.List) == 0 || len(cc.Body) == 0 {
				return true
			}
			ret, ok := cc.Body[len(cc.Body)-1].(*ast.ReturnStmt)
			if !ok || len(ret.Results) != 1 {
				return true
			}
			tv, ok := cp.TypesInfo.Types[ret.Results[0]]
			if !ok || tv.Value == nil {
				return true
			}
			for _, e := range cc.List {
				if id, ok := e.(*ast.Ident); ok {
					got[id.Name] = tv.Value.ExactString()
				}
			}
			return true
		})
		for k, v := range want {
			r.Check(got[k] == v, "R2.bases", "common.(IntegerLiteralKind).Base["+k+"]", fd.Pos(), "base "+v, "literal kind "+k+" has base "+got[k]+", expected "+v)
		}
	} else {
		r.Undecided("R2.bases", "common.(IntegerLiteralKind).Base", "does not resolve")
	}
	r.Floor("R2.bases", 4)
}

// stringNormalisation: StringValue literals only in the normalising constructor; unsafe constructors have no shipped caller.
func stringNormalisation(r *core.Run, rule string) {
	w := r.W
	literalOwners(r, rule, "interpreter", "StringValue", map[string]string{
		"interpreter.NewUnmeteredStringValue": "applies norm.NFC",
		"interpreter.NewStringValue_Unsafe":   "deprecated migration-only constructor (no shipped caller, checked below)",
	})
	if fn := mustFn(r, rule, "interpreter", "", "NewUnmeteredStringValue"); fn != nil {
		census(r, rule, fn, "norm.NFC.String", func(o *types.Func) bool {
			return o != nil && o.Pkg() != nil && strings.HasSuffix(o.Pkg().Path(), "unicode/norm") && o.Name() == "String"
		}, 1)
	}
	for _, unsafe := range []string{"NewStringValue_Unsafe", "NewCharacterValue_Unsafe"} {
		callers := w.CallersOf(funcOf(mod+"/interpreter", unsafe))
		var ks []string
		for k := range callers {
			ks = append(ks, k)
		}
		r.Check(len(ks) == 0, rule, "interpreter."+unsafe+": no shipped caller", 0, "only migrations/tests may call it", "the non-normalising constructor is called from shipped code: "+strings.Join(ks, ", "))
	}
}
