package rules

import (
	"fmt"
	"go/ast"
	"go/token"
	"go/types"
	"strings"

	"golang.org/x/tools/go/ssa"

	"cadcheck/core"
)

func init() {
	register("C19", c19)
	register("C20", c20)
	register("C40", c40)
}

func c19(r *core.Run) {
	r.Explanation = "Decided clause (narrow): constructor ownership of normalisation — StringValue and CharacterValue struct literals occur only in the constructors NewUnmeteredStringValue / NewUnmeteredCharacterValue (which apply norm.NFC) and the deprecated *_Unsafe constructors, " +
		"and the unsafe constructors have no caller in shipped code; every other producer therefore yields NFC-normalised strings; " +
		"(R2) the cached cluster count StringValue.length is assigned only by (*StringValue).Length, which counts clusters by iteration (counts are not additive across a concat seam); " +
		"(R3) in the substring search indexOf every path from the boundary seek to the next loop iteration restores the grapheme iterator from its backup; " +
		"(R4) String.join decides whether to write the separator from the position in the array (a flag or an index), never from what has been written so far: the branch that controls the separator write does not depend on the string builder."
	r.NotDecided = "grapheme-cluster semantics of every string operation (length, slicing, indexing, comparison) beyond these three clauses."
	stringNormalisation(r, "R1.normalised")
	r.Floor("R1.normalised", 4)

	// R2 the cached cluster count is produced by counting clusters: StringValue.length is assigned only by (*StringValue).Length
	// (which iterates the grapheme clusters); cluster counts are not additive across a concat seam, nor preserved by slicing
	fieldStoreOwners(r, "R2.lengthcache", "interpreter", "StringValue", "length", map[string]string{
		"interpreter.(StringValue).Length": "counts the grapheme clusters by iteration",
	})
	r.Floor("R2.lengthcache", 1)

	// R3 the substring search restores the grapheme iterator: in indexOf, every path from the boundary seek (which advances the
	// iterator) to the next loop iteration passes the assignment that restores StringValue.graphemes from the backup
	if fn := mustFn(r, "R3.restore", "interpreter", "StringValue", "indexOf"); fn != nil {
		var seeks []ssa.Instruction
		for _, c := range core.Calls(fn, false) {
			if o := core.Callee(c); o != nil && o.Name() == "seekGraphemeBoundaryStartPrepared" {
				seeks = append(seeks, c)
			}
		}
		isRestore := func(in ssa.Instruction) bool {
			st, ok := in.(*ssa.Store)
			if !ok {
				return false
			}
			fa, ok := st.Addr.(*ssa.FieldAddr)
			if !ok {
				return false
			}
			tn, f := structFieldOf(fa)
			return tn == "StringValue" && f == "graphemes"
		}
		if len(seeks) == 0 {
			r.Undecided("R3.restore", core.SSAKey(fn), "the boundary seek does not resolve")
		}
		for _, s := range seeks {
			bad := token.NoPos
			ok := true
			// walk forward from the seek; stop at restores; reaching the source of a back edge is a violation
			seen := map[*ssa.BasicBlock]bool{}
			var walk func(b *ssa.BasicBlock, from int)
			walk = func(b *ssa.BasicBlock, from int) {
				for i := from; i < len(b.Instrs); i++ {
					if isRestore(b.Instrs[i]) {
						return
					}
				}
				for _, nx := range b.Succs {
					if nx.Dominates(b) {
						ok = false
						bad = b.Instrs[len(b.Instrs)-1].Pos()
						continue
					}
					if !seen[nx] {
						seen[nx] = true
						walk(nx, 0)
					}
				}
			}
			idx := 0
			for i, in := range s.Block().Instrs {
				if in == s {
					idx = i + 1
				}
			}
			walk(s.Block(), idx)
			r.Check(ok, "R3.restore", core.SSAKey(fn)+": iterator restored before the next candidate", posOr(bad, s.Pos()), "every path from the boundary seek to the next iteration restores StringValue.graphemes",
				"the search loop can continue with the grapheme iterator advanced past the rejected candidate: later matches get a wrong character index or are missed")
		}
	}
	r.Floor("R3.restore", 1)
	c19JoinSeparator(r)
}

func structFieldOf(fa *ssa.FieldAddr) (string, string) {
	pt, ok := fa.X.Type().Underlying().(*types.Pointer)
	if !ok {
		return "", ""
	}
	_, tn := core.TypeName(pt.Elem())
	st, ok := pt.Elem().Underlying().(*types.Struct)
	if !ok {
		return "", ""
	}
	return tn, st.Field(fa.Field).Name()
}

// fieldStoreOwners: assignments to the named struct field (outside composite literals) occur only in the allowed functions.
func fieldStoreOwners(r *core.Run, rule, rel, typeName, field string, allowed map[string]string) {
	w := r.W
	for _, fn := range w.SrcFuncs() {
		if fn.Pkg == nil || !w.InScope(fn.Pkg.Pkg.Path()) {
			continue
		}
		top := fn
		for top.Parent() != nil {
			top = top.Parent()
		}
		for _, b := range fn.Blocks {
			for _, in := range b.Instrs {
				st, ok := in.(*ssa.Store)
				if !ok {
					continue
				}
				fa, ok := st.Addr.(*ssa.FieldAddr)
				if !ok {
					continue
				}
				tn, f := structFieldOf(fa)
				if tn != typeName || f != field {
					continue
				}
				if pt, ok := fa.X.Type().Underlying().(*types.Pointer); ok {
					if p, _ := core.TypeName(pt.Elem()); p != mod+"/"+rel {
						continue
					}
				}
				// stores into a fresh composite literal (the constructors) are initialisation, not assignment
				if al, isAlloc := fa.X.(*ssa.Alloc); isAlloc && al.Comment == "complit" {
					r.OK(rule, core.SSAKey(top)+": "+typeName+"{"+field+": …}", in.Pos(), "initialisation in a constructor literal")
					continue
				}
				key := core.SSAKey(top) + ": " + typeName + "." + field + " = …"
				if why, ok := allowed[core.SSAKey(top)]; ok {
					r.OK(rule, key, in.Pos(), "reviewed writer: "+why)
				} else {
					r.Bad(rule, key, in.Pos(), "the field is assigned outside its reviewed writers: a cached value is set without being computed from the string")
				}
			}
		}
	}
}

func c20(r *core.Run) {
	r.Explanation = "Decided clause (narrow): atree error discipline of the container values — no error returned by an atree call in interpreter's array, dictionary, composite and storage-map code is dropped or overwritten before being tested; " +
		"each reaches a panic (as ExternalError), a return or a named handler (e.g. the index-out-of-bounds conversion); " +
		"(R2) every returning path of ArrayValue.Slice has created the atree range iterator (the upper-bound check); (R3) in the container Transfer methods atree's CopyNonRefSimple is unreachable when neither IsWithinSingleSlab() nor CanCopyNonRefSimple() holds; " +
		"(R4) the reviewed branch conditions and helpers of the size- and index-sensitive array operations are still present (decision census); " +
		"(R5) ToInt of every big-integer value type (the conversion of an index to a Go int) is guarded by IsInt64 and never reads a magnitude (Uint64)."
	r.NotDecided = "model equivalence of arrays and dictionaries over operation sequences; slab thresholds; persistence."
	w := r.W
	isAtree := func(o *types.Func) bool {
		return o != nil && o.Pkg() != nil && o.Pkg().Path() == atreePath && sigReturnsError(o.Type().(*types.Signature))
	}
	for _, fn := range w.SrcFuncsIn("interpreter") {
		if fn.Parent() != nil {
			continue
		}
		for _, c := range core.CallsTo(fn, true, isAtree) {
			fl := core.FollowErr(c)
			key := core.SSAKey(fn) + " -> atree." + core.Callee(c).Name()
			switch {
			case fl.Dropped || len(fl.Sinks) == 0:
				r.Bad("R1.atreeerr", key, posOf(c), "the error of the atree call is dropped (or only compared): a storage failure is ignored and the operation continues on a stale container")
			default:
				r.OK("R1.atreeerr", key, posOf(c), "error reaches "+strings.Join(uniq(fl.Sinks), ","))
			}
		}
	}
	r.Floor("R1.atreeerr", 80)

	// R2 slice bounds: every returning path of ArrayValue.Slice has created the atree range iterator, which is the only
	// check of the upper bound (its errors become ArraySliceIndicesError); a shortcut before it accepts out-of-range bounds
	if fn := mustFn(r, "R2.slicebounds", "interpreter", "ArrayValue", "Slice"); fn != nil {
		isRange := func(in ssa.Instruction) bool {
			c, ok := in.(ssa.CallInstruction)
			if !ok {
				return false
			}
			o := core.Callee(c)
			return o != nil && (o.Name() == "rangeIterator" || o.Name() == "RangeIterator" || o.Name() == "ReadOnlyRangeIterator")
		}
		ok := true
		var at token.Pos
		for _, ret := range core.Returns(fn) {
			if !core.MustPass(ret, isRange) {
				ok, at = false, ret.Pos()
			}
		}
		r.Check(ok, "R2.slicebounds", "interpreter.(ArrayValue).Slice: bounds validated before every result", posOr(at, fn.Pos()), "every return passes the atree range iterator construction (upper-bound check)",
			"a result is returned without creating the atree range iterator, the only check of the upper bound: e.g. xs.slice(from: n, upTo: n) with n beyond the length succeeds")
	}
	r.Floor("R2.slicebounds", 1)

	// R3 copy fast path: atree's CopyNonRefSimple refuses multi-slab containers unless the container itself says it can be
	// copied; the type-based fast path is therefore taken only within a single slab. Path-sensitively: with
	// IsWithinSingleSlab() == false and CanCopyNonRefSimple() == false no CopyNonRefSimple call is reachable.
	for _, tn := range []string{"ArrayValue", "DictionaryValue", "CompositeValue"} {
		fn := mustFn(r, "R3.fastpath", "interpreter", tn, "Transfer")
		if fn == nil {
			continue
		}
		var as []core.Assumption
		ncopy := 0
		for _, c := range core.Calls(fn, false) {
			o := core.Callee(c)
			if o == nil || o.Pkg() == nil || o.Pkg().Path() != atreePath {
				continue
			}
			if v, ok := c.(ssa.Value); ok && (o.Name() == "IsWithinSingleSlab" || o.Name() == "CanCopyNonRefSimple") {
				as = append(as, core.Assumption{Var: core.BoolVar{Call: v}, Val: false})
			}
		}
		// a same-package predicate helper that can only return true when one of the two atree tests holds is false as well
		for _, c := range core.Calls(fn, false) {
			sf := core.StaticFn(c)
			v, isVal := c.(ssa.Value)
			if sf == nil || !isVal || sf.Pkg != fn.Pkg || len(sf.Blocks) == 0 {
				continue
			}
			grounds, isBool := core.AcceptGrounds(sf)
			if !isBool || len(grounds) == 0 {
				continue
			}
			all := true
			for _, g := range grounds {
				needs := false
				for _, conj := range strings.Split(g, " ∧ ") {
					if (strings.HasPrefix(conj, "+IsWithinSingleSlab") || strings.HasPrefix(conj, "+CanCopyNonRefSimple") ||
						strings.HasPrefix(conj, "=>IsWithinSingleSlab") || strings.HasPrefix(conj, "=>CanCopyNonRefSimple")) {
						needs = true
					}
				}
				if !needs {
					all = false
				}
			}
			if all {
				as = append(as, core.Assumption{Var: core.BoolVar{Call: v}, Val: false})
			}
		}
		isCopy := func(in ssa.Instruction) bool {
			return core.CallReaches(in, func(cc ssa.CallInstruction) bool {
				o := core.Callee(cc)
				return o != nil && o.Pkg() != nil && o.Pkg().Path() == atreePath && o.Name() == "CopyNonRefSimple"
			}, 1)
		}
		core.Instrs(fn, true, func(in ssa.Instruction) {
			if c, ok := in.(ssa.CallInstruction); ok {
				if o := core.Callee(c); o != nil && o.Pkg() != nil && o.Pkg().Path() == atreePath && o.Name() == "CopyNonRefSimple" {
					ncopy++
				}
			}
		})
		if ncopy == 0 {
			r.OK("R3.fastpath", "interpreter.("+tn+").Transfer: no simple-copy fast path", fn.Pos(), "the container is always copied element by element")
			continue
		}
		hit := core.ReachUnder(fn, as, nil, nil, isCopy)
		r.Check(hit == nil, "R3.fastpath", "interpreter.("+tn+").Transfer: simple copy only when atree allows it", posOr(instrPos(hit), fn.Pos()),
			"with IsWithinSingleSlab() and CanCopyNonRefSimple() both false no CopyNonRefSimple call is reachable",
			"atree's CopyNonRefSimple is reachable for a container that is neither within a single slab nor reported copyable by atree: every copy/move of a large container of primitive elements fails with an external error")
	}
	r.Floor("R3.fastpath", 3)

	// R4 decisions of the size- and index-sensitive array operations (DECISIONS): every reviewed branch condition and
	// helper is still present (e.g. "count != expected size" of toConstantSized, the bounds tests of slice/insert/remove)
	var afns []*ssa.Function
	for _, name := range []string{"ToConstantSized", "ToVariableSized", "Slice", "Insert", "Remove", "RemoveFirst", "RemoveLast", "Get", "Set", "Concat", "Reverse", "FirstIndex", "Contains"} {
		if fn := w.Fn("interpreter", "ArrayValue", name); fn != nil {
			afns = append(afns, fn)
		}
	}
	decisionCensus(r, "R4.decisions", "c20_array_decisions", afns, "an array operation no longer makes a decision / consults a helper it did on the reviewed tree")
	r.Floor("R4.decisions", 8)

	// R5 an index is converted to a Go int without wrapping: ToInt of the wide integer types tests IsInt64 before Int64
	c20ToIntGuards(r)
}

func instrPos(in ssa.Instruction) token.Pos {
	if in == nil {
		return token.NoPos
	}
	return in.Pos()
}

func c40(r *core.Run) {
	r.Explanation = "Decided clauses (narrow): (R1) numeric type declarations are self-consistent: every sema.TType numeric type declaration names only its own name constant, tag and bounds (TTypeMinInt/MaxInt, …), and every bound variable TTypeMinInt/MaxInt is initialised from the math constant of the same width and signedness; " +
		"(R2) integer literal kinds map to their base (binary 2, octal 8, decimal 10, hexadecimal 16) in common.IntegerLiteralKind.Base; " +
		"(R3) every key under which the compiler pools a literal constant names all components of its key type (kind, text, sign); (R4) the `\\u{…}` escape accepts up to 8 hexadecimal digits."
	r.NotDecided = "that literal values are parsed and range-checked to the written value (arithmetic on digit strings); string escapes."
	w := r.W
	p := w.Pkg("sema")
	if p == nil {
		r.Undecided("R1.decls", "sema", "package not loaded")
		return
	}
	for _, f := range p.Syntax {
		for _, d := range f.Decls {
			gd, ok := d.(*ast.GenDecl)
			if !ok || gd.Tok != token.VAR {
				continue
			}
			for _, sp := range gd.Specs {
				vs := sp.(*ast.ValueSpec)
				for i, nm := range vs.Names {
					if i >= len(vs.Values) {
						continue
					}
					own := tagsOf(nm, p.TypesInfo)
					// own tag from the variable's name
					ownTag := ""
					name := nm.Name
					for _, t := range allNumberTags {
						if strings.HasPrefix(name, t+"Type") && (ownTag == "" || len(t) > len(ownTag)) {
							ownTag = t
						}
					}
					_ = own
					if ownTag == "" || strings.Contains(name, "Annotation") || strings.Contains(ownTag, "Fix") {
						continue // fixed-point declarations share scale and pow types between the signed and unsigned variants
					}
					t := tagsOf(vs.Values[i], p.TypesInfo)
					// WithByteSize(n) states the size in bytes: it must be width/8 and is not a bit width itself
					byteSizeBad := ""
					ast.Inspect(vs.Values[i], func(n ast.Node) bool {
						call, ok := n.(*ast.CallExpr)
						if !ok {
							return true
						}
						sel, ok := call.Fun.(*ast.SelectorExpr)
						if !ok || sel.Sel.Name != "WithByteSize" || len(call.Args) != 1 {
							return true
						}
						tv, ok := p.TypesInfo.Types[call.Args[0]]
						if !ok || tv.Value == nil {
							return true
						}
						var nbytes int
						fmt.Sscanf(tv.Value.ExactString(), "%d", &nbytes)
						delete(t.widths, nbytes)
						digits := reDigits.FindString(ownTag)
						var wbits int
						fmt.Sscanf(digits, "%d", &wbits)
						if digits != "" && nbytes*8 != wbits {
							byteSizeBad = fmt.Sprintf("WithByteSize(%d) but the type is %d bits wide", nbytes, wbits)
						}
						return true
					})
					if byteSizeBad != "" {
						r.Bad("R1.decls", "sema."+name+": byte size", nm.Pos(), byteSizeBad)
					}
					if len(t.full) == 0 && len(t.widths) == 0 {
						continue
					}
					t.full[ownTag] = nm.Pos()
					t.first = ownTag
					why := t.incoherent()
					r.Check(why == "", "R1.decls", "sema."+name, nm.Pos(), "initialiser names only "+ownTag+"'s own constants and width", why)
				}
			}
		}
	}
	r.Floor("R1.decls", 40)

	// R2 literal kind bases
	if fd, cp := w.Decl(w.FuncObj("common", "IntegerLiteralKind", "Base")); fd != nil {
		want := map[string]string{"IntegerLiteralKindBinary": "2", "IntegerLiteralKindOctal": "8", "IntegerLiteralKindDecimal": "10", "IntegerLiteralKindHexadecimal": "16"}
		got := map[string]string{}
		ast.Inspect(fd, func(n ast.Node) bool {
			cc, ok := n.(*ast.CaseClause)
			if !ok || len(cc.List) == 0 || len(cc.Body) == 0 {
				return true
			}
			ret, ok := cc.Body[len(cc.Body)-1].(*ast.ReturnStmt)
			if !ok || len(ret.Results) != 1 {
				return true
			}
			tv, ok := cp.TypesInfo.Types[ret.Results[0]]
			if !ok || tv.Value == nil {
				return true
			}
			for _, e := range cc.List {
				if id, ok := e.(*ast.Ident); ok {
					got[id.Name] = tv.Value.ExactString()
				}
			}
			return true
		})
		for k, v := range want {
			r.Check(got[k] == v, "R2.bases", "common.(IntegerLiteralKind).Base["+k+"]", fd.Pos(), "base "+v, "literal kind "+k+" has base "+got[k]+", expected "+v)
		}
	} else {
		r.Undecided("R2.bases", "common.(IntegerLiteralKind).Base", "does not resolve")
	}
	r.Floor("R2.bases", 4)
	constantKeysComplete(r, "R3.constkeys")
	r.Floor("R3.constkeys", 5)

	// R4 unicode escapes: `\u{…}` takes up to 8 hexadecimal digits (language constant): the digit loop of
	// parser.parseStringLiteralContent is bounded by a comparison of its counter with the constant 8
	if fn := mustFn(r, "R4.escapes", "parser", "", "parseStringLiteralContent"); fn != nil {
		found := false
		var others []string
		core.Instrs(fn, true, func(in ssa.Instruction) {
			bo, ok := in.(*ssa.BinOp)
			if !ok || bo.Op != token.LSS {
				return
			}
			c, ok := bo.Y.(*ssa.Const)
			if !ok || c.Value == nil {
				return
			}
			if _, isPhi := bo.X.(*ssa.Phi); !isPhi {
				if _, isLoad := bo.X.(*ssa.UnOp); !isLoad {
					return
				}
			}
			if c.Value.ExactString() == "8" {
				found = true
			} else {
				others = append(others, c.Value.ExactString())
			}
		})
		r.Check(found, "R4.escapes", "parser.parseStringLiteralContent: \\u{…} digit bound", fn.Pos(), "the escape's digit loop accepts up to 8 hexadecimal digits",
			"no loop counter is compared with 8 any more (bounds found: "+strings.Join(others, ",")+"): zero-padded escapes such as \\u{00000041} are no longer decoded to the code point written")
	}
	r.Floor("R4.escapes", 1)
}

// constantKeysComplete: every key under which the compiler pools a constant names every component of its key type —
// a composite literal of a constantUniqueKey implementation sets all fields of the struct (a missing component, e.g. the
// sign of a fixed-point literal, makes two different literals share one pooled constant in the VM only).
func constantKeysComplete(r *core.Run, rule string) {
	w := r.W
	p := w.Pkg("bbq/compiler")
	if p == nil {
		r.Undecided(rule, "bbq/compiler", "package not loaded")
		return
	}
	iface, _ := p.Types.Scope().Lookup("constantUniqueKey").(*types.TypeName)
	if iface == nil {
		r.Undecided(rule, "bbq/compiler.constantUniqueKey", "does not resolve")
		return
	}
	it, _ := iface.Type().Underlying().(*types.Interface)
	for _, f := range p.Syntax {
		ast.Inspect(f, func(n ast.Node) bool {
			cl, ok := n.(*ast.CompositeLit)
			if !ok {
				return true
			}
			tv, ok := p.TypesInfo.Types[cl]
			if !ok || it == nil || !types.Implements(tv.Type, it) {
				return true
			}
			st, ok := tv.Type.Underlying().(*types.Struct)
			if !ok {
				return true
			}
			if enclosingFuncName(f, cl.Pos()) == "?" {
				return true // package-level interface assertions `var _ I = T{}`
			}
			set := map[string]bool{}
			positional := 0
			for _, e := range cl.Elts {
				if kv, ok := e.(*ast.KeyValueExpr); ok {
					if id, ok := kv.Key.(*ast.Ident); ok {
						set[id.Name] = true
					}
				} else {
					positional++
				}
			}
			var missing []string
			for i := 0; i < st.NumFields(); i++ {
				if !set[st.Field(i).Name()] && positional < st.NumFields() {
					missing = append(missing, st.Field(i).Name())
				}
			}
			_, tn := core.ExprTypeName(cl, p.TypesInfo)
			r.Check(len(missing) == 0, rule, "bbq/compiler: "+tn+"{…} at "+enclosingFuncName(f, cl.Pos()), cl.Pos(), "every component of the key is given",
				"the pooled-constant key leaves out "+strings.Join(missing, ",")+": literals that differ only there share one constant in compiled code")
			return true
		})
	}
}

func enclosingFuncName(f *ast.File, pos token.Pos) string {
	for _, d := range f.Decls {
		if fd, ok := d.(*ast.FuncDecl); ok && fd.Pos() <= pos && pos <= fd.End() {
			return fd.Name.Name
		}
	}
	return "?"
}

// stringNormalisation: StringValue literals only in the normalising constructor; unsafe constructors have no shipped caller.
func stringNormalisation(r *core.Run, rule string) {
	w := r.W
	literalOwners(r, rule, "interpreter", "StringValue", map[string]string{
		"interpreter.NewUnmeteredStringValue": "applies norm.NFC",
		"interpreter.NewStringValue_Unsafe":   "deprecated migration-only constructor (no shipped caller, checked below)",
	})
	if fn := mustFn(r, rule, "interpreter", "", "NewUnmeteredStringValue"); fn != nil {
		census(r, rule, fn, "norm.NFC.String", func(o *types.Func) bool {
			return o != nil && o.Pkg() != nil && strings.HasSuffix(o.Pkg().Path(), "unicode/norm") && o.Name() == "String"
		}, 1)
	}
	for _, unsafe := range []string{"NewStringValue_Unsafe", "NewCharacterValue_Unsafe"} {
		callers := w.CallersOf(funcOf(mod+"/interpreter", unsafe))
		var ks []string
		for k := range callers {
			ks = append(ks, k)
		}
		r.Check(len(ks) == 0, rule, "interpreter."+unsafe+": no shipped caller", 0, "only migrations/tests may call it", "the non-normalising constructor is called from shipped code: "+strings.Join(ks, ", "))
	}
}

// c19JoinSeparator: R4 — join(xs, sep) writes sep before every element but the first, whatever the elements are
// (join(split(s, sep), sep) == s also when s starts with sep, i.e. when leading elements are empty). The branch that
// controls the write of the separator must be decided by the position (a first-flag, an index), so its condition must
// not depend on the strings.Builder the result is accumulated in (its length says how much was written, not how many
// elements were seen), nor on the element.
func c19JoinSeparator(r *core.Run) {
	const rule = "R4.joinsep"
	w := r.W
	fn := mustFn(r, rule, "interpreter", "", "StringFunctionJoin")
	if fn == nil {
		return
	}
	isBuilderish := func(t types.Type) bool {
		s := t.String()
		return strings.Contains(s, "strings.Builder") || strings.Contains(s, "bytes.Buffer")
	}
	n := 0
	for _, g := range core.WithAnon(fn) {
		for _, c := range core.Calls(g, false) {
			o := core.Callee(c)
			if o == nil || o.Name() != "WriteString" || len(c.Common().Args) < 2 {
				continue
			}
			// the separator write: the written string derives from the separator parameter (param #2)
			if !strings.Contains(core.OriginLeaves(c.Common().Args[len(c.Common().Args)-1]), "param#2:") {
				continue
			}
			n++
			in, _ := c.(ssa.Instruction)
			bad := ""
			conds := core.ControllingConds(in)
			for _, a := range conds {
				if a.Var.Call == nil {
					continue
				}
				seen := map[ssa.Value]bool{}
				var walk func(v ssa.Value, d int)
				walk = func(v ssa.Value, d int) {
					if v == nil || seen[v] || d > 8 || bad != "" {
						return
					}
					seen[v] = true
					if cl, ok := v.(*ssa.Call); ok {
						for _, arg := range cl.Call.Args {
							t := arg.Type()
							if p, ok := t.(*types.Pointer); ok {
								t = p.Elem()
							}
							if isBuilderish(t) {
								bad = "the result builder (" + func() string {
									if oo := core.Callee(cl); oo != nil {
										return oo.Name()
									}
									return "call"
								}() + ")"
								return
							}
						}
					}
					if vi, ok := v.(ssa.Instruction); ok {
						for _, op := range vi.Operands(nil) {
							if op != nil && *op != nil {
								walk(*op, d+1)
							}
						}
					}
				}
				walk(a.Var.Call, 0)
			}
			r.Check(bad == "" && len(conds) > 0, rule, core.SSAKey(fn)+": separator write", c.Pos(), "controlled by a positional condition",
				"the separator write of String.join is decided by "+orStr(bad, "no condition at all")+": separators before leading empty elements are dropped (join(split(s, sep), sep) != s)")
		}
	}
	_ = w
	r.Check(n >= 1, rule, "interpreter.StringFunctionJoin: separator writes", 0, itoa(n)+" found", "the separator write of String.join was not found")
	r.Floor(rule, 2)
}

func orStr(a, b string) string {
	if a != "" {
		return a
	}
	return b
}

// c20ToIntGuards: R5 — array indexing, insert and remove turn the index value into a Go int with NumberValue.ToInt. For
// the big-integer value types this must fail for values outside int64 (IsInt64 guard with a panicking edge) and must not
// take the low 64 bits of the magnitude (Uint64), which would wrap a huge index onto a valid element.
func c20ToIntGuards(r *core.Run) {
	const rule = "R5.toint"
	w := r.W
	n := 0
	for _, fn := range w.SrcFuncsIn("interpreter") {
		if fn.Parent() != nil || fn.Name() != "ToInt" || fn.Signature.Recv() == nil {
			continue
		}
		usesBig := false
		guarded, magnitude := false, false
		for _, c := range core.Calls(fn, true) {
			o := core.Callee(c)
			if o == nil || o.Pkg() == nil || o.Pkg().Path() != "math/big" {
				continue
			}
			usesBig = true
			switch o.Name() {
			case "IsInt64":
				guarded = true
			case "Uint64", "Bits", "Bytes":
				magnitude = true
			}
		}
		if !usesBig {
			continue
		}
		n++
		panics := len(core.Panics(fn, true)) > 0
		r.Check(guarded && panics && !magnitude, rule, core.SSAKey(fn), fn.Pos(), "IsInt64 guard with a failing edge, no magnitude read",
			"ToInt of a big-integer value converts without the IsInt64 guard (or reads the magnitude's low 64 bits): an index of 2^64 or more wraps onto a valid element instead of failing")
	}
	r.Floor(rule, 6)
}
