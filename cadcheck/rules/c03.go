package rules

import (
	"go/types"

	"cadcheck/core"
)

func init() {
	register("C03", c03)
	register("C07", c07)
}

// pinnedCallCensus: for the named callees (methods/functions of package rel), every (caller -> callee) edge with the
// number of call sites recorded from the reviewed tree must still exist with at least that many sites.
func pinnedCallCensus(r *core.Run, rule, table, rel string, callees []string, why string) {
	w := r.W
	got := map[string]int{}
	set := map[string]bool{}
	for _, c := range callees {
		set[c] = true
	}
	pred := func(o *types.Func) bool {
		return o != nil && set[o.Name()] && o.Pkg() != nil && o.Pkg().Path() == mod+"/"+rel
	}
	direct := map[string]map[string]int{}
	for _, fn := range w.SrcFuncs() {
		if fn.Parent() != nil {
			continue
		}
		for _, c := range core.CallsTo(fn, true, pred) {
			k := core.SSAKey(fn)
			if direct[k] == nil {
				direct[k] = map[string]int{}
			}
			direct[k][core.Callee(c).Name()]++
		}
	}
	// the pinned table lists the direct edges of the reviewed tree; the current tree is measured through helpers
	// (static callees, depth 2), so extracting a call into a helper is not a violation
	deep := w.DeepCounts(direct, 2)
	for k, items := range direct {
		for it, n := range items {
			got[k+" -> "+it] = n
		}
	}
	genCounts(r, table, got)
	for k, items := range deep {
		for it, n := range items {
			if n > got[k+" -> "+it] {
				got[k+" -> "+it] = n
			}
		}
	}
	var pinned map[string]int
	if !r.Table(table, &pinned) {
		return
	}
	for k, n := range pinned {
		r.Check(got[k] >= n, rule, k, 0, "mechanism call present ("+itoa(got[k])+" site(s))",
			"a reviewed call of the mechanism was removed from this function (pinned "+itoa(n)+", now "+itoa(got[k])+"): "+why)
	}
}

func c03(r *core.Run) {
	r.Explanation = "Decided clause (narrow): every checker visitor that forks control flow, moves, invalidates or uses a resource still routes through the linearity mechanisms — pinned census of the call edges into " +
		"checkConditionalBranches, checkPotentiallyUnevaluated, MergeBranches, checkResourceLoss, leaveValueScope, checkResourceMoveOperation, recordResourceInvalidation, checkResourceUseAfterInvalidation, maybeAddResourceInvalidation and the jump/return tracking (MaybeReturned, MaybeJumped); " +
		"a visitor that stops calling its mechanism (e.g. a new statement kind that does not merge branch states, or an invalidation that ignores a possible jump) is reported."
	r.NotDecided = "that the checker's accept/reject relation equals a path-sensitive oracle: the dataflow the mechanisms compute is not re-derived here."
	pinnedCallCensus(r, "R1.census", "c03_linearity_edges", "sema", []string{
		"checkConditionalBranches", "checkPotentiallyUnevaluated", "MergeBranches", "checkResourceLoss", "leaveValueScope",
		"checkResourceMoveOperation", "recordResourceInvalidation", "checkResourceUseAfterInvalidation", "maybeAddResourceInvalidation",
		"MaybeReturned", "MaybeJumped", "AddInvalidation", "RemoveTemporaryMoveInvalidation", "checkResourceFieldNesting",
	}, "a linearity violation on that construct would no longer be detected by the checker")
	r.Floor("R1.census", 50)
}

func c07(r *core.Run) {
	r.Explanation = "Decided clause: purity observation points — every checker visitor of an impure construct still reports it to the purity mechanism: pinned census of the call edges into ObserveImpureOperation, enforceViewAssignment, EnforcePurity and InNewPurityScope " +
		"(assignment, swap, destroy, remove, invocation of non-view functions, conditions and view function bodies)."
	r.NotDecided = "the alias/reference reasoning inside enforceViewAssignment; purity of built-in functions' native implementations; observable effects through references at run time."
	pinnedCallCensus(r, "R1.census", "c07_purity_edges", "sema", []string{"ObserveImpureOperation", "enforceViewAssignment", "EnforcePurity", "InNewPurityScope", "CurrentPurityScope", "PushNewPurityScope", "PopPurityScope"},
		"an impure operation in a view context would no longer be reported")
	r.Floor("R1.census", 10)
}
