package rules

import (
	"fmt"
	"go/ast"
	"go/token"
	"go/types"
	"os"
	"regexp"
	"sort"
	"strings"

	"golang.org/x/tools/go/ssa"

	"cadcheck/core"
)

func init() {
	register("C03", c03)
	register("C07", c07)
}

// pinnedCallCensus: for the named callees (methods/functions of package rel), every (caller -> callee) edge with the
// number of call sites recorded from the reviewed tree must still exist with at least that many sites.
func pinnedCallCensus(r *core.Run, rule, table, rel string, callees []string, why string) {
	w := r.W
	got := map[string]int{}
	set := map[string]bool{}
	for _, c := range callees {
		set[c] = true
	}
	pred := func(o *types.Func) bool {
		return o != nil && set[o.Name()] && o.Pkg() != nil && o.Pkg().Path() == mod+"/"+rel
	}
	direct := map[string]map[string]int{}
	for _, fn := range w.SrcFuncs() {
		if fn.Parent() != nil {
			continue
		}
		for _, c := range core.CallsTo(fn, true, pred) {
			k := core.SSAKey(fn)
			if direct[k] == nil {
				direct[k] = map[string]int{}
			}
			direct[k][core.Callee(c).Name()]++
		}
	}
	// the pinned table lists the direct edges of the reviewed tree; the current tree is measured through helpers
	// (static callees, depth 2), so extracting a call into a helper is not a violation
	deep := w.DeepCounts(direct, 2)
	for k, items := range direct {
		for it, n := range items {
			got[k+" -> "+it] = n
		}
	}
	genCounts(r, table, got)
	for k, items := range deep {
		for it, n := range items {
			if n > got[k+" -> "+it] {
				got[k+" -> "+it] = n
			}
		}
	}
	var pinned map[string]int
	if !r.Table(table, &pinned) {
		return
	}
	for k, n := range pinned {
		r.Check(got[k] >= n, rule, k, 0, "mechanism call present ("+itoa(got[k])+" site(s))",
			"a reviewed call of the mechanism was removed from this function (pinned "+itoa(n)+", now "+itoa(got[k])+"): "+why)
	}
}

func c03(r *core.Run) {
	r.Explanation = "Decided clause (narrow): every checker visitor that forks control flow, moves, invalidates or uses a resource still routes through the linearity mechanisms — pinned census of the call edges into " +
		"checkConditionalBranches, checkPotentiallyUnevaluated, MergeBranches, checkResourceLoss, leaveValueScope, checkResourceMoveOperation, recordResourceInvalidation, checkResourceUseAfterInvalidation, maybeAddResourceInvalidation and the jump/return tracking (MaybeReturned, MaybeJumped); " +
		"a visitor that stops calling its mechanism (e.g. a new statement kind that does not merge branch states, or an invalidation that ignores a possible jump) is reported; " +
		"(R7) the two single-branch arms of mergeResourceInfos are mirror images under then<->else; (R8) checkResourceLoss returns early only on its reviewed grounds; (R9) every ReturnInfo.Merge* method propagates the jump offsets of each operand."
	r.NotDecided = "that the checker's accept/reject relation equals a path-sensitive oracle: the dataflow the mechanisms compute is not re-derived here."
	pinnedCallCensus(r, "R1.census", "c03_linearity_edges", "sema", []string{
		"checkConditionalBranches", "checkPotentiallyUnevaluated", "MergeBranches", "checkResourceLoss", "leaveValueScope",
		"checkResourceMoveOperation", "recordResourceInvalidation", "checkResourceUseAfterInvalidation", "maybeAddResourceInvalidation",
		"MaybeReturned", "MaybeJumped", "AddInvalidation", "RemoveTemporaryMoveInvalidation", "checkResourceFieldNesting", "checkUnusedExpressionResourceLoss",
	}, "a linearity violation on that construct would no longer be detected by the checker")
	r.Floor("R1.census", 50)
	c03Structure(r)
}

func c07(r *core.Run) {
	r.Explanation = "Decided clause: purity observation points — every checker visitor of an impure construct still reports it to the purity mechanism: pinned census of the call edges into ObserveImpureOperation, enforceViewAssignment, EnforcePurity and InNewPurityScope " +
		"(assignment, swap, destroy, remove, invocation of non-view functions, conditions and view function bodies); " +
		"(R2) the observation dominates the operation it guards: EnforcePurity before checkInvocation, enforceViewAssignment before recordResourceInvalidation; " +
		"(R3) run-time side: only the reviewed mutating entry points look a domain storage map up with createIfNotExists != false (a lookup that creates maps writes registers, also from a view function); " +
		"(R4) a built-in function type marked view types its function parameters as view."
	r.NotDecided = "the alias/reference reasoning inside enforceViewAssignment; purity of built-in functions' native implementations beyond R3; observable effects through references at run time."
	pinnedCallCensus(r, "R1.census", "c07_purity_edges", "sema", []string{"ObserveImpureOperation", "enforceViewAssignment", "EnforcePurity", "InNewPurityScope", "CurrentPurityScope", "PushNewPurityScope", "PopPurityScope"},
		"an impure operation in a view context would no longer be reported")
	r.Floor("R1.census", 10)
	c07Order(r)
	c07StorageMapCreators(r)
	c07ViewFunctionParams(r)
}

// c03Structure: R7–R9.
func c03Structure(r *core.Run) {
	w := r.W
	// R7 mirror symmetry of mergeResourceInfos: the paths for "only the then branch invalidated" and the paths for "only the
	// else branch invalidated" are mirror images under then<->else. Decided on the SSA form, independent of how the
	// function is laid out: every entry-to-return path is summarised as (branch outcomes ⇒ effects on the result), the
	// operands are swapped (parameters 0<->2, 1<->3) and the two path sets compared. The else side is optional, so paths on
	// which a *ReturnInfo operand is nil have no mirror and nil tests of it are ignored.
	if fn := mustFn(r, "R7.mirror", "sema", "", "mergeResourceInfos"); fn != nil && len(fn.Params) == 4 {
		eventOf := func(in ssa.Instruction) string {
			switch x := in.(type) {
			case *ssa.Store:
				// assignments to the result and to the kind of an invalidation
				if al, ok := x.Addr.(*ssa.Alloc); ok && strings.Contains(al.Comment, "invalidation") {
					return "result=" + core.OriginLeavesVia(x.Val)
				}
				if fa, ok := x.Addr.(*ssa.FieldAddr); ok {
					if tn, f := structFieldOf(fa); tn == "ResourceInvalidation" {
						return "set " + f + "=" + core.OriginLeavesVia(x.Val)
					}
				}
			case *ssa.Return:
				if len(x.Results) == 1 {
					return "return " + core.OriginLeavesVia(x.Results[0])
				}
			}
			return ""
		}
		paths, complete := core.PathSummaries(fn, 512, eventOf)
		if !complete || len(paths) == 0 {
			r.Undecided("R7.mirror", "sema.mergeResourceInfos", "paths cannot be enumerated")
		} else {
			swap := func(s string) string {
				rep := strings.NewReplacer("param#0:", "param#§2:", "param#2:", "param#§0:", "param#1:", "param#§3:", "param#3:", "param#§1:")
				return canonBraces(strings.ReplaceAll(rep.Replace(s), "param#§", "param#"))
			}
			isInvTest := func(conj string, param string) bool {
				return strings.Contains(conj, "via:Invalidation") && strings.Contains(conj, param+":") && strings.Contains(conj, "const:nil") && !strings.Contains(conj, "via:IsDefinite")
			}
			norm := func(p string, self, other string) (string, bool) {
				parts := strings.SplitN(p, " ⇒ ", 2)
				var keep []string
				selfInv, otherClear := false, false
				for _, c := range strings.Split(parts[0], " ∧ ") {
					if c == "" {
						continue
					}
					// nil tests of an (optional) *ReturnInfo operand
					if strings.Contains(c, "*sema.ReturnInfo}") && strings.Contains(c, "const:nil") && !strings.Contains(c, ".Definitely") {
						if strings.HasPrefix(c, "+==(") || strings.HasPrefix(c, "-!=(") {
							return "", false // the optional side is absent on this path
						}
						continue
					}
					switch {
					case isInvTest(c, self) && (strings.HasPrefix(c, "+!=(") || strings.HasPrefix(c, "-==(")):
						selfInv = true
						continue
					case isInvTest(c, other) && (strings.HasPrefix(c, "-!=(") || strings.HasPrefix(c, "+==(")):
						otherClear = true
						continue
					case isInvTest(c, self) || isInvTest(c, other):
						return "", false
					}
					keep = append(keep, c)
				}
				if !selfInv || !otherClear {
					return "", false
				}
				sort.Strings(keep)
				return strings.Join(keep, " ∧ ") + " ⇒ " + parts[1], true
			}
			armA, armB := map[string]bool{}, map[string]bool{}
			for _, p := range paths {
				if n, ok := norm(p, "param#0", "param#2"); ok {
					armA[canonBraces(n)] = true
				}
				if n, ok := norm(p, "param#2", "param#0"); ok {
					armB[swap(n)] = true
				}
			}
			if os.Getenv("CADCHECK_DEV") != "" {
				for _, k := range paths {
					fmt.Println("PATH", k)
				}
				for k := range armA {
					fmt.Println("ARM-A", k)
				}
				for k := range armB {
					fmt.Println("ARM-B", k)
				}
			}
			var diff []string
			for k := range armA {
				if !armB[k] {
					diff = append(diff, "only when the then branch invalidated: "+k)
				}
			}
			for k := range armB {
				if !armA[k] {
					diff = append(diff, "only when the else branch invalidated (mirrored): "+k)
				}
			}
			sort.Strings(diff)
			why := ""
			if len(diff) > 0 {
				why = "the handling of an invalidation in only the then branch and in only the else branch are not mirror images: " + strings.Join(diff, " || ")
				if len(why) > 900 {
					why = why[:900] + "…"
				}
			}
			r.Check(len(armA) > 0 && len(diff) == 0, "R7.mirror", "sema.mergeResourceInfos: single-branch arms are mirror images", fn.Pos(),
				itoa(len(armA))+" path(s) per arm, then<->else symmetric (paths with an absent else side aside)", why)
		}
	} else if fn != nil {
		r.Undecided("R7.mirror", "sema.mergeResourceInfos", "expected four parameters")
	}
	r.Floor("R7.mirror", 1)

	// R8 skip grounds of the scope-exit loss check: checkResourceLoss may return before examining the variables only on
	// the reviewed grounds (every early return keeps all conditions of a reviewed one)
	if fn := mustFn(r, "R8.skips", "sema", "Checker", "checkResourceLoss"); fn != nil {
		pg, complete := core.PathGrounds(fn, 64)
		if !complete {
			r.Undecided("R8.skips", core.SSAKey(fn), "too many paths to enumerate")
		}
		got := map[string][]string{core.SSAKey(fn): pg}
		if genMode() {
			genJSON(r, "c03_skip_grounds", got)
		} else {
			var pinned map[string][]string
			if r.Table("c03_skip_grounds", &pinned) {
				for _, k := range sortedKeys(pinned) {
					for _, c := range got[k] {
						known := false
						for _, pg := range pinned[k] {
							if core.GroundCovers(c, pg) {
								known = true
							}
						}
						r.Check(known, "R8.skips", k+": return under "+c, fn.Pos(), "a reviewed ground for leaving the loss check",
							"the scope-exit loss check returns early on a ground that keeps the conditions of none of the reviewed ones: resources alive on some path are no longer reported as lost")
					}
				}
			}
		}
	}
	r.Floor("R8.skips", 2)

	// R9 sibling merges of ReturnInfo propagate jump offsets: every Merge* method hands each ReturnInfo operand to
	// addJumpOffsetsFrom on every path (maybeAddResourceInvalidation and checkResourceLoss consult these offsets)
	if ri := w.Named("sema", "ReturnInfo"); ri == nil {
		r.Undecided("R9.merges", "sema.ReturnInfo", "does not resolve")
	} else {
		ms := types.NewMethodSet(types.NewPointer(ri))
		for i := 0; i < ms.Len(); i++ {
			m, _ := ms.At(i).Obj().(*types.Func)
			if m == nil || !strings.HasPrefix(m.Name(), "Merge") {
				continue
			}
			fn := w.Prog.FuncValue(m)
			if fn == nil || len(fn.Blocks) == 0 {
				continue
			}
			for pi, p := range fn.Params {
				if pi == 0 {
					continue
				}
				if _, tn := core.TypeName(p.Type()); tn != "ReturnInfo" {
					continue
				}
				pp := p
				passes := func(in ssa.Instruction) bool {
					c, ok := in.(ssa.CallInstruction)
					if !ok {
						return false
					}
					o := core.Callee(c)
					if o == nil || o.Name() != "addJumpOffsetsFrom" {
						return false
					}
					for _, a := range c.Common().Args {
						if core.IsParamValue(a, pp) {
							return true
						}
					}
					return false
				}
				ok := true
				for _, ret := range core.Returns(fn) {
					if !core.MustPass(ret, passes) {
						ok = false
					}
				}
				r.Check(ok, "R9.merges", core.SSAKey(fn)+": jump offsets of operand #"+itoa(pi)+" propagated", fn.Pos(), "addJumpOffsetsFrom(operand) on every path",
					"this merge drops the jump offsets recorded in its operand while its sibling merges propagate them: a break/continue inside the merged code (e.g. the else block of a guard statement) is forgotten, and a resource that is alive at the jump is not reported as lost")
			}
		}
	}
	r.Floor("R9.merges", 3)
	// R10 the loop and switch jump-target scopes are mirror images: save the flag, run the body in a new jump target,
	// clear the definite exits if the body jumped, restore the flag — in that order in both
	siblingRule(r, "R10.scopes", []*core.Family{famCtl}, func(g string) bool {
		return g == "sema.(FunctionActivation).With§0" || g == "sema.(ReturnInfo).WithNew§0JumpTarget"
	})
	r.Floor("R10.scopes", 2)
}

func isNilTestOf(e ast.Expr, info *types.Info, role map[types.Object]string, suffix string) bool {
	be, ok := e.(*ast.BinaryExpr)
	if !ok || (be.Op != token.NEQ && be.Op != token.EQL) {
		return false
	}
	id, ok := be.X.(*ast.Ident)
	if !ok {
		return false
	}
	n, ok := be.Y.(*ast.Ident)
	if !ok || n.Name != "nil" {
		return false
	}
	ro, ok := role[info.Uses[id]]
	return ok && strings.HasSuffix(ro, suffix)
}

// c07Order: R2 — the purity observation precedes what it guards: in each visitor the observation call dominates the
// call that carries the operation out (the check of the invocation, the recording of the resource invalidation).
func c07Order(r *core.Run) {
	type pair struct{ fn, observe, anchor string }
	for _, x := range []pair{
		{"checkInvocationExpression", "EnforcePurity", "checkInvocation"},
		{"checkAssignment", "enforceViewAssignment", "recordResourceInvalidation"},
	} {
		fn := mustFn(r, "R2.order", "sema", "Checker", x.fn)
		if fn == nil {
			continue
		}
		var obs []ssa.CallInstruction
		var anchors []ssa.Instruction
		named := func(nm string) func(*types.Func) bool {
			return func(o *types.Func) bool { return o != nil && o.Name() == nm }
		}
		core.Instrs(fn, false, func(in ssa.Instruction) {
			switch y := in.(type) {
			case ssa.CallInstruction:
				if o := core.Callee(y); o != nil {
					switch o.Name() {
					case x.observe:
						obs = append(obs, y)
					case x.anchor:
						anchors = append(anchors, in)
					}
				}
			case *ssa.MakeClosure:
				// a function literal that carries the operation out: it is built after the observation
				if lit, ok := y.Fn.(*ssa.Function); ok && len(core.CallsTo(lit, true, named(x.anchor))) > 0 {
					anchors = append(anchors, in)
				}
			}
		})
		if len(obs) == 0 || len(anchors) == 0 {
			r.Undecided("R2.order", "sema.(Checker)."+x.fn, "observation or anchor call not found directly in the function")
			continue
		}
		for i, a := range anchors {
			dom := false
			for _, o := range obs {
				if core.Dominates(o, a) {
					dom = true
				}
			}
			r.Check(dom, "R2.order", "sema.(Checker)."+x.fn+": "+x.observe+" before "+x.anchor+" #"+itoa(i+1), a.Pos(), "the purity observation dominates the operation",
				"the operation is carried out on a path that has not passed the purity observation (the observation became conditional or moved behind an early exit): an impure operation in a view context is not reported on that path")
		}
	}
	r.Floor("R2.order", 2)
}

var reBraces = regexp.MustCompile(`\{[^{}]*\}`)

// canonBraces sorts the tokens inside every {...} group (origin leaf sets) so that renamed leaves compare equal.
func canonBraces(s string) string {
	return reBraces.ReplaceAllStringFunc(s, func(g string) string {
		toks := strings.Fields(g[1 : len(g)-1])
		sort.Strings(toks)
		return "{" + strings.Join(toks, " ") + "}"
	})
}
