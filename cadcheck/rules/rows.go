package rules

import (
	"fmt"
	"go/ast"
	"go/token"
	"go/types"
	"regexp"
	"sort"
	"strconv"
	"strings"

	"golang.org/x/tools/go/packages"

	"cadcheck/core"
)

// rowTags are the numeric-type family markers found in one table row.
type rowTags struct {
	full     map[string]token.Pos // full type tags (Int8, UInt, Word64, Fix128 …) from module identifiers
	widths   map[int]token.Pos    // bit widths from bounds (math.MaxInt8), native types (int8), width literals
	signed   map[bool]token.Pos   // signedness of native types / math bounds
	first    string               // the first full tag of the row in source order: the row's own type
	firstPos token.Pos
}

var (
	reNoise  = regexp.MustCompile(`Uint64RandomNumber|BigRandomNumber|FromBigInt|FromUint64|FromInt64|BigInt|ToInt|BigEndian|IntPlusOne|UintSize|IntValueParser|FixedPoint|Fixedpoint`)
	reBound  = regexp.MustCompile(`M(?:in|ax)(Int|Uint)(\d+)`)
	reBound0 = regexp.MustCompile(`M(?:in|ax)(?:Int|Uint)`)
	reTag    = regexp.MustCompile(`(UFix|Fix|UInt|Uint|Int|Word)(\d*)`)
	reNative = regexp.MustCompile(`^(u?)int(8|16|32|64)$`)
)

var widthLits = map[string]bool{"8": true, "16": true, "32": true, "64": true, "128": true, "256": true}

func tagsOf(node ast.Node, info *types.Info) rowTags {
	t := rowTags{full: map[string]token.Pos{}, widths: map[int]token.Pos{}, signed: map[bool]token.Pos{}}
	// native types in parameter lists of function literals are the types of the *inputs* (e.g. the int64 a parser hands over)
	paramIdents := map[*ast.Ident]bool{}
	ast.Inspect(node, func(n ast.Node) bool {
		if ft, ok := n.(*ast.FuncType); ok && ft.Params != nil {
			ast.Inspect(ft.Params, func(m ast.Node) bool {
				if id, ok := m.(*ast.Ident); ok {
					paramIdents[id] = true
				}
				return true
			})
		}
		return true
	})
	ast.Inspect(node, func(n ast.Node) bool {
		switch x := n.(type) {
		case *ast.CallExpr:
			for _, a := range x.Args {
				if bl, ok := a.(*ast.BasicLit); ok && bl.Kind == token.INT && widthLits[bl.Value] {
					w, _ := strconv.Atoi(bl.Value)
					t.widths[w] = bl.Pos()
				}
			}
		case *ast.Ident:
			obj := info.Uses[x]
			if obj == nil {
				return true
			}
			if tn, ok := obj.(*types.TypeName); ok && tn.Pkg() == nil {
				if paramIdents[x] {
					return true
				}
				if m := reNative.FindStringSubmatch(tn.Name()); m != nil {
					w, _ := strconv.Atoi(m[2])
					t.widths[w] = x.Pos()
					t.signed[m[1] == ""] = x.Pos()
				}
				return true
			}
			if obj.Pkg() == nil || obj.Parent() != obj.Pkg().Scope() {
				return true
			}
			path := obj.Pkg().Path()
			if !(core.InMod(path) || path == "math" || path == fixPath) {
				return true
			}
			name := obj.Name()
			for _, m := range reBound.FindAllStringSubmatch(name, -1) {
				w, _ := strconv.Atoi(m[2])
				t.widths[w] = x.Pos()
				t.signed[m[1] == "Int"] = x.Pos()
			}
			name = reBound.ReplaceAllString(name, "")
			name = reBound0.ReplaceAllString(name, "")
			name = reNoise.ReplaceAllString(name, "")
			if path == "math" {
				return true
			}
			widthOnly := strings.Contains(name, "MemoryUsage")
			for _, m := range reTag.FindAllStringSubmatchIndex(name, -1) {
				// camel-case boundary: the tag starts the name or follows a lowercase letter / digit / underscore
				if m[0] > 0 {
					c := name[m[0]-1]
					if c >= 'A' && c <= 'Z' {
						continue
					}
				}
				fam, digits := name[m[2]:m[3]], name[m[4]:m[5]]
				if fam == "Uint" {
					fam = "UInt"
				}
				if digits != "" {
					w, _ := strconv.Atoi(digits)
					if !widthLits[digits] {
						continue
					}
					t.widths[w] = x.Pos()
				}
				if digits == "" && fam != "Int" && fam != "UInt" {
					continue // Fix/UFix/Word exist only with a width
				}
				if !widthOnly {
					if _, dup := t.full[fam+digits]; !dup {
						t.full[fam+digits] = x.Pos()
					}
					if t.first == "" || x.Pos() < t.firstPos {
						t.first, t.firstPos = fam+digits, x.Pos()
					}
				}
			}
		}
		return true
	})
	return t
}

// coherent reports why a row mixes family members ("" = coherent).
func (t rowTags) incoherent() string {
	if len(t.full) > 1 {
		return "row names more than one numeric type: " + strings.Join(sortedKeys(t.full), ", ")
	}
	fixRow := false
	for f := range t.full {
		if strings.Contains(f, "Fix") {
			fixRow = true
		}
	}
	if fixRow {
		return ""
	}
	if len(t.widths) > 1 {
		var ws []string
		for w := range t.widths {
			ws = append(ws, strconv.Itoa(w))
		}
		sort.Strings(ws)
		return "row mixes bit widths: " + strings.Join(ws, ", ")
	}
	if len(t.signed) > 1 {
		return "row mixes signed and unsigned native types/bounds"
	}
	for f := range t.full {
		digits := reDigits.FindString(f)
		if strings.Contains(f, "Fix") {
			continue // fixed-point rows do integer/len arithmetic of their own; only the type uniqueness is decided
		}
		for w := range t.widths {
			if digits != "" && digits != strconv.Itoa(w) {
				return fmt.Sprintf("row of %s uses width %d", f, w)
			}
		}
		for s := range t.signed {
			isSignedType := strings.HasPrefix(f, "Int") || strings.HasPrefix(f, "Fix")
			if s != isSignedType {
				return fmt.Sprintf("row of %s uses a native type/bound of the other signedness", f)
			}
		}
	}
	return ""
}

func (t rowTags) tag() string { return t.first }

var reDigits = regexp.MustCompile(`\d+$`)

// rowsOfLiteral returns the elements of the first composite literal of slice/array/map type inside node.
func rowsOfLiteral(node ast.Node) []ast.Expr {
	var rows []ast.Expr
	ast.Inspect(node, func(n ast.Node) bool {
		if rows != nil {
			return false
		}
		if cl, ok := n.(*ast.CompositeLit); ok {
			switch cl.Type.(type) {
			case *ast.ArrayType, *ast.MapType:
				rows = cl.Elts
				return false
			}
		}
		return true
	})
	return rows
}

// pkgVarInit finds the initialiser expression of a package-level variable.
func pkgVarInit(p *packages.Package, name string) ast.Expr {
	for _, f := range p.Syntax {
		for _, d := range f.Decls {
			gd, ok := d.(*ast.GenDecl)
			if !ok || gd.Tok != token.VAR {
				continue
			}
			for _, sp := range gd.Specs {
				vs := sp.(*ast.ValueSpec)
				for i, n := range vs.Names {
					if n.Name == name && i < len(vs.Values) {
						return vs.Values[i]
					}
				}
			}
		}
	}
	return nil
}

// rowCoherence checks every row of a table (composite-literal elements) for family coherence and returns the tags seen.
func rowCoherence(r *core.Run, rule, table string, rows []ast.Expr, info *types.Info) map[string]bool {
	seen := map[string]bool{}
	for i, row := range rows {
		t := tagsOf(row, info)
		tag := t.tag()
		key := fmt.Sprintf("%s[%s]", table, tag)
		if tag == "" {
			key = fmt.Sprintf("%s[row %d, no numeric type]", table, i)
			continue
		}
		seen[tag] = true
		why := t.incoherent()
		r.Check(why == "", rule, key, row.Pos(), "every family-bearing identifier, bound, native type and width literal of the row belongs to "+tag, why)
	}
	return seen
}

// switchRows checks every case clause of the switch statements in fd whose case expressions carry a numeric tag.
func switchRows(r *core.Run, rule, table string, fd ast.Node, info *types.Info, ignoreNative ...bool) map[string]bool {
	seen := map[string]bool{}
	ast.Inspect(fd, func(n ast.Node) bool {
		cc, ok := n.(*ast.CaseClause)
		if !ok || len(cc.List) == 0 {
			return true
		}
		// tag from the case expressions only
		ct := rowTags{full: map[string]token.Pos{}, widths: map[int]token.Pos{}, signed: map[bool]token.Pos{}}
		for _, e := range cc.List {
			et := tagsOf(e, info)
			for k, v := range et.full {
				ct.full[k] = v
			}
		}
		if len(ct.full) != 1 {
			return true // not a one-type-per-arm table (or a multi-type arm)
		}
		tag := ""
		for k := range ct.full {
			tag = k
		}
		t := tagsOf(cc, info)
		if len(ignoreNative) > 0 && ignoreNative[0] {
			// widening conversions to a common native type are legitimate in this table
			t.widths = map[int]token.Pos{}
			t.signed = map[bool]token.Pos{}
		}
		seen[tag] = true
		why := t.incoherent()
		r.Check(why == "", rule, fmt.Sprintf("%s[case %s]", table, tag), cc.Pos(), "arm uses only "+tag+"'s constructors, bounds and widths", why)
		return true
	})
	return seen
}
