package rules

import (
	"go/types"

	"golang.org/x/tools/go/ssa"

	"cadcheck/core"
)

type containerSpec struct {
	Recv  string // ArrayValue, DictionaryValue, CompositeValue
	Field string // backing atree field
}

var containers = []containerSpec{{"ArrayValue", "array"}, {"DictionaryValue", "dictionary"}, {"CompositeValue", "dictionary"}}

type transferFacts struct {
	spec   containerSpec
	fn     *ssa.Function
	isRK   core.BoolVar
	remove core.BoolVar
	key    string
}

func interpPath() string { return mod + "/interpreter" }

func getTransferFacts(r *core.Run, rule string, spec containerSpec) *transferFacts {
	fn := mustFn(r, rule, "interpreter", spec.Recv, "Transfer")
	if fn == nil {
		return nil
	}
	tf := &transferFacts{spec: spec, fn: fn, key: core.SSAKey(fn)}
	for _, c := range core.CallsTo(fn, false, methodOf("IsResourceKinded", interpPath()+"."+spec.Recv)) {
		if c.Value() != nil {
			tf.isRK = core.BoolVar{Call: c.Value()}
		}
	}
	for _, p := range fn.Params {
		if p.Name() == "remove" && types.Identical(p.Type(), types.Typ[types.Bool]) {
			tf.remove = core.BoolVar{Param: p}
		}
	}
	if tf.isRK.Call == nil {
		r.Undecided(rule, tf.key, "the resource-kindedness test v.IsResourceKinded(context) was not found")
		return nil
	}
	if tf.remove.Param == nil {
		r.Undecided(rule, tf.key, "no bool parameter named remove")
		return nil
	}
	return tf
}

func isReturn(in ssa.Instruction) bool { _, ok := in.(*ssa.Return); return ok }

// nilFieldStore: store of nil into the receiver's backing field.
func (tf *transferFacts) nilFieldStore(in ssa.Instruction) bool {
	st, ok := in.(*ssa.Store)
	if !ok {
		return false
	}
	fa, ok := st.Addr.(*ssa.FieldAddr)
	if !ok {
		return false
	}
	c, isConst := st.Val.(*ssa.Const)
	if !isConst || !c.IsNil() {
		return false
	}
	stt, ok := fa.X.Type().Underlying().(*types.Pointer)
	if !ok {
		return false
	}
	s, ok := stt.Elem().Underlying().(*types.Struct)
	return ok && s.Field(fa.Field).Name() == tf.spec.Field
}

func callTo(pred func(*types.Func) bool) func(ssa.Instruction) bool {
	return func(in ssa.Instruction) bool {
		return core.CallReaches(in, func(c ssa.CallInstruction) bool { o := core.Callee(c); return o != nil && pred(o) }, 2)
	}
}

var (
	isInvalidateRefs = funcOf(mod+"/interpreter", "InvalidateReferencedResources")
	isClearCanonical = func(o *types.Func) bool { return o != nil && o.Name() == "ClearCanonicalAtreeContainer" }
	isRemoveRefSlab  = funcOf(mod+"/interpreter", "RemoveReferencedSlab")
	isPopIterate     = func(o *types.Func) bool {
		return o != nil && o.Name() == "PopIterate" && o.Pkg() != nil && o.Pkg().Path() == atreePath
	}
	isCopyCall = func(o *types.Func) bool {
		if o == nil || o.Pkg() == nil || o.Pkg().Path() != atreePath {
			return false
		}
		switch o.Name() {
		case "CopyNonRefSimple", "NewArrayFromBatchData", "NewMapFromBatchData":
			return true
		}
		return false
	}
)

// mustOnPath: under the assumptions, no return is reachable (from starts) without executing what first.
func (tf *transferFacts) mustOnPath(r *core.Run, rule, what string, as []core.Assumption, starts []*ssa.BasicBlock, what1 func(ssa.Instruction) bool, okMsg, badMsg string) {
	esc := core.ReachUnder(tf.fn, as, starts, what1, isReturn)
	key := tf.key + ": " + what
	if esc == nil {
		r.OK(rule, key, tf.fn.Pos(), okMsg)
	} else {
		r.Bad(rule, key, posOf(esc), badMsg+" (a return is reachable without it)")
	}
}

// neverOnPath: under the assumptions, what is unreachable.
func (tf *transferFacts) neverOnPath(r *core.Run, rule, what string, as []core.Assumption, what1 func(ssa.Instruction) bool, okMsg, badMsg string) {
	hit := core.ReachUnder(tf.fn, as, nil, nil, what1)
	key := tf.key + ": " + what
	if hit == nil {
		r.OK(rule, key, tf.fn.Pos(), okMsg)
	} else {
		r.Bad(rule, key, posOf(hit), badMsg)
	}
}

// blocksAfter returns the blocks of instructions matching pred (to start a search "after the copy").
func blocksOf(fn *ssa.Function, pred func(ssa.Instruction) bool) []*ssa.BasicBlock {
	var out []*ssa.BasicBlock
	for _, b := range fn.Blocks {
		for _, in := range b.Instrs {
			if pred(in) {
				out = append(out, b.Succs...)
				break
			}
		}
	}
	return out
}

// ---- the per-property views ----------------------------------------------

// transferMoveProtocol (C02/C04): when the value is resource-kinded, before returning the source is invalidated.
func transferMoveProtocol(r *core.Run, rule string, wantInvalidateRefs, wantSourceCleared bool) {
	for _, spec := range containers {
		tf := getTransferFacts(r, rule, spec)
		if tf == nil {
			continue
		}
		rk := []core.Assumption{{Var: tf.isRK, Val: true}}
		if wantInvalidateRefs {
			tf.mustOnPath(r, rule, "resource path -> InvalidateReferencedResources", rk, nil, callTo(isInvalidateRefs),
				"every resource-kinded path invalidates the references to the moved value before returning",
				"a resource-kinded transfer can return without InvalidateReferencedResources: references to the moved resource stay usable")
		}
		if wantSourceCleared {
			tf.mustOnPath(r, rule, "resource path -> v."+spec.Field+" = nil", rk, nil, tf.nilFieldStore,
				"every resource-kinded path clears the source's backing container before returning",
				"a resource-kinded transfer can return with the source still holding its container: the resource exists twice")
			tf.mustOnPath(r, rule, "resource path -> ClearCanonicalAtreeContainer", rk, nil, callTo(isClearCanonical),
				"every resource-kinded path clears the canonical-container registration",
				"a resource-kinded transfer can return without ClearCanonicalAtreeContainer")
		}
	}
}

// transferCopyProtocol (C05): a non-resource value is copied, and a pure copy does not touch the source.
func transferCopyProtocol(r *core.Run, rule string) {
	for _, spec := range containers {
		tf := getTransferFacts(r, rule, spec)
		if tf == nil {
			continue
		}
		notRK := []core.Assumption{{Var: tf.isRK, Val: false}}
		tf.mustOnPath(r, rule, "non-resource path -> copy of the container", notRK, nil, callTo(isCopyCall),
			"every path of a non-resource value builds a new atree container (CopyNonRefSimple / New…FromBatchData) before returning",
			"a non-resource value can be transferred without copying its container: the result aliases the source")
		pure := []core.Assumption{{Var: tf.isRK, Val: false}, {Var: tf.remove, Val: false}}
		tf.neverOnPath(r, rule, "pure copy never clears the source", pure, tf.nilFieldStore,
			"with remove=false and a non-resource value the source's backing container is never cleared",
			"the source container is cleared although the value is a non-resource copied with remove=false")
		tf.neverOnPath(r, rule, "pure copy never pops the source", pure, callTo(isPopIterate),
			"with remove=false the source elements are never popped",
			"the source's elements are popped although the value is copied with remove=false")
	}
}

// transferRemoveProtocol (C23): when remove is set and a copy was made, the old slabs are removed.
func transferRemoveProtocol(r *core.Run, rule string) {
	for _, spec := range containers {
		tf := getTransferFacts(r, rule, spec)
		if tf == nil {
			continue
		}
		rm := []core.Assumption{{Var: tf.remove, Val: true}}
		starts := blocksOf(tf.fn, callTo(isCopyCall))
		if len(starts) == 0 {
			r.Undecided(rule, tf.key, "no container copy call found")
			continue
		}
		tf.mustOnPath(r, rule, "copy with remove -> PopIterate+RemoveReferencedSlab of the children", rm, starts,
			func(in ssa.Instruction) bool {
				return core.CallsDeep(in, func(c ssa.CallInstruction) bool { o := core.Callee(c); return o != nil && isPopIterate(o) }) &&
					callTo(isRemoveRefSlab)(in)
			},
			"after copying with remove=true every child storable of the old container is popped and its slab removed",
			"after a copy with remove=true the old container's children are not popped/removed: orphaned slabs stay in storage")
		tf.mustOnPath(r, rule, "copy with remove -> RemoveReferencedSlab(storable)", rm, starts,
			func(in ssa.Instruction) bool {
				c, ok := in.(ssa.CallInstruction)
				if !ok {
					return false
				}
				o := core.Callee(c)
				return o != nil && isRemoveRefSlab(o)
			},
			"after copying with remove=true the old root slab is removed",
			"after a copy with remove=true the old root slab is not removed")
	}
}
