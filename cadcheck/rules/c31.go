package rules

import (
	"go/types"
	"strings"

	"golang.org/x/tools/go/ssa"

	"cadcheck/core"
)

func init() { register("C31", c31) }

func isMeterCall(o *types.Func) bool {
	if o == nil || o.Pkg() == nil {
		return false
	}
	if o.Pkg().Path() == mod+"/common" && (o.Name() == "UseMemory" || o.Name() == "UseComputation") {
		return true
	}
	return (o.Name() == "MeterMemory" || o.Name() == "MeterComputation") && core.RecvName(o) != ""
}

type frame struct {
	fn   *ssa.Function
	call ssa.CallInstruction // the call that entered fn (nil for the region root)
}

// gaugeNil: is the gauge value statically nil, following parameters up the explored call chain.
func gaugeNil(v ssa.Value, stack []frame) bool {
	v = core.Unwrap(v)
	if c, ok := v.(*ssa.Const); ok {
		return c.IsNil()
	}
	if p, ok := v.(*ssa.Parameter); ok && len(stack) > 0 {
		top := stack[len(stack)-1]
		if top.call == nil || top.fn != p.Parent() {
			return false
		}
		idx := -1
		for i, q := range top.fn.Params {
			if q == p {
				idx = i
			}
		}
		args := top.call.Common().Args
		if top.call.Common().IsInvoke() {
			idx-- // receiver is not in Args
		}
		if idx < 0 || idx >= len(args) {
			return false
		}
		return gaugeNil(args[idx], stack[:len(stack)-1])
	}
	return false
}

func c31(r *core.Run) {
	r.Explanation = "Decided clauses: (R1) no metering while filling a process-lifetime cache: from every cache-fill region of the checker/interpreter packages (closures run by sync.Once.Do, functions that publish through atomic.Pointer.Store/CompareAndSwap or sync.Map.Store/LoadOrStore, and the small-integer value cache) " +
		"no metering call (common.UseMemory/UseComputation, gauge.MeterMemory/MeterComputation) is reachable within three static calls unless its gauge argument is the constant nil along the explored chain — otherwise the first execution after process start would be charged more than later ones; " +
		"(R2) the usage constructors of common/metering.go read no package-level mutable state."
	r.NotDecided = "equality of metered totals across runs, caches and schedules."
	w := r.W
	regionPkgs := map[string]bool{"sema": true, "ast": true, "interpreter": true, "common": true, "values": true, "bbq/commons": true, "bbq/compiler": true, "bbq/vm": true}
	type region struct {
		fn   *ssa.Function
		what string
	}
	var regions []region
	for _, fn := range w.SrcFuncs() {
		if fn.Pkg == nil || !regionPkgs[core.RelPkg(fn.Pkg.Pkg.Path())] {
			continue
		}
		for _, g := range core.WithAnon(fn) {
			for _, c := range core.Calls(g, false) {
				o := core.Callee(c)
				if o == nil || o.Pkg() == nil {
					continue
				}
				switch {
				case o.Pkg().Path() == "sync" && core.RecvName(o) == "Once" && o.Name() == "Do":
					if mc, ok := core.Unwrap(c.Common().Args[0]).(*ssa.MakeClosure); ok {
						regions = append(regions, region{mc.Fn.(*ssa.Function), "sync.Once.Do closure in " + core.SSAKey(fn)})
					} else if f, ok := c.Common().Args[0].(*ssa.Function); ok {
						regions = append(regions, region{f, "sync.Once.Do function in " + core.SSAKey(fn)})
					}
				case o.Pkg().Path() == "sync/atomic" && strings.HasPrefix(core.RecvName(o), "Pointer") && (o.Name() == "Store" || o.Name() == "CompareAndSwap"):
					regions = append(regions, region{g, "atomic.Pointer publish in " + core.SSAKey(fn)})
				case o.Pkg().Path() == "sync" && core.RecvName(o) == "Map" && (o.Name() == "Store" || o.Name() == "LoadOrStore"):
					regions = append(regions, region{g, "sync.Map publish in " + core.SSAKey(fn)})
				}
			}
		}
	}
	seenRegion := map[*ssa.Function]bool{}
	for _, reg := range regions {
		if seenRegion[reg.fn] {
			continue
		}
		seenRegion[reg.fn] = true
		bad := ""
		visited := map[*ssa.Function]bool{}
		var visit func(stack []frame, depth int)
		visit = func(stack []frame, depth int) {
			cur := stack[len(stack)-1].fn
			if visited[cur] || len(cur.Blocks) == 0 || bad != "" {
				return
			}
			visited[cur] = true
			for _, c := range core.Calls(cur, true) {
				o := core.Callee(c)
				if o != nil && isMeterCall(o) {
					args := c.Common().Args
					var gauge ssa.Value
					if c.Common().IsInvoke() {
						gauge = c.Common().Value
					} else if len(args) > 0 {
						gauge = args[0]
					}
					if c.Parent() != cur {
						// inside a nested closure: parameters of cur are captured; treat free variables as unknown
						if !gaugeNil(gauge, nil) {
							bad = core.FuncKey(o) + " at " + w.Pos(c.Pos())
						}
						continue
					}
					if !gaugeNil(gauge, stack) {
						bad = core.FuncKey(o) + " at " + w.Pos(c.Pos())
					}
					continue
				}
				if depth >= 3 {
					continue
				}
				sf := core.StaticFn(c)
				if sf == nil || !core.InModFn(sf) || c.Parent() != cur {
					continue
				}
				visit(append(append([]frame{}, stack...), frame{sf, c}), depth+1)
			}
		}
		visit([]frame{{reg.fn, nil}}, 0)
		r.Check(bad == "", "R1.cachefill", reg.what, reg.fn.Pos(), "no metering with a live gauge is reachable while the cached value is built",
			"metering call "+bad+" is reachable with a non-nil gauge while a process-lifetime cache is filled: only the first execution pays for it")
	}
	r.Floor("R1.cachefill", 15)

	// R2 usage constructors are pure functions of their arguments
	mutable := map[*ssa.Global]bool{}
	for _, fn := range w.SrcFuncs() {
		if fn.Name() == "init" || strings.HasPrefix(fn.Name(), "init#") {
			continue
		}
		core.Instrs(fn, true, func(in ssa.Instruction) {
			if st, ok := in.(*ssa.Store); ok {
				if g, ok := st.Addr.(*ssa.Global); ok {
					mutable[g] = true
				}
			}
		})
	}
	n := 0
	for _, fn := range w.SrcFuncsIn("common") {
		if fn.Parent() != nil || !strings.HasPrefix(fn.Name(), "New") || !strings.Contains(fn.Name(), "Usage") {
			continue
		}
		if w.File(fn.Pos()) != "common/metering.go" {
			continue
		}
		n++
		bad := ""
		core.Instrs(fn, true, func(in ssa.Instruction) {
			switch x := in.(type) {
			case *ssa.Store:
				if g, ok := x.Addr.(*ssa.Global); ok {
					bad = "writes global " + g.Name()
				}
			case *ssa.UnOp:
				if g, ok := x.X.(*ssa.Global); ok {
					// reading a package-level variable: allowed only for immutable usage templates declared in common
					if mutable[g] {
						bad = "reads the mutable package-level variable " + g.Name()
					}
				}
			}
		})
		r.Check(bad == "", "R2.pure", core.SSAKey(fn), fn.Pos(), "depends only on its arguments and constants", "metering amount "+bad+": it can differ between executions")
	}
	r.Floor("R2.pure", 20)
}
