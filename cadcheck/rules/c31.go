package rules

import (
	"go/token"
	"go/types"
	"strings"

	"golang.org/x/tools/go/ssa"

	"cadcheck/core"
)

func init() { register("C31", c31) }

func isMeterCall(o *types.Func) bool {
	if o == nil || o.Pkg() == nil {
		return false
	}
	if o.Pkg().Path() == mod+"/common" && (o.Name() == "UseMemory" || o.Name() == "UseComputation") {
		return true
	}
	return (o.Name() == "MeterMemory" || o.Name() == "MeterComputation") && core.RecvName(o) != ""
}

type frame struct {
	fn   *ssa.Function
	call ssa.CallInstruction // the call that entered fn (nil for the region root)
}

// gaugeNil: is the gauge value statically nil, following parameters up the explored call chain.
func gaugeNil(v ssa.Value, stack []frame) bool {
	v = core.Unwrap(v)
	if c, ok := v.(*ssa.Const); ok {
		return c.IsNil()
	}
	if p, ok := v.(*ssa.Parameter); ok && len(stack) > 0 {
		top := stack[len(stack)-1]
		if top.call == nil || top.fn != p.Parent() {
			return false
		}
		idx := -1
		for i, q := range top.fn.Params {
			if q == p {
				idx = i
			}
		}
		args := top.call.Common().Args
		if top.call.Common().IsInvoke() {
			idx-- // receiver is not in Args
		}
		if idx < 0 || idx >= len(args) {
			return false
		}
		return gaugeNil(args[idx], stack[:len(stack)-1])
	}
	return false
}

func c31(r *core.Run) {
	r.Explanation = "Decided clauses: (R1) no metering while filling a process-lifetime cache: from every cache-fill region of the checker/interpreter packages (closures run by sync.Once.Do, functions that publish through atomic.Pointer.Store/CompareAndSwap or sync.Map.Store/LoadOrStore, and the small-integer value cache) " +
		"no metering call (common.UseMemory/UseComputation, gauge.MeterMemory/MeterComputation) is reachable within three static calls unless its gauge argument is the constant nil along the explored chain — otherwise the first execution after process start would be charged more than later ones; " +
		"(R2) the usage constructors of common/metering.go read no package-level mutable state; " +
		"(R3) no new lazily filled cache (nil/zero-tested struct field, or map with lookup-miss fill) whose fill receives a live gauge, beyond the sites recorded from the reviewed tree."
	r.NotDecided = "equality of metered totals across runs, caches and schedules."
	w := r.W
	regionPkgs := map[string]bool{"sema": true, "ast": true, "interpreter": true, "common": true, "values": true, "bbq/commons": true, "bbq/compiler": true, "bbq/vm": true}
	type region struct {
		fn   *ssa.Function
		what string
	}
	var regions []region
	for _, fn := range w.SrcFuncs() {
		if fn.Pkg == nil || !regionPkgs[core.RelPkg(fn.Pkg.Pkg.Path())] {
			continue
		}
		for _, g := range core.WithAnon(fn) {
			for _, c := range core.Calls(g, false) {
				o := core.Callee(c)
				if o == nil || o.Pkg() == nil {
					continue
				}
				switch {
				case o.Pkg().Path() == "sync" && core.RecvName(o) == "Once" && o.Name() == "Do":
					if mc, ok := core.Unwrap(c.Common().Args[0]).(*ssa.MakeClosure); ok {
						regions = append(regions, region{mc.Fn.(*ssa.Function), "sync.Once.Do closure in " + core.SSAKey(fn)})
					} else if f, ok := c.Common().Args[0].(*ssa.Function); ok {
						regions = append(regions, region{f, "sync.Once.Do function in " + core.SSAKey(fn)})
					}
				case o.Pkg().Path() == "sync/atomic" && strings.HasPrefix(core.RecvName(o), "Pointer") && (o.Name() == "Store" || o.Name() == "CompareAndSwap"):
					regions = append(regions, region{g, "atomic.Pointer publish in " + core.SSAKey(fn)})
				case o.Pkg().Path() == "sync" && core.RecvName(o) == "Map" && (o.Name() == "Store" || o.Name() == "LoadOrStore"):
					regions = append(regions, region{g, "sync.Map publish in " + core.SSAKey(fn)})
				}
			}
		}
	}
	seenRegion := map[*ssa.Function]bool{}
	for _, reg := range regions {
		if seenRegion[reg.fn] {
			continue
		}
		seenRegion[reg.fn] = true
		bad := ""
		visited := map[*ssa.Function]bool{}
		var visit func(stack []frame, depth int)
		visit = func(stack []frame, depth int) {
			cur := stack[len(stack)-1].fn
			if visited[cur] || len(cur.Blocks) == 0 || bad != "" {
				return
			}
			visited[cur] = true
			for _, c := range core.Calls(cur, true) {
				o := core.Callee(c)
				if o != nil && isMeterCall(o) {
					args := c.Common().Args
					var gauge ssa.Value
					if c.Common().IsInvoke() {
						gauge = c.Common().Value
					} else if len(args) > 0 {
						gauge = args[0]
					}
					if c.Parent() != cur {
						// inside a nested closure: parameters of cur are captured; treat free variables as unknown
						if !gaugeNil(gauge, nil) {
							bad = core.FuncKey(o) + " at " + w.Pos(c.Pos())
						}
						continue
					}
					if !gaugeNil(gauge, stack) {
						bad = core.FuncKey(o) + " at " + w.Pos(c.Pos())
					}
					continue
				}
				if depth >= 3 {
					continue
				}
				sf := core.StaticFn(c)
				if sf == nil || !core.InModFn(sf) || c.Parent() != cur {
					continue
				}
				visit(append(append([]frame{}, stack...), frame{sf, c}), depth+1)
			}
		}
		visit([]frame{{reg.fn, nil}}, 0)
		r.Check(bad == "", "R1.cachefill", reg.what, reg.fn.Pos(), "no metering with a live gauge is reachable while the cached value is built",
			"metering call "+bad+" is reachable with a non-nil gauge while a process-lifetime cache is filled: only the first execution pays for it")
	}
	r.Floor("R1.cachefill", 15)

	// R2 usage constructors are pure functions of their arguments
	mutable := map[*ssa.Global]bool{}
	for _, fn := range w.SrcFuncs() {
		if fn.Name() == "init" || strings.HasPrefix(fn.Name(), "init#") {
			continue
		}
		core.Instrs(fn, true, func(in ssa.Instruction) {
			if st, ok := in.(*ssa.Store); ok {
				if g, ok := st.Addr.(*ssa.Global); ok {
					mutable[g] = true
				}
			}
		})
	}
	n := 0
	for _, fn := range w.SrcFuncsIn("common") {
		if fn.Parent() != nil || !strings.HasPrefix(fn.Name(), "New") || !strings.Contains(fn.Name(), "Usage") {
			continue
		}
		if w.File(fn.Pos()) != "common/metering.go" {
			continue
		}
		n++
		bad := ""
		core.Instrs(fn, true, func(in ssa.Instruction) {
			switch x := in.(type) {
			case *ssa.Store:
				if g, ok := x.Addr.(*ssa.Global); ok {
					bad = "writes global " + g.Name()
				}
			case *ssa.UnOp:
				if g, ok := x.X.(*ssa.Global); ok {
					// reading a package-level variable: allowed only for immutable usage templates declared in common
					if mutable[g] {
						bad = "reads the mutable package-level variable " + g.Name()
					}
				}
			}
		})
		r.Check(bad == "", "R2.pure", core.SSAKey(fn), fn.Pos(), "depends only on its arguments and constants", "metering amount "+bad+": it can differ between executions")
	}
	r.Floor("R2.pure", 20)
	c31LazyFills(r)
	c31CacheOrigin(r)
}

// isGaugeType: an interface (or named type) through which memory or computation can be metered.
func isGaugeType(t types.Type) bool {
	ms := types.NewMethodSet(t)
	for i := 0; i < ms.Len(); i++ {
		switch ms.At(i).Obj().Name() {
		case "MeterMemory", "MeterComputation":
			return true
		}
	}
	return false
}

// c31LazyFills: R3 — lazily filled caches whose fill is metered. A value computed under a "not yet cached" test (a nil/zero
// test of a struct field that is then assigned, or a failed lookup in a map that is then updated) and computed by a call
// that receives a live gauge is charged only the first time; if the caching object outlives one execution (a built-in
// function value, an enum case of a reused environment) later runs of the same program report fewer usages. Whether an
// object is long-lived is not visible in the code of the cache, so the sites of the reviewed tree are a pinned baseline
// (tables/c31_lazy_metered.json, all on per-execution objects) and every new site is reported.
func c31LazyFills(r *core.Run) {
	const rule = "R3.lazyfill"
	w := r.W
	got := map[string]int{}
	liveGaugeCall := func(in ssa.Instruction) bool {
		c, ok := in.(ssa.CallInstruction)
		if !ok {
			return false
		}
		var ops []ssa.Value
		if c.Common().IsInvoke() {
			ops = append(ops, c.Common().Value)
		}
		ops = append(ops, c.Common().Args...)
		for _, a := range ops {
			if cst, isConst := a.(*ssa.Const); isConst && cst.IsNil() {
				continue
			}
			if isGaugeType(a.Type()) {
				return true
			}
		}
		return false
	}
	var all []*ssa.Function
	var collect func(f *ssa.Function)
	collect = func(f *ssa.Function) {
		all = append(all, f)
		for _, a := range f.AnonFuncs {
			collect(a)
		}
	}
	for _, fn := range w.SrcFuncs() {
		if fn.Pkg == nil || !w.InScope(fn.Pkg.Pkg.Path()) || fn.Parent() != nil {
			continue
		}
		collect(fn)
	}
	for _, fn := range all {
		top := fn
		for top.Parent() != nil {
			top = top.Parent()
		}
		for _, b := range fn.Blocks {
			if len(b.Instrs) == 0 {
				continue
			}
			iff, ok := b.Instrs[len(b.Instrs)-1].(*ssa.If)
			if !ok {
				continue
			}
			cond := iff.Cond
			neg := false
			for {
				if u, isNot := cond.(*ssa.UnOp); isNot && u.Op == token.NOT {
					cond, neg = u.X, !neg
					continue
				}
				break
			}
			// which successor is the "miss" side, and what identifies the cache
			var miss *ssa.BasicBlock
			cache := ""
			var isFill func(in ssa.Instruction) bool
			switch x := cond.(type) {
			case *ssa.BinOp:
				// `f == nil`, `f == 0`, or the sentinel form `f < 0`
				if x.Op != token.EQL && x.Op != token.NEQ && x.Op != token.LSS && x.Op != token.GEQ {
					continue
				}
				var loaded ssa.Value
				if c, isC := x.Y.(*ssa.Const); isC && (c.IsNil() || c.Value != nil && c.Value.ExactString() == "0") {
					loaded = x.X
				} else if c, isC := x.X.(*ssa.Const); isC && (c.IsNil() || c.Value != nil && c.Value.ExactString() == "0") {
					loaded = x.Y
				}
				if loaded == nil {
					continue
				}
				ld, isLoad := loaded.(*ssa.UnOp)
				if !isLoad || ld.Op != token.MUL {
					continue
				}
				fa, isFA := ld.X.(*ssa.FieldAddr)
				if !isFA {
					continue
				}
				tn, f := structFieldOf(fa)
				if tn == "" {
					continue
				}
				cache = tn + "." + f
				isNilSide := (x.Op == token.EQL || x.Op == token.LSS) != neg
				if isNilSide {
					miss = b.Succs[0]
				} else {
					miss = b.Succs[1]
				}
				isFill = func(in ssa.Instruction) bool {
					st, ok := in.(*ssa.Store)
					if !ok {
						return false
					}
					fa2, ok := st.Addr.(*ssa.FieldAddr)
					if !ok {
						return false
					}
					tn2, f2 := structFieldOf(fa2)
					return tn2 == tn && f2 == f
				}
			case *ssa.Extract:
				lk, isLk := x.Tuple.(*ssa.Lookup)
				if !isLk || x.Index != 1 {
					continue
				}
				if _, isMap := lk.X.Type().Underlying().(*types.Map); !isMap {
					continue
				}
				// identity of the cache: the map's type and the fields it is reached through — not the function or the
				// parameter position, so moving the site into a helper keeps the identity
				var flds []string
				for _, t := range strings.Fields(strings.Trim(core.OriginLeaves(lk.X), "{}")) {
					if strings.HasPrefix(t, ".") {
						flds = append(flds, t)
					}
				}
				cache = "map " + types.TypeString(lk.X.Type(), func(p *types.Package) string { return p.Name() }) + " {" + strings.Join(flds, " ") + "}"
				if neg {
					miss = b.Succs[0]
				} else {
					miss = b.Succs[1]
				}
				m := lk.X
				isFill = func(in ssa.Instruction) bool {
					mu, ok := in.(*ssa.MapUpdate)
					return ok && (mu.Map == m || core.OriginLeaves(mu.Map) == core.OriginLeaves(m))
				}
			default:
				continue
			}
			if miss == nil || miss == b {
				continue
			}
			filled, metered := false, false
			for _, rb := range fn.Blocks {
				if !miss.Dominates(rb) {
					continue
				}
				for _, in := range rb.Instrs {
					if isFill(in) {
						filled = true
					}
					if liveGaugeCall(in) {
						metered = true
					}
				}
			}
			if filled && metered {
				_ = top
				got[cache]++
			}
		}
	}
	if genMode() {
		genJSON(r, "c31_lazy_metered", got)
		return
	}
	var base map[string]int
	if !r.Table("c31_lazy_metered", &base) {
		return
	}
	for _, k := range sortedKeys(got) {
		if got[k] <= base[k] {
			r.OK(rule, k, 0, "lazily filled cache of the reviewed tree (per-execution object; recorded)")
		} else {
			r.Bad(rule, k, 0, "a value is now cached under a not-yet-cached test and its computation receives a live gauge: the fill is metered only the first time, so a program run again in the same process / environment reports fewer usages")
		}
	}
	r.OK(rule, "module-wide scan", 0, itoa(len(got))+" lazily filled caches with a metered fill")
	r.Floor(rule, 1)
}

// c31CacheOrigin: R4 — the reviewed lazily filled map caches (tables/c31_lazy_metered.json, entries "map T {.field}")
// are harmless because the object holding them lives for one execution. The map assigned to such a field must therefore
// be created for that object (make / literal / nil, filled later), never taken from a field of another — longer-lived —
// object (a config, an environment): a cache shared between executions makes the metered fill happen only once.
func c31CacheOrigin(r *core.Run) {
	const rule = "R4.cacheorigin"
	w := r.W
	var base map[string]int
	if !r.Table("c31_lazy_metered", &base) {
		return
	}
	fields := map[string]bool{}
	for k := range base {
		if i := strings.Index(k, "{."); strings.HasPrefix(k, "map ") && i > 0 {
			for _, f := range strings.Fields(strings.Trim(k[i:], "{}")) {
				fields[strings.TrimPrefix(f, ".")] = true
			}
		}
	}
	reviewed := map[string]string{}
	if !r.Table("c31_cache_origin_reviewed", &reviewed) {
		return
	}
	n := 0
	for _, fn := range w.SrcFuncs() {
		if fn.Parent() != nil || fn.Pkg == nil || !w.InScope(fn.Pkg.Pkg.Path()) {
			continue
		}
		core.Instrs(fn, true, func(in ssa.Instruction) {
			st, ok := in.(*ssa.Store)
			if !ok {
				return
			}
			fa, ok := st.Addr.(*ssa.FieldAddr)
			if !ok {
				return
			}
			tn, f := structFieldOf(fa)
			if tn == "" || !fields[f] {
				return
			}
			if why, ok := reviewed[core.SSAKey(fn)+": "+tn+"."+f]; ok {
				n++
				r.OK(rule, core.SSAKey(fn)+": "+tn+"."+f, st.Pos(), "reviewed: "+why)
				return
			}
			if _, isMap := st.Val.Type().Underlying().(*types.Map); !isMap {
				return
			}
			n++
			leaves := core.OriginLeaves(st.Val)
			shared := false
			for _, t := range strings.Fields(strings.Trim(leaves, "{}")) {
				if strings.HasPrefix(t, ".") || strings.HasPrefix(t, "global:") {
					shared = true
				}
			}
			r.Check(!shared, rule, core.SSAKey(fn)+": "+tn+"."+f, st.Pos(), "the cache map is created for this object "+leaves,
				"a reviewed per-execution cache is initialised from another object's field / a global "+leaves+": the cache outlives the execution, so its metered fill happens only the first time")
		})
	}
	r.Check(n >= 3, rule, "initialisations of the reviewed map caches", 0, itoa(n)+" found", "fewer cache initialisations than reviewed")
	r.Floor(rule, 3)
}
