package rules

import (
	"encoding/json"
	"go/ast"
	"go/types"
	"os"
	"sort"
	"strings"

	"golang.org/x/tools/go/ssa"

	"cadcheck/core"
)

func init() { register("C44", c44) }

var c44Groups = []pinGroup{
	{Rel: "values", TypeName: "CBORTag", Why: "CBOR tag numbers identify stored values and static types in account storage"},
	{Rel: "values", Prefixes: []string{"CBORTagBase"}, Why: "base of the stored-value tag range"},
	{Rel: "interpreter", TypeName: "PrimitiveStaticType", Why: "primitive static types are stored by number"},
	{Rel: "interpreter", TypeName: "HashInputType", Why: "hash input type flags determine stored dictionary layout"},
	{Rel: "interpreter", Prefixes: []string{"encoded"}, Why: "field indexes and lengths of the encoded value structs in storage"},
	{Rel: "common", TypeName: "PathDomain", Why: "path domains are stored by number"},
	{Rel: "common", TypeName: "CompositeKind", Why: "composite kinds are stored by number"},
	{Rel: "common", TypeName: "StorageDomain", Why: "storage domains key account storage maps"},
	{Rel: "sema", TypeName: "EntitlementSetKind", Why: "the kind of an entitlement-set authorization is stored by number"},
}

func c44(r *core.Run) {
	r.Explanation = "Decided clauses: (R1) every numeric constant that is written into account storage — values.CBORTag*, interpreter.PrimitiveStaticType*, HashInputType*, the encoded* field-index/length constants of interpreter/encode.go, " +
		"common.PathDomain*, CompositeKind*, StorageDomain* — still exists and has the value pinned from the reviewed tree (additions at fresh values are allowed, renumbering/removal/reuse is not); " +
		"(R2) every CBOR tag the storable encoder emits is accepted by a case of the decoder that constructs the same value kind. (R3) the sequence of CBOR primitives each storable Encode method emits equals the pinned one; (R5) no error of an inner step of interpreter/encode.go and decode.go is dropped or swallowed beyond the pinned baseline; " +
		"(R6) every enumeration whose numeric value the storable encoder writes is one of the pinned groups of R1 (sema.EntitlementSetKind included); " +
		"(R7) no type assertion of the decoder narrows a decoded value below the interface type of the slot it is stored in (the encoder writes every implementation of that slot)."
	r.NotDecided = "round-trip equality on values; atree's own slab encoding (external)."
	pinRule(r, "R1.pinned", "c44_pinned", c44Groups)
	r.Floor("R1.pinned", 230)
	c44TagSymmetry(r)
	c44EncodingShape(r)
	// shared ERR rule restricted to this codec: a failure of an inner encode/decode step must not be dropped
	errDiscipline(r, "R5.errdrop", "storage codec functions (interpreter/encode.go, decode.go)", func(fn *ssa.Function) bool {
		if fn.Pkg == nil || fn.Pkg.Pkg.Path() != mod+"/interpreter" {
			return false
		}
		f := r.W.File(fn.Pos())
		return f == "interpreter/encode.go" || f == "interpreter/decode.go"
	}, 60)
	c44StoredEnums(r)
	c44AssertWidth(r)
}

// c44StoredEnums: R6 — every enumeration (named integer type of the module with declared constants) whose numeric
// value the storable encoder writes must be one of the pinned groups of R1: otherwise renumbering it (inserting a
// constant, reordering) silently changes the meaning of stored bytes.
func c44StoredEnums(r *core.Run) {
	w := r.W
	rule := "R6.storedenums"
	pinned := map[string]bool{}
	for _, g := range c44Groups {
		if g.TypeName != "" {
			pinned[mod+"/"+g.Rel+"."+g.TypeName] = true
		}
	}
	nConsts := func(nt *types.Named) int {
		n := 0
		sc := nt.Obj().Pkg().Scope()
		for _, name := range sc.Names() {
			if c, ok := sc.Lookup(name).(*types.Const); ok && types.Identical(c.Type(), nt) {
				n++
			}
		}
		return n
	}
	seen := map[string]bool{}
	for _, fn := range w.SrcFuncsIn("interpreter") {
		if fn.Parent() != nil || w.File(fn.Pos()) != "interpreter/encode.go" {
			continue
		}
		core.Instrs(fn, true, func(in ssa.Instruction) {
			cv, ok := in.(*ssa.Convert)
			if !ok {
				return
			}
			nt, ok := cv.X.Type().(*types.Named)
			if !ok || nt.Obj().Pkg() == nil || !core.InMod(nt.Obj().Pkg().Path()) {
				return
			}
			b, ok := nt.Underlying().(*types.Basic)
			if !ok || b.Info()&types.IsInteger == 0 {
				return
			}
			// the converted number must reach a CBOR encode call
			reaches := false
			if refs := cv.Referrers(); refs != nil {
				for _, ref := range *refs {
					if c, ok := ref.(ssa.CallInstruction); ok {
						if o := core.Callee(c); o != nil && strings.HasPrefix(o.Name(), "Encode") {
							reaches = true
						}
					}
				}
			}
			if !reaches || nConsts(nt) < 2 {
				return
			}
			k := nt.Obj().Pkg().Path() + "." + nt.Obj().Name()
			if seen[k] {
				return
			}
			seen[k] = true
			r.Check(pinned[k], rule, strings.TrimPrefix(k, mod+"/")+": stored by number", cv.Pos(), "its constants are pinned by R1",
				"the storable encoder writes the numeric value of this enumeration, but its constants are not pinned: renumbering it would silently change the meaning of stored bytes")
		})
	}
	r.Floor(rule, 2)
}

// c44EncodingShape: R3 — the sequence of CBOR primitives (and raw head bytes) each storable Encode method emits is the
// stored format; it must equal the sequence pinned from the reviewed tree (tables/c44_encodings.json).
func c44EncodingShape(r *core.Run) {
	w := r.W
	p := w.Pkg("interpreter")
	info := p.TypesInfo
	gen := os.Getenv("CADCHECK_GEN_TABLES") != ""
	var pinned map[string]string
	if !gen && !r.Table("c44_encodings", &pinned) {
		return
	}
	out := map[string]string{}
	for _, fd := range w.FuncDeclsIn("interpreter") {
		if fd.Recv == nil || fd.Name.Name != "Encode" {
			continue
		}
		key := core.DeclKey(p, fd)
		var seq []string
		ast.Inspect(fd.Body, func(n ast.Node) bool {
			call, ok := n.(*ast.CallExpr)
			if !ok {
				return true
			}
			sel, ok := call.Fun.(*ast.SelectorExpr)
			if !ok {
				return true
			}
			f, ok := info.Uses[sel.Sel].(*types.Func)
			if !ok || f.Pkg() == nil {
				return true
			}
			pp := f.Pkg().Path()
			if !(strings.Contains(pp, "fxamacker/cbor") || pp == atreePath || (pp == mod+"/interpreter" && (strings.HasPrefix(f.Name(), "Encode") || strings.HasPrefix(f.Name(), "encode")))) {
				return true
			}
			item := f.Name()
			if f.Name() == "EncodeRawBytes" && len(call.Args) == 1 {
				if cl, ok := call.Args[0].(*ast.CompositeLit); ok {
					var bs []string
					for _, e := range cl.Elts {
						if tv, ok := info.Types[e]; ok && tv.Value != nil {
							// constants: print tag constants by name, literals by value
							name := ""
							ast.Inspect(e, func(m ast.Node) bool {
								if id, ok := m.(*ast.Ident); ok {
									if c, ok := info.Uses[id].(*types.Const); ok && c.Pkg() != nil {
										name = c.Name()
									}
								}
								return true
							})
							if name != "" {
								bs = append(bs, name)
							} else {
								bs = append(bs, tv.Value.ExactString())
							}
						} else {
							bs = append(bs, "?")
						}
					}
					item += "[" + strings.Join(bs, " ") + "]"
				}
			}
			seq = append(seq, item)
			return true
		})
		if len(seq) == 0 {
			continue
		}
		sum := strings.Join(seq, "; ")
		out[key] = sum
		if gen {
			continue
		}
		exp, ok := pinned[key]
		switch {
		case !ok:
			r.OK("R3.encshape", key, fd.Pos(), "new storable encoder (no pinned format yet): "+core.Short(sum))
		case exp == sum:
			r.OK("R3.encshape", key, fd.Pos(), "emits the pinned primitive sequence: "+core.Short(sum))
		default:
			r.Bad("R3.encshape", key, fd.Pos(), "stored format changed: pinned ["+exp+"], now ["+sum+"] — values written by earlier versions would no longer decode to the same value")
		}
	}
	if gen {
		b, _ := json.MarshalIndent(out, "", " ")
		_ = os.WriteFile(r.VerifDir+"/tables/c44_encodings.json", b, 0o644)
		return
	}
	for k := range pinned {
		if _, ok := out[k]; !ok {
			r.Bad("R3.encshape", k, 0, "pinned storable encoder no longer exists (or emits nothing)")
		}
	}
	r.Floor("R3.encshape", 50)
}

// tagConstsIn returns the values.CBORTag* constants referenced inside node.
func tagConstsIn(node ast.Node, info *types.Info) []string {
	set := map[string]bool{}
	ast.Inspect(node, func(n ast.Node) bool {
		if id, ok := n.(*ast.Ident); ok {
			if c, ok := info.Uses[id].(*types.Const); ok && c.Pkg() != nil && c.Pkg().Path() == mod+"/values" && strings.HasPrefix(c.Name(), "CBORTag") && c.Name() != "CBORTagBase" {
				set[c.Name()] = true
			}
		}
		return true
	})
	out := make([]string, 0, len(set))
	for k := range set {
		out = append(out, k)
	}
	sort.Strings(out)
	return out
}

// c44TagSymmetry: R2 — every CBOR tag written by an Encode method of interpreter has a decoder arm that yields the same type.
func c44TagSymmetry(r *core.Run) {
	w := r.W
	p := w.Pkg("interpreter")
	info := p.TypesInfo
	// decoder arms: tag -> type names produced
	dec := map[string]map[string]bool{}
	decFns := 0
	for _, fd := range w.FuncDeclsIn("interpreter") {
		key := core.DeclKey(p, fd)
		if w.File(fd.Pos()) != "interpreter/decode.go" {
			continue
		}
		_ = key
		ast.Inspect(fd.Body, func(n ast.Node) bool {
			cc, ok := n.(*ast.CaseClause)
			if !ok {
				return true
			}
			var tags []string
			for _, e := range cc.List {
				tags = append(tags, tagConstsIn(e, info)...)
			}
			if len(tags) == 0 {
				return true
			}
			decFns++
			produced := map[string]bool{}
			for _, st := range cc.Body {
				ast.Inspect(st, func(m ast.Node) bool {
					switch x := m.(type) {
					case *ast.CallExpr:
						if tv, ok := info.Types[x]; ok {
							t := tv.Type
							if tup, ok := t.(*types.Tuple); ok && tup.Len() > 0 {
								t = tup.At(0).Type()
							}
							if _, n := core.TypeName(t); n != "" {
								produced[n] = true
							}
							if _, isIface := t.Underlying().(*types.Interface); isIface {
								// interface result: take the concrete types the callee returns
								var callee *types.Func
								switch f := x.Fun.(type) {
								case *ast.SelectorExpr:
									callee, _ = info.Uses[f.Sel].(*types.Func)
								case *ast.Ident:
									callee, _ = info.Uses[f].(*types.Func)
								}
								for n := range concreteReturns(w, callee, 2) {
									produced[n] = true
								}
							}
						}
					case *ast.Ident:
						if v, ok := info.Uses[x].(*types.Var); ok && v.Pkg() != nil && v.Parent() == v.Pkg().Scope() {
							if _, n := core.TypeName(v.Type()); n != "" {
								produced[n] = true
							}
							if _, isIface := v.Type().Underlying().(*types.Interface); isIface && v.Pkg() == p.Types {
								if ie := pkgVarInit(p, v.Name()); ie != nil {
									if _, n := core.ExprTypeName(ie, info); n != "" {
										produced[n] = true
									}
								}
							}
						}
					case *ast.CompositeLit:
						if _, n := core.ExprTypeName(x, info); n != "" {
							produced[n] = true
						}
					}
					return true
				})
			}
			for _, t := range tags {
				if dec[t] == nil {
					dec[t] = map[string]bool{}
				}
				for k := range produced {
					dec[t][k] = true
				}
			}
			return true
		})
	}
	// encoders
	for _, fd := range w.FuncDeclsIn("interpreter") {
		if fd.Recv == nil || (fd.Name.Name != "Encode" && fd.Name.Name != "encode") {
			continue
		}
		key := core.DeclKey(p, fd)
		_, recv := core.ExprTypeName(fd.Recv.List[0].Type, info)
		tags := tagConstsIn(fd.Body, info)
		for _, tag := range tags {
			ckey := key + " writes " + tag
			arm, ok := dec[tag]
			if !ok {
				r.Bad("R2.tagsym", ckey, fd.Pos(), "no decoder case accepts the tag "+tag+" written by this encoder")
				continue
			}
			if arm[recv] {
				r.OK("R2.tagsym", ckey, fd.Pos(), "decoder arm for "+tag+" produces "+recv)
			} else {
				r.Bad("R2.tagsym", ckey, fd.Pos(), "decoder arm for "+tag+" produces {"+strings.Join(sortedKeys(arm), ",")+"}, not "+recv)
			}
		}
	}
	r.Floor("R2.tagsym", 40)
}

// concreteReturns collects the concrete named types of the first result in the return statements of f
// (following calls to module functions with interface results up to depth).
func concreteReturns(w *core.World, f *types.Func, depth int) map[string]bool {
	out := map[string]bool{}
	if f == nil || depth < 0 {
		return out
	}
	fd, pkg := w.Decl(f)
	if fd == nil || fd.Body == nil {
		return out
	}
	info := pkg.TypesInfo
	ast.Inspect(fd.Body, func(n ast.Node) bool {
		if _, isLit := n.(*ast.FuncLit); isLit {
			return false
		}
		ret, ok := n.(*ast.ReturnStmt)
		if !ok || len(ret.Results) == 0 {
			return true
		}
		e := ret.Results[0]
		tv, ok := info.Types[e]
		if !ok {
			return true
		}
		t := tv.Type
		if tup, ok := t.(*types.Tuple); ok && tup.Len() > 0 {
			t = tup.At(0).Type()
		}
		if _, isIface := t.Underlying().(*types.Interface); !isIface {
			if _, n := core.TypeName(t); n != "" {
				out[n] = true
			}
			return true
		}
		if call, ok := e.(*ast.CallExpr); ok {
			var callee *types.Func
			switch fx := call.Fun.(type) {
			case *ast.SelectorExpr:
				callee, _ = info.Uses[fx.Sel].(*types.Func)
			case *ast.Ident:
				callee, _ = info.Uses[fx].(*types.Func)
			}
			for n := range concreteReturns(w, callee, depth-1) {
				out[n] = true
			}
		}
		return true
	})
	return out
}


// c44AssertWidth: R7 — the decoder must accept every value the encoder can have written. Where the decoder narrows a
// decoded value by a type assertion and then puts it into a slot (struct field, constructor parameter) declared with
// a wider interface type, stored values of the other implementations of that interface (which the encoder writes
// through the same slot) no longer decode. Each such assertion must assert the slot's own type; reviewed exceptions
// are listed in tables/c44_narrow_asserts.
func c44AssertWidth(r *core.Run) {
	w := r.W
	rule := "R7.assertwidth"
	reviewed := map[string]string{}
	if !r.Table("c44_narrow_asserts", &reviewed) {
		return
	}
	used := map[string]bool{}
	n, total := 0, 0
	qual := func(p *types.Package) string { return p.Name() }
	for _, fn := range w.SrcFuncsIn("interpreter") {
		if fn.Parent() != nil || w.File(fn.Pos()) != "interpreter/decode.go" {
			continue
		}
		core.Instrs(fn, true, func(in ssa.Instruction) {
			ta, ok := in.(*ssa.TypeAssert)
			if !ok {
				return
			}
			var val ssa.Value = ta
			if ta.CommaOk {
				val = nil
				if refs := ta.Referrers(); refs != nil {
					for _, ref := range *refs {
						if ex, ok := ref.(*ssa.Extract); ok && ex.Index == 0 {
							val = ex
						}
					}
				}
			}
			if val == nil || val.Referrers() == nil {
				return
			}
			total++
			// slots the asserted value is converted into
			for _, ref := range *val.Referrers() {
				var slot types.Type
				switch x := ref.(type) {
				case *ssa.MakeInterface:
					slot = x.Type()
				case *ssa.ChangeInterface:
					slot = x.Type()
				default:
					continue
				}
				if _, isIface := slot.Underlying().(*types.Interface); !isIface {
					continue
				}
				if types.Identical(slot, ta.AssertedType) {
					continue
				}
				if ei, ok := slot.Underlying().(*types.Interface); ok && ei.NumMethods() == 0 {
					continue // any / error formatting arguments
				}
				n++
				key := core.SSAKey(fn) + ": " + types.TypeString(ta.AssertedType, qual) + " into " + types.TypeString(slot, qual)
				if why, ok := reviewed[key]; ok {
					used[key] = true
					r.OK(rule, key, ta.Pos(), "reviewed: "+why)
					continue
				}
				r.Bad(rule, key, ta.Pos(), "the decoder asserts a narrower type than the slot the value is stored in accepts: values of the slot's other implementations, which the encoder writes, no longer decode")
			}
		})
	}
	for k := range reviewed {
		if !used[k] {
			r.Bad(rule, "stale reviewed entry: "+k, 0, "tables/c44_narrow_asserts lists an assertion that no longer exists")
		}
	}
	r.Check(total >= 20, rule, "interpreter/decode.go scan", 0, itoa(total)+" type assertions on decoded values examined, "+itoa(n)+" narrowing into an interface slot", "fewer type assertions than reviewed: the decoder was not resolved")
	r.Floor(rule, 1)
}
