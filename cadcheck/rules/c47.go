package rules

import (
	"go/token"
	"go/types"
	"strings"

	"golang.org/x/tools/go/ssa"

	"cadcheck/core"
)

func init() { register("C47", c47) }

func c47(r *core.Run) {
	r.Explanation = "Decided clauses: (R1) no modulo bias by construction: getUint64RandomNumber and getBigRandomNumber contain no remainder/division/multiplication (native %, /, * or big.Int Mod/Rem/Div/Quo/Mul/Exp) — the random bytes reach the result only through big-endian loading, masking (AND) and comparison; " +
		"(R2) rejection sampling: a value is returned from the sampling loop only under `random <= max` (Cmp(max) <= 0), every iteration draws fresh bytes, and a zero modulo raises ZeroModuloError before any byte is drawn for it; " +
		"(R3) every arm of the type switches pairs sema.T with interpreter.TValue / NewTValue and the native width of the same type; (R4) the error of ReadRandom is turned into a panic on its non-nil edge; (R5) the truncation mask is built by a recognised covering construction (covering loop, complete smear, (1<<Len64(max))-1; big path: Lsh(one, BitLen) − one applied by And before the comparison)."
	r.NotDecided = "the uniformity of the distribution itself (given uniform source bytes); the byte count drawn per sample."
	w := r.W
	sp := w.Pkg("stdlib")
	forbiddenBig := map[string]bool{"Mod": true, "Rem": true, "Div": true, "Quo": true, "Mul": true, "Exp": true, "QuoRem": true, "DivMod": true, "ModInverse": true}
	for _, name := range []string{"getUint64RandomNumber", "getBigRandomNumber"} {
		fn := mustFn(r, "R1.nobias", "stdlib", "", name)
		if fn == nil {
			continue
		}
		bad := ""
		core.Instrs(fn, true, func(in ssa.Instruction) {
			switch x := in.(type) {
			case *ssa.BinOp:
				if x.Op == token.REM || x.Op == token.QUO || x.Op == token.MUL {
					bad = "native operator " + x.Op.String() + " at " + w.Pos(x.Pos())
				}
			case ssa.CallInstruction:
				if o := core.Callee(x); o != nil && o.Pkg() != nil && o.Pkg().Path() == "math/big" && forbiddenBig[o.Name()] {
					bad = "big.Int." + o.Name() + " at " + w.Pos(x.Pos())
				}
			}
		})
		r.Check(bad == "", "R1.nobias", "stdlib."+name+": no reduction arithmetic on the random value", fn.Pos(),
			"only load, mask, shift, subtract-one and compare", "uses "+bad+": reducing a random value by remainder/division/multiplication makes the result non-uniform (modulo bias)")

		// R2 rejection sampling
		draws := core.CallsTo(fn, false, funcOf(mod+"/stdlib", "getRandomBytes"))
		var loopDraw ssa.CallInstruction
		for _, d := range draws {
			if core.ReachableAfter(d, d) {
				loopDraw = d
			}
		}
		if loopDraw == nil {
			r.Bad("R2.rejection", "stdlib."+name+": sampling loop", fn.Pos(), "no random draw inside a loop: rejected candidates are not redrawn")
			continue
		}
		// returns reachable after the loop draw are controlled by a <= comparison (native LEQ or Cmp(...) <= 0)
		okRet := true
		nRet := 0
		for _, ret := range core.Returns(fn) {
			if !core.ReachableAfter(loopDraw, ret) {
				continue
			}
			nRet++
			found := false
			for _, a := range core.ControllingConds(ret) {
				bo, ok := a.Var.Call.(*ssa.BinOp)
				if !ok {
					continue
				}
				if (bo.Op == token.LEQ && a.Val) || (bo.Op == token.GTR && !a.Val) {
					found = true
				}
			}
			if !found {
				okRet = false
			}
		}
		r.Check(okRet && nRet > 0, "R2.rejection", "stdlib."+name+": accepted only if random <= max", posOf(loopDraw),
			"the return inside the sampling loop is controlled by a <= comparison", "a sampled value can be returned without the `random <= max` acceptance test")
		// zero modulo rejected before the loop draw
		zero := false
		for _, ps := range core.Panics(fn, false) {
			if g, ok := core.Unwrap(ps.Instr.X).(*ssa.UnOp); ok {
				if gv, ok := g.X.(*ssa.Global); ok && gv.Name() == "ZeroModuloError" {
					if !core.ReachableAfter(loopDraw, ps.Instr) {
						zero = true
					}
				}
			}
		}
		r.Check(zero, "R2.rejection", "stdlib."+name+": zero modulo rejected", fn.Pos(), "ZeroModuloError is raised before sampling", "a zero modulo is no longer rejected (the sampling loop would never terminate or divide by zero)")
	}
	r.Floor("R1.nobias", 2)
	r.Floor("R2.rejection", 4)

	// R3 row coherence of the type switches
	// every function of stdlib/random.go is examined, so a type switch moved into a helper is still found
	seen := 0
	for _, fd := range w.FuncDeclsIn("stdlib") {
		if w.File(fd.Pos()) != "stdlib/random.go" || fd.Body == nil {
			continue
		}
		name := fd.Name.Name
		seen += len(switchRows(r, "R3.rows", "stdlib."+name, fd, sp.TypesInfo, name != "RevertibleRandom"))
	}
	r.Floor("R3.rows", 20)

	// R4 ReadRandom error
	if fn := mustFn(r, "R4.readerr", "stdlib", "", "getRandomBytes"); fn != nil {
		for _, c := range callsIn(r, "R4.readerr", fn, "ReadRandom", func(o *types.Func) bool { return o != nil && o.Name() == "ReadRandom" }) {
			ok := false
			for _, e := range core.ErrResults(c) {
				for _, t := range core.NilTests(fn) {
					if t.X == e && core.Terminates(t.NonNilSucc) {
						ok = true
					}
				}
			}
			r.Check(ok, "R4.readerr", "stdlib.getRandomBytes: ReadRandom error", posOf(c), "non-nil error panics", "a failed random read is ignored: the buffer's previous content would be used as randomness")
		}
	}
	r.Floor("R4.readerr", 1)
	_ = strings.TrimSpace
	c47Mask(r)
}

// c47Mask: R5 — the truncation mask covers max exactly (an all-ones value of max's bit length), recognised by construction.
// 64-bit path: the value ANDed with the loaded random word must be built by one of the idioms for which the property is a
// lemma: (a) the covering loop  mask := 0; for max&mask != max { mask = mask<<1 | 1 }  (exit ⇒ mask ⊇ max; first such k ⇒
// exact bit length; shape ⇒ all ones), (b) a complete bit smear of max (OR with its shifts by 1, 2, 4, 8, 16 and 32), or
// (c) (1 << bits.Len64(max)) − 1. Big path: mask = Lsh(one, max.BitLen()) followed by Sub(mask, one), and the sampled value is
// ANDed with that mask before it is compared with max. Any other construction is reported (it has to be reviewed).
func c47Mask(r *core.Run) {
	const rule = "R5.mask"
	isConst := func(v ssa.Value, want string) bool {
		c, ok := v.(*ssa.Const)
		return ok && c.Value != nil && c.Value.ExactString() == want
	}
	strip := func(v ssa.Value) ssa.Value {
		for {
			switch x := v.(type) {
			case *ssa.Convert:
				v = x.X
			case *ssa.ChangeType:
				v = x.X
			default:
				return v
			}
		}
	}
	if fn := mustFn(r, rule, "stdlib", "", "getUint64RandomNumber"); fn != nil {
		// the AND applied to the loaded random word
		var masks []ssa.Value
		var at []ssa.Instruction
		core.Instrs(fn, false, func(in ssa.Instruction) {
			bo, ok := in.(*ssa.BinOp)
			if !ok || bo.Op != token.AND {
				return
			}
			fromLoad := func(v ssa.Value) bool {
				return strings.Contains(core.OriginLeavesVia(v), "via:Uint64")
			}
			switch {
			case fromLoad(bo.X) && !fromLoad(bo.Y):
				masks, at = append(masks, bo.Y), append(at, in)
			case fromLoad(bo.Y) && !fromLoad(bo.X):
				masks, at = append(masks, bo.X), append(at, in)
			}
		})
		if len(masks) == 0 {
			r.Bad(rule, "stdlib.getUint64RandomNumber: truncation of the random word", fn.Pos(), "the loaded random word is no longer truncated by a mask before the comparison with max: values above max dominate and the loop may not terminate quickly, or bits are dropped another way")
		}
		for i, m := range masks {
			m = strip(m)
			how := ""
			// (a) covering loop
			if phi, ok := m.(*ssa.Phi); ok && len(phi.Edges) == 2 {
				var init, step ssa.Value
				for _, e := range phi.Edges {
					if isConst(strip(e), "0") {
						init = e
					} else {
						step = strip(e)
					}
				}
				if init != nil && step != nil {
					if or, ok := step.(*ssa.BinOp); ok && or.Op == token.OR {
						shl, c := strip(or.X), or.Y
						if isConst(strip(or.X), "1") {
							shl, c = strip(or.Y), or.X
						}
						if sb, ok := shl.(*ssa.BinOp); ok && sb.Op == token.SHL && strip(sb.X) == ssa.Value(phi) && isConst(strip(sb.Y), "1") && isConst(strip(c), "1") {
							// exit condition: (max & mask) != max controls the loop body
							exit := false
							for _, b := range fn.Blocks {
								if len(b.Instrs) == 0 {
									continue
								}
								iff, ok := b.Instrs[len(b.Instrs)-1].(*ssa.If)
								if !ok {
									continue
								}
								cmp, ok := iff.Cond.(*ssa.BinOp)
								if !ok || (cmp.Op != token.NEQ && cmp.Op != token.EQL) {
									continue
								}
								and, ok := strip(cmp.X).(*ssa.BinOp)
								other := strip(cmp.Y)
								if !ok || and.Op != token.AND {
									and, ok = strip(cmp.Y).(*ssa.BinOp)
									other = strip(cmp.X)
								}
								if !ok || and.Op != token.AND {
									continue
								}
								ax, ay := strip(and.X), strip(and.Y)
								if (ax == ssa.Value(phi) && ay == other) || (ay == ssa.Value(phi) && ax == other) {
									exit = true
								}
							}
							if exit {
								how = "covering loop: mask := 0; for max&mask != max { mask = mask<<1 | 1 }"
							}
						}
					}
				}
			}
			// (b) complete smear / (c) (1 << Len64(max)) - 1
			if how == "" {
				shifts := map[string]bool{}
				var walk func(v ssa.Value, d int)
				walk = func(v ssa.Value, d int) {
					v = strip(v)
					bo, ok := v.(*ssa.BinOp)
					if !ok || d > 16 {
						return
					}
					switch bo.Op {
					case token.OR:
						walk(bo.X, d+1)
						walk(bo.Y, d+1)
					case token.SHR:
						if c, ok := strip(bo.Y).(*ssa.Const); ok && c.Value != nil {
							shifts[c.Value.ExactString()] = true
						}
						walk(bo.X, d+1)
					}
				}
				walk(m, 0)
				complete := true
				for _, s := range []string{"1", "2", "4", "8", "16", "32"} {
					if !shifts[s] {
						complete = false
					}
				}
				if complete {
					how = "complete bit smear of max (shifts 1, 2, 4, 8, 16, 32)"
				}
				if sub, ok := m.(*ssa.BinOp); ok && sub.Op == token.SUB && isConst(strip(sub.Y), "1") {
					if shl, ok := strip(sub.X).(*ssa.BinOp); ok && shl.Op == token.SHL && isConst(strip(shl.X), "1") && strings.Contains(core.OriginLeavesVia(shl.Y), "via:Len64") {
						how = "(1 << bits.Len64(max)) - 1"
					}
				}
			}
			r.Check(how != "", rule, "stdlib.getUint64RandomNumber: truncation mask #"+itoa(i+1), at[i].Pos(), "the mask is built by "+how,
				"the mask applied to the random word is not built by a recognised covering construction (covering loop, complete smear, or (1<<Len64(max))-1): if it has holes or the wrong length some values below the modulo can never be returned, or the draw is biased")
		}
	}
	if fn := mustFn(r, rule, "stdlib", "", "getBigRandomNumber"); fn != nil {
		named := func(n string) func(*types.Func) bool {
			return func(o *types.Func) bool {
				return o != nil && o.Name() == n && o.Pkg() != nil && o.Pkg().Path() == "math/big"
			}
		}
		ands := core.CallsTo(fn, false, named("And"))
		cmps := core.CallsTo(fn, false, named("Cmp"))
		ok, why := false, "the sampled big integer is no longer ANDed with the covering mask before it is compared with max"
		for _, a := range ands {
			args := a.Common().Args
			if len(args) != 3 {
				continue
			}
			mask := args[2]
			lv := core.OriginLeavesVia(mask)
			if !strings.Contains(lv, "via:Lsh") || !strings.Contains(lv, "via:BitLen") {
				why = "the mask of the big path is not Lsh(one, max.BitLen())"
				continue
			}
			// mask.Sub(mask, one) before the And
			subbed := false
			for _, s := range core.CallsTo(fn, false, named("Sub")) {
				sa := s.Common().Args
				if len(sa) == 3 && core.Unwrap(sa[0]) == core.Unwrap(mask) && core.Unwrap(sa[1]) == core.Unwrap(mask) && core.Dominates(s, a) {
					subbed = true
				}
			}
			if !subbed {
				why = "the mask of the big path is not decremented to all ones (mask.Sub(mask, one)) before use"
				continue
			}
			for _, c := range cmps {
				if core.Dominates(a, c) && core.Unwrap(c.Common().Args[0]) == core.Unwrap(args[0]) {
					ok = true
				}
			}
		}
		r.Check(ok, rule, "stdlib.getBigRandomNumber: truncation mask", fn.Pos(), "random.And(random, Lsh(one, max.BitLen()) - one) precedes the comparison with max", why+": values are truncated by another construction (e.g. masking only the top byte), which drops or keeps the wrong bits for byte-aligned moduli")
	}
	r.Floor(rule, 2)
}
