package rules

import (
	"go/token"
	"go/types"
	"strings"

	"golang.org/x/tools/go/ssa"

	"cadcheck/core"
)

func init() { register("C47", c47) }

func c47(r *core.Run) {
	r.Explanation = "Decided clauses: (R1) no modulo bias by construction: getUint64RandomNumber and getBigRandomNumber contain no remainder/division/multiplication (native %, /, * or big.Int Mod/Rem/Div/Quo/Mul/Exp) — the random bytes reach the result only through big-endian loading, masking (AND) and comparison; " +
		"(R2) rejection sampling: a value is returned from the sampling loop only under `random <= max` (Cmp(max) <= 0), every iteration draws fresh bytes, and a zero modulo raises ZeroModuloError before any byte is drawn for it; " +
		"(R3) every arm of the type switches pairs sema.T with interpreter.TValue / NewTValue and the native width of the same type; (R4) the error of ReadRandom is turned into a panic on its non-nil edge."
	r.NotDecided = "that the mask covers max exactly (bit-length arithmetic) and the uniformity of the distribution itself."
	w := r.W
	sp := w.Pkg("stdlib")
	forbiddenBig := map[string]bool{"Mod": true, "Rem": true, "Div": true, "Quo": true, "Mul": true, "Exp": true, "QuoRem": true, "DivMod": true, "ModInverse": true}
	for _, name := range []string{"getUint64RandomNumber", "getBigRandomNumber"} {
		fn := mustFn(r, "R1.nobias", "stdlib", "", name)
		if fn == nil {
			continue
		}
		bad := ""
		core.Instrs(fn, true, func(in ssa.Instruction) {
			switch x := in.(type) {
			case *ssa.BinOp:
				if x.Op == token.REM || x.Op == token.QUO || x.Op == token.MUL {
					bad = "native operator " + x.Op.String() + " at " + w.Pos(x.Pos())
				}
			case ssa.CallInstruction:
				if o := core.Callee(x); o != nil && o.Pkg() != nil && o.Pkg().Path() == "math/big" && forbiddenBig[o.Name()] {
					bad = "big.Int." + o.Name() + " at " + w.Pos(x.Pos())
				}
			}
		})
		r.Check(bad == "", "R1.nobias", "stdlib."+name+": no reduction arithmetic on the random value", fn.Pos(),
			"only load, mask, shift, subtract-one and compare", "uses "+bad+": reducing a random value by remainder/division/multiplication makes the result non-uniform (modulo bias)")

		// R2 rejection sampling
		draws := core.CallsTo(fn, false, funcOf(mod+"/stdlib", "getRandomBytes"))
		var loopDraw ssa.CallInstruction
		for _, d := range draws {
			if core.ReachableAfter(d, d) {
				loopDraw = d
			}
		}
		if loopDraw == nil {
			r.Bad("R2.rejection", "stdlib."+name+": sampling loop", fn.Pos(), "no random draw inside a loop: rejected candidates are not redrawn")
			continue
		}
		// returns reachable after the loop draw are controlled by a <= comparison (native LEQ or Cmp(...) <= 0)
		okRet := true
		nRet := 0
		for _, ret := range core.Returns(fn) {
			if !core.ReachableAfter(loopDraw, ret) {
				continue
			}
			nRet++
			found := false
			for _, a := range core.ControllingConds(ret) {
				bo, ok := a.Var.Call.(*ssa.BinOp)
				if !ok {
					continue
				}
				if (bo.Op == token.LEQ && a.Val) || (bo.Op == token.GTR && !a.Val) {
					found = true
				}
			}
			if !found {
				okRet = false
			}
		}
		r.Check(okRet && nRet > 0, "R2.rejection", "stdlib."+name+": accepted only if random <= max", posOf(loopDraw),
			"the return inside the sampling loop is controlled by a <= comparison", "a sampled value can be returned without the `random <= max` acceptance test")
		// zero modulo rejected before the loop draw
		zero := false
		for _, ps := range core.Panics(fn, false) {
			if g, ok := core.Unwrap(ps.Instr.X).(*ssa.UnOp); ok {
				if gv, ok := g.X.(*ssa.Global); ok && gv.Name() == "ZeroModuloError" {
					if !core.ReachableAfter(loopDraw, ps.Instr) {
						zero = true
					}
				}
			}
		}
		r.Check(zero, "R2.rejection", "stdlib."+name+": zero modulo rejected", fn.Pos(), "ZeroModuloError is raised before sampling", "a zero modulo is no longer rejected (the sampling loop would never terminate or divide by zero)")
	}
	r.Floor("R1.nobias", 2)
	r.Floor("R2.rejection", 4)

	// R3 row coherence of the type switches
	seen := 0
	for _, name := range []string{"RevertibleRandom", "getUint64RandomNumber", "getBigRandomNumber"} {
		fd, _ := w.Decl(w.FuncObj("stdlib", "", name))
		if fd == nil {
			r.Undecided("R3.rows", "stdlib."+name, "does not resolve")
			continue
		}
		seen += len(switchRows(r, "R3.rows", "stdlib."+name, fd, sp.TypesInfo, name != "RevertibleRandom"))
	}
	r.Floor("R3.rows", 20)

	// R4 ReadRandom error
	if fn := mustFn(r, "R4.readerr", "stdlib", "", "getRandomBytes"); fn != nil {
		for _, c := range callsIn(r, "R4.readerr", fn, "ReadRandom", func(o *types.Func) bool { return o != nil && o.Name() == "ReadRandom" }) {
			ok := false
			for _, e := range core.ErrResults(c) {
				for _, t := range core.NilTests(fn) {
					if t.X == e && core.Terminates(t.NonNilSucc) {
						ok = true
					}
				}
			}
			r.Check(ok, "R4.readerr", "stdlib.getRandomBytes: ReadRandom error", posOf(c), "non-nil error panics", "a failed random read is ignored: the buffer's previous content would be used as randomness")
		}
	}
	r.Floor("R4.readerr", 1)
	_ = strings.TrimSpace
}
