package rules

import (
	"go/token"
	"go/types"
	"sort"
	"strings"

	"golang.org/x/tools/go/ssa"

	"cadcheck/core"
)

func init() { register("C51", c51) }

// fieldLoaded returns the name of the struct field v was loaded from (v = *(&x.f)), or "".
func fieldLoaded(v ssa.Value) string {
	u, ok := core.Unwrap(v).(*ssa.UnOp)
	if !ok || u.Op != token.MUL {
		return ""
	}
	fa, ok := u.X.(*ssa.FieldAddr)
	if !ok {
		return ""
	}
	_, f := structFieldOf(fa)
	return f
}

func c51(r *core.Run) {
	r.Explanation = "Decided clauses (narrow): the collections that keep two structures in step update them together — (R1) every method of bimap.BiMap performs as many insertions and as many deletions on `forward` as on `backward`; " +
		"(R2) every method of orderedmap.OrderedMap that inserts into / deletes from / clears the `pairs` index performs the matching operation on the ordered `list` (PushBack / Remove / Init) the same number of times; " +
		"(R3) interval tree: every function that re-links a node (stores to node.left / node.right) recomputes that node's subtree size and max endpoint (fix, or a rotation that fixes its receiver) before it returns; " +
		"(R4) the interval tree's search functions prune the left subtree under the same class of comparison; (R5) BiMap.Insert looks up the stale entries of both directions before it inserts."
	r.NotDecided = "model equivalence over operation sequences (lookups, iteration order, query results); the persistent set's parent chain; comparison logic such as max3 and Interval.Compare."
	w := r.W

	type counts struct{ ins, del, clr int }
	tally := func(fn *ssa.Function, field string) counts {
		var c counts
		core.Instrs(fn, true, func(in ssa.Instruction) {
			switch x := in.(type) {
			case *ssa.MapUpdate:
				if fieldLoaded(x.Map) == field {
					c.ins++
				}
			case ssa.CallInstruction:
				if b, ok := x.Common().Value.(*ssa.Builtin); ok && len(x.Common().Args) > 0 && fieldLoaded(x.Common().Args[0]) == field {
					switch b.Name() {
					case "delete":
						c.del++
					case "clear":
						c.clr++
					}
				}
			}
		})
		return c
	}
	methodsOf := func(rel, typ string) []*ssa.Function {
		var out []*ssa.Function
		for _, fn := range w.SrcFuncsIn(rel) {
			if fn.Parent() != nil || fn.Signature.Recv() == nil {
				continue
			}
			if _, tn := core.TypeName(fn.Signature.Recv().Type()); tn == typ {
				out = append(out, fn)
			}
		}
		return out
	}

	// R1 bimap
	n := 0
	for _, fn := range methodsOf("common/bimap", "BiMap") {
		f, b := tally(fn, "forward"), tally(fn, "backward")
		if f == (counts{}) && b == (counts{}) {
			continue
		}
		n++
		r.Check(f == b, "R1.bimap", core.SSAKey(fn)+": forward and backward updated together", fn.Pos(), "the same number of insertions and deletions on both directions",
			"the two directions of the bidirectional map are updated differently in this method (forward: "+itoa(f.ins)+" insert/"+itoa(f.del)+" delete, backward: "+itoa(b.ins)+" insert/"+itoa(b.del)+" delete): a stale inverse entry survives or an entry is missing in one direction")
	}
	if n == 0 {
		r.Undecided("R1.bimap", "common/bimap.BiMap", "no mutating method found")
	}
	r.Floor("R1.bimap", 3)

	// R2 ordered map
	n = 0
	for _, fn := range methodsOf("common/orderedmap", "OrderedMap") {
		idx := tally(fn, "pairs")
		var push, remove, init int
		core.Instrs(fn, true, func(in ssa.Instruction) {
			c, ok := in.(ssa.CallInstruction)
			if !ok {
				return
			}
			o := core.Callee(c)
			if o == nil || o.Pkg() == nil || !strings.HasSuffix(o.Pkg().Path(), "/list") {
				return
			}
			switch o.Name() {
			case "PushBack", "PushFront", "InsertBefore", "InsertAfter":
				push++
			case "Remove":
				remove++
			case "Init":
				init++
			}
		})
		if idx == (counts{}) && push+remove+init == 0 {
			continue
		}
		n++
		r.Check(idx.ins == push && idx.del == remove && idx.clr == init, "R2.orderedmap", core.SSAKey(fn)+": index and order list updated together", fn.Pos(),
			"index inserts = list insertions, index deletes = list removals, index clears = list resets",
			"the key index and the ordered list are updated differently in this method (index: "+itoa(idx.ins)+" insert/"+itoa(idx.del)+" delete/"+itoa(idx.clr)+" clear; list: "+itoa(push)+" push/"+itoa(remove)+" remove/"+itoa(init)+" init): lookups and iteration disagree afterwards")
	}
	r.Floor("R2.orderedmap", 3)

	// R3 interval tree augmentation
	fixesRecv := map[*ssa.Function]bool{}
	isNodeFn := func(fn *ssa.Function) bool {
		return fn.Pkg != nil && fn.Pkg.Pkg.Path() == mod+"/common/intervalst"
	}
	callOn := func(c ssa.CallInstruction) (callee *ssa.Function, recv ssa.Value) {
		sf := core.StaticFn(c)
		if sf == nil || len(c.Common().Args) == 0 || sf.Signature.Recv() == nil {
			return nil, nil
		}
		return sf, c.Common().Args[0]
	}
	// summaries: methods that call fix on their receiver on every path (fix itself, rotR, rotL)
	for round := 0; round < 2; round++ {
		for _, fn := range w.SrcFuncsIn("common/intervalst") {
			if fn.Parent() != nil || fn.Signature.Recv() == nil || len(fn.Params) == 0 {
				continue
			}
			if fn.Name() == "fix" {
				fixesRecv[fn] = true
				continue
			}
			recv := fn.Params[0]
			passes := func(in ssa.Instruction) bool {
				c, ok := in.(ssa.CallInstruction)
				if !ok {
					return false
				}
				sf, rv := callOn(c)
				return sf != nil && fixesRecv[originFn(sf)] && core.IsParamValue(rv, recv)
			}
			all := true
			for _, ret := range core.Returns(fn) {
				if !core.MustPass(ret, passes) {
					all = false
				}
			}
			if all && len(core.Returns(fn)) > 0 {
				fixesRecv[fn] = true
			}
		}
	}
	n = 0
	for _, fn := range w.SrcFuncsIn("common/intervalst") {
		if fn.Parent() != nil || !isNodeFn(fn) {
			continue
		}
		relinked := map[ssa.Value]token.Pos{}
		core.Instrs(fn, false, func(in ssa.Instruction) {
			st, ok := in.(*ssa.Store)
			if !ok {
				return
			}
			fa, ok := st.Addr.(*ssa.FieldAddr)
			if !ok {
				return
			}
			if tn, f := structFieldOf(fa); tn == "node" && (f == "left" || f == "right") {
				// newNode initialises a fresh literal
				if al, isAlloc := fa.X.(*ssa.Alloc); isAlloc && al.Comment == "complit" {
					return
				}
				relinked[fa.X] = in.Pos()
			}
		})
		for node, pos := range relinked {
			n++
			nd := node
			passes := func(in ssa.Instruction) bool {
				c, ok := in.(ssa.CallInstruction)
				if !ok {
					return false
				}
				sf, rv := callOn(c)
				return sf != nil && fixesRecv[originFn(sf)] && sameNode(rv, nd)
			}
			ok := true
			for _, ret := range core.Returns(fn) {
				// only returns that can follow the re-linking store
				if !core.MustPass(ret, passes) && reachesAfterStore(fn, nd, ret) {
					ok = false
				}
			}
			r.Check(ok, "R3.augment", core.SSAKey(fn)+": re-linked node "+core.OriginLeaves(nd)+" is fixed", pos, "subtree size and max endpoint recomputed (fix / rotation) before returning",
				"a node's children are re-linked without recomputing its subtree size and max endpoint on some path: searches prune by a stale max and miss intervals")
		}
	}
	r.Floor("R3.augment", 4)

	// R4 sibling searches prune alike: every test of a left subtree's max endpoint against the query
	// (x.left.max.Compare(q) op 0) in the interval tree's search functions belongs to one class — strict (`< 0` to skip,
	// `>= 0` to descend) or non-strict; intervals are closed, so a subtree whose max equals the query's lower end may still match
	classes := map[string][]string{}
	nprune := 0
	for _, fn := range w.SrcFuncsIn("common/intervalst") {
		core.Instrs(fn, true, func(in ssa.Instruction) {
			bo, ok := in.(*ssa.BinOp)
			if !ok {
				return
			}
			var call ssa.Value
			if c, isC := bo.Y.(*ssa.Const); isC && c.Value != nil && c.Value.ExactString() == "0" {
				call = bo.X
			} else {
				return
			}
			cc, ok := call.(*ssa.Call)
			if !ok {
				return
			}
			name := ""
			if cc.Call.IsInvoke() {
				name = cc.Call.Method.Name()
			} else if o := core.Callee(cc); o != nil {
				name = o.Name()
			}
			if name != "Compare" {
				return
			}
			var recv ssa.Value
			if cc.Call.IsInvoke() {
				recv = cc.Call.Value
			} else if len(cc.Call.Args) > 0 {
				recv = cc.Call.Args[0]
			}
			lv := core.OriginLeaves(recv)
			if !strings.Contains(lv, ".max") || !strings.Contains(lv, ".left") {
				return
			}
			class := ""
			switch bo.Op {
			case token.LSS, token.GEQ:
				class = "strict (< 0 skips, >= 0 descends)"
			case token.LEQ, token.GTR:
				class = "non-strict (<= 0 skips, > 0 descends)"
			default:
				class = "equality"
			}
			nprune++
			classes[class] = append(classes[class], core.SSAKey(fn))
		})
	}
	if nprune == 0 {
		r.Undecided("R4.prune", "common/intervalst", "no left-subtree pruning test found")
	} else {
		var desc []string
		for k, v := range classes {
			sort.Strings(v)
			desc = append(desc, k+": "+strings.Join(uniq(v), ","))
		}
		sort.Strings(desc)
		r.Check(len(classes) == 1, "R4.prune", "common/intervalst: left-subtree pruning tests agree", 0, itoa(nprune)+" tests, all "+desc[0],
			"the search functions prune the left subtree under different comparisons ("+strings.Join(desc, " | ")+"): one of them skips (or visits) a subtree whose max endpoint equals the query, so the siblings disagree on touching intervals")
	}
	r.Floor("R4.prune", 1)

	// R5 BiMap.Insert examines both stale entries before inserting: the lookups in `forward` (old value of the key) and in
	// `backward` (old key of the value) both dominate the insertions — if one lookup is skipped when the other hit, a stale
	// entry survives an insert that conflicts on both sides
	for _, fn := range methodsOf("common/bimap", "BiMap") {
		if fn.Name() != "Insert" {
			continue
		}
		var ups []ssa.Instruction
		look := map[string][]ssa.Instruction{}
		core.Instrs(fn, false, func(in ssa.Instruction) {
			switch x := in.(type) {
			case *ssa.MapUpdate:
				ups = append(ups, in)
			case *ssa.Lookup:
				if f := fieldLoaded(x.X); f != "" {
					look[f] = append(look[f], in)
				}
			}
		})
		ok := len(ups) > 0
		for _, f := range []string{"forward", "backward"} {
			for _, u := range ups {
				dom := false
				for _, l := range look[f] {
					if core.Dominates(l, u) {
						dom = true
					}
				}
				if !dom {
					ok = false
				}
			}
		}
		r.Check(ok, "R5.evict", core.SSAKey(fn)+": both stale entries are looked up before the insertion", fn.Pos(), "lookups in forward and backward dominate the insertions",
			"an insertion is reachable without having looked up the stale entry of the other direction (the two eviction tests were merged into if/else-if): an insert that conflicts on both the key and the value leaves a stale entry behind")
	}
	r.Floor("R5.evict", 1)
}

// originFn maps an instantiation of a generic function to its generic origin.
func originFn(f *ssa.Function) *ssa.Function {
	if o := f.Origin(); o != nil {
		return o
	}
	return f
}

func sameNode(a, b ssa.Value) bool {
	a, b = core.Unwrap(a), core.Unwrap(b)
	if a == b {
		return true
	}
	// both are loads of the same cell, or one is the parameter and the other a load of its spill cell
	if sameLoad(a, b) {
		return true
	}
	if p, ok := b.(*ssa.Parameter); ok && core.IsParamValue(a, p) {
		return true
	}
	if p, ok := a.(*ssa.Parameter); ok && core.IsParamValue(b, p) {
		return true
	}
	return false
}

// reachesAfterStore: ret can execute after a store re-linking node nd.
func reachesAfterStore(fn *ssa.Function, nd ssa.Value, ret *ssa.Return) bool {
	hit := false
	core.Instrs(fn, false, func(in ssa.Instruction) {
		st, ok := in.(*ssa.Store)
		if !ok || hit {
			return
		}
		fa, ok := st.Addr.(*ssa.FieldAddr)
		if !ok || fa.X != nd {
			return
		}
		if _, f := structFieldOf(fa); f == "left" || f == "right" {
			if core.ReachableAfter(in, ret) {
				hit = true
			}
		}
	})
	return hit
}

var _ = types.Typ
