package rules

import (
	"encoding/json"
	"fmt"
	"go/ast"
	"go/token"
	"go/types"
	"os"
	"sort"
	"strings"

	"golang.org/x/tools/go/ssa"

	"cadcheck/core"
)

const mod = core.Mod

// mustFn resolves a declared function; an unresolved anchor is an undecided obligation.
func mustFn(r *core.Run, rule, rel, recv, name string) *ssa.Function {
	f := r.W.Fn(rel, recv, name)
	if f == nil || len(f.Blocks) == 0 {
		k := rel + "." + name
		if recv != "" {
			k = rel + ".(" + recv + ")." + name
		}
		r.Undecided(rule, k, "anchor function does not resolve (renamed, moved to another package, or removed)")
		return nil
	}
	return f
}

func mustObj(r *core.Run, rule, rel, recv, name string) *types.Func {
	o := r.W.FuncObj(rel, recv, name)
	if o == nil {
		r.Undecided(rule, rel+"."+recv+"."+name, "anchor object does not resolve")
	}
	return o
}

// methodNamed matches methods by name whose receiver's named type is in one of the given
// "pkgpath.Type" strings (full package path).
func methodOf(name string, recvs ...string) func(*types.Func) bool {
	set := map[string]bool{}
	for _, x := range recvs {
		set[x] = true
	}
	return func(o *types.Func) bool {
		if o == nil || o.Name() != name || o.Pkg() == nil {
			return false
		}
		rn := core.RecvName(o)
		if rn == "" {
			return false
		}
		return set[o.Pkg().Path()+"."+rn]
	}
}

func funcOf(pkgPath, name string) func(*types.Func) bool {
	return core.NamedCallee(pkgPath, "", name)
}

func anyOf(ps ...func(*types.Func) bool) func(*types.Func) bool {
	return func(o *types.Func) bool {
		for _, p := range ps {
			if p(o) {
				return true
			}
		}
		return false
	}
}

// whoMayCall: every module function containing a call resolving to pred must be listed in allowed
// (key = core.SSAKey of the enclosing declared function, value = reason).
func whoMayCall(r *core.Run, rule, what string, pred func(*types.Func) bool, allowed map[string]string) int {
	callers := r.W.CallersOf(pred)
	keys := make([]string, 0, len(callers))
	for k := range callers {
		keys = append(keys, k)
	}
	sort.Strings(keys)
	for _, k := range keys {
		pos := callers[k][0]
		if why, ok := allowed[k]; ok {
			r.OK(rule, k+" -> "+what, pos, "reviewed caller: "+why)
		} else {
			r.Bad(rule, k+" -> "+what, pos, "caller of "+what+" is not in the reviewed list "+listKeys(allowed))
		}
	}
	return len(keys)
}

func listKeys(m map[string]string) string {
	ks := make([]string, 0, len(m))
	for k := range m {
		ks = append(ks, k)
	}
	sort.Strings(ks)
	return "[" + strings.Join(ks, ", ") + "]"
}

// census: the function fn must (still) reach a call resolving to pred within depth static calls.
func census(r *core.Run, rule string, fn *ssa.Function, what string, pred func(*types.Func) bool, depth int) bool {
	if fn == nil {
		return false
	}
	for o, d := range r.W.ReachFuncs(fn, depth) {
		if pred(o) {
			r.OK(rule, core.SSAKey(fn)+" -> "+what, fn.Pos(), fmt.Sprintf("call edge present at depth %d", d))
			return true
		}
	}
	r.Bad(rule, core.SSAKey(fn)+" -> "+what, fn.Pos(),
		fmt.Sprintf("the mechanism call %s confirmed on the pinned tree is no longer reachable from this function within %d static calls", what, depth))
	return false
}

// callsIn returns call sites in fn (closures included) resolving to pred; an empty result is undecided.
func callsIn(r *core.Run, rule string, fn *ssa.Function, what string, pred func(*types.Func) bool) []ssa.CallInstruction {
	if fn == nil {
		return nil
	}
	cs := core.CallsTo(fn, true, pred)
	if len(cs) == 0 {
		r.Undecided(rule, core.SSAKey(fn)+" -> "+what, "expected call site not found in function")
	}
	return cs
}

func posOf(in ssa.Instruction) token.Pos {
	if in == nil {
		return token.NoPos
	}
	if p := in.Pos(); p.IsValid() {
		return p
	}
	return in.Parent().Pos()
}

func calleeName(c ssa.CallInstruction) string {
	if o := core.Callee(c); o != nil {
		return core.FuncKey(o)
	}
	return c.Common().Value.String()
}

// reportGated turns a gated backward closure into obligations: with no root outside allowedRoots every closure
// member is discharged; otherwise the violation is reported at the frontier — the closure members that are not in
// the reviewed set but whose next hop towards the sink is (or is the sink itself).
func reportGated(r *core.Run, rule string, g core.GateResult, reviewed, allowedRoots map[string]string, what, gate string) {
	var badRoots []string
	for _, k := range core.SortedKeys(g.Roots) {
		if allowedRoots[k] == "" {
			badRoots = append(badRoots, k)
		}
	}
	if len(badRoots) == 0 {
		for _, k := range core.SortedKeys(g.Closure) {
			r.OK(rule, k, g.Closure[k], "reaches "+what+"; every caller chain passes "+gate+" (next hop: "+g.Path[k]+") "+allowedRoots[k])
		}
		return
	}
	n := 0
	for _, k := range core.SortedKeys(g.Closure) {
		if reviewed[k] != "" || allowedRoots[k] != "" {
			r.OK(rule, k, g.Closure[k], "reviewed member of the "+what+" path: "+reviewed[k]+allowedRoots[k])
			continue
		}
		next := g.Path[k]
		if next == "sink" || reviewed[next] != "" {
			n++
			r.Bad(rule, k+" reaches "+what+" outside "+gate, g.Closure[k],
				fmt.Sprintf("function calls %s (towards %s) and is reachable from %d entry point(s) without passing %s, e.g. %s", next, what, len(badRoots), gate, badRoots[0]))
		}
	}
	if n == 0 {
		r.Bad(rule, badRoots[0]+" reaches "+what+" outside "+gate, g.Roots[badRoots[0]], "entry point reaches "+what+" without passing "+gate)
	}
}

func firstOf(ps []token.Pos) token.Pos {
	if len(ps) == 0 {
		return token.NoPos
	}
	return ps[0]
}

func itoa(n int) string { return fmt.Sprintf("%d", n) }

// genCounts writes a key -> count table in table-generation mode.
func genCounts(r *core.Run, name string, got map[string]int) {
	if os.Getenv("CADCHECK_GEN_TABLES") == "" {
		return
	}
	b, _ := json.MarshalIndent(got, "", " ")
	_ = os.WriteFile(r.VerifDir+"/tables/"+name+".json", b, 0o644)
}

// literalOwners: composite literals (and new(T)) of the named struct type inside function bodies may occur only in
// the allowed constructor functions.
func literalOwners(r *core.Run, rule, rel, typeName string, allowed map[string]string) int {
	w := r.W
	n := 0
	for path, p := range w.ByPath {
		if !core.InMod(path) || !w.InScope(path) {
			continue
		}
		for _, f := range p.Syntax {
			for _, d := range f.Decls {
				fd, ok := d.(*ast.FuncDecl)
				if !ok || fd.Body == nil {
					continue
				}
				key := core.DeclKey(p, fd)
				ast.Inspect(fd.Body, func(nd ast.Node) bool {
					cl, ok := nd.(*ast.CompositeLit)
					if !ok {
						return true
					}
					tp, tn := core.ExprTypeName(cl, p.TypesInfo)
					if tn != typeName || tp != mod+"/"+rel {
						return true
					}
					n++
					if why, ok := allowed[key]; ok {
						r.OK(rule, key+": "+typeName+"{…}", cl.Pos(), "reviewed constructor: "+why)
					} else {
						r.Bad(rule, key+": "+typeName+"{…}", cl.Pos(), typeName+" is constructed by a literal outside its constructors "+listKeys(allowed)+": the constructor's obligations (normalisation, tracking, metering) are bypassed")
					}
					return true
				})
			}
		}
	}
	return n
}

func genMode() bool { return os.Getenv("CADCHECK_GEN_TABLES") != "" }

func genJSON(r *core.Run, name string, v any) {
	b, _ := json.MarshalIndent(v, "", " ")
	_ = os.WriteFile(r.VerifDir+"/tables/"+name+".json", b, 0o644)
}

// switchTable extracts case-label -> result pairs from the switch statements of fd: each case expression that
// resolves to a package-level object is a label; the result is the package-level object named by the clause's
// `return X` / `v = X` (last statement). Labels and results are rendered as "pkg.Name".
func switchTable(fd *ast.FuncDecl, info *types.Info) map[string]string {
	out := map[string]string{}
	objName := func(e ast.Expr) string {
		var id *ast.Ident
		switch x := e.(type) {
		case *ast.Ident:
			id = x
		case *ast.SelectorExpr:
			id = x.Sel
		case *ast.CallExpr:
			return ""
		}
		if id == nil {
			return ""
		}
		obj := info.Uses[id]
		if obj == nil || obj.Pkg() == nil || obj.Parent() != obj.Pkg().Scope() {
			return ""
		}
		return core.RelPkg(obj.Pkg().Path()) + "." + obj.Name()
	}
	ast.Inspect(fd, func(n ast.Node) bool {
		cc, ok := n.(*ast.CaseClause)
		if !ok || len(cc.List) == 0 || len(cc.Body) == 0 {
			return true
		}
		var res string
		switch st := cc.Body[len(cc.Body)-1].(type) {
		case *ast.ReturnStmt:
			if len(st.Results) >= 1 {
				res = objName(st.Results[0])
			}
		case *ast.AssignStmt:
			if len(st.Rhs) == 1 {
				res = objName(st.Rhs[0])
			}
		}
		if res == "" {
			return true
		}
		for _, e := range cc.List {
			if l := objName(e); l != "" {
				out[l] = res
			}
		}
		return true
	})
	return out
}

// inverseTables checks that two extracted tables are mutually inverse on their common domain and that paired names
// agree after stripping the given affixes.
func inverseTables(r *core.Run, rule, nameA, nameB string, a, b map[string]string, norm func(string) string, pos token.Pos) {
	for _, k := range sortedKeys(a) {
		v := a[k]
		back, ok := b[v]
		key := nameA + "[" + k + "] = " + v
		switch {
		case !ok:
			r.Bad(rule, key, pos, nameB+" has no entry for "+v+": the conversion does not round-trip")
		case back != k:
			r.Bad(rule, key, pos, nameB+"["+v+"] = "+back+", not "+k+": the two conversion tables are not inverse")
		case norm != nil && norm(k) != norm(v):
			r.Bad(rule, key, pos, "paired names differ ("+norm(k)+" vs "+norm(v)+"): the entry maps one type to another type's counterpart")
		default:
			r.OK(rule, key, pos, "inverse entry present and names agree")
		}
	}
}

// callerCounts counts, per "caller -> calleeName" edge, the call sites resolving to pred: `direct` only in the
// caller's own body (what the pinned tables record), `deep` additionally through static module callees (depth 2),
// so that extracting a call into a helper function does not lower the measured count.
func callerCounts(w *core.World, pred func(*types.Func) bool, nameOf func(*types.Func) string) (direct, deep map[string]int) {
	d := map[string]map[string]int{}
	for _, fn := range w.SrcFuncs() {
		if fn.Parent() != nil {
			continue
		}
		for _, c := range core.CallsTo(fn, true, pred) {
			k := core.SSAKey(fn)
			if d[k] == nil {
				d[k] = map[string]int{}
			}
			d[k][nameOf(core.Callee(c))]++
		}
	}
	direct, deep = map[string]int{}, map[string]int{}
	for k, items := range d {
		for it, n := range items {
			direct[k+" -> "+it] = n
			deep[k+" -> "+it] = n
		}
	}
	for k, items := range w.DeepCounts(d, 2) {
		for it, n := range items {
			if n > deep[k+" -> "+it] {
				deep[k+" -> "+it] = n
			}
		}
	}
	return direct, deep
}
