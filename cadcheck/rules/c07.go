package rules

import (
	"go/ast"
	"go/types"

	"golang.org/x/tools/go/ssa"

	"cadcheck/core"
)

// c07StorageMapCreators: R3 — a view context must not write. Looking a domain storage map up with createIfNotExists=true
// creates the account's storage map and the domain map when they do not exist, which the commit turns into new
// registers. Only the reviewed mutating entry points may pass anything but the constant false; every read helper
// (capability lookups, iteration, checks — reachable from view functions and conditions) must pass false.
func c07StorageMapCreators(r *core.Run) {
	const rule = "R3.mapcreate"
	w := r.W
	var reviewed map[string]string
	if !r.Table("c07_storage_map_creators", &reviewed) {
		return
	}
	got := map[string]string{}
	n := 0
	for _, fn := range w.SrcFuncs() {
		if fn.Parent() != nil || fn.Pkg == nil || !w.InScope(fn.Pkg.Pkg.Path()) {
			continue
		}
		for _, c := range core.Calls(fn, true) {
			o := core.Callee(c)
			if o == nil || o.Name() != "GetDomainStorageMap" {
				continue
			}
			args := c.Common().Args
			if len(args) == 0 {
				continue
			}
			n++
			last := args[len(args)-1]
			desc := "non-constant " + core.OriginLeaves(last)
			if cst, ok := last.(*ssa.Const); ok && cst.Value != nil {
				desc = cst.Value.ExactString()
			}
			key := core.SSAKey(fn)
			if desc == "false" {
				r.OK(rule, key+": GetDomainStorageMap(createIfNotExists=false)", c.Pos(), "pure lookup")
				continue
			}
			got[key] = desc
			if why, ok := reviewed[key]; ok {
				r.OK(rule, key+": GetDomainStorageMap(createIfNotExists="+desc+")", c.Pos(), "reviewed mutating entry point: "+why)
			} else {
				r.Bad(rule, key+": GetDomainStorageMap(createIfNotExists="+desc+")", c.Pos(), "a function outside the reviewed mutating entry points may create the account / domain storage map: a lookup reachable from a view function or a condition then writes registers")
			}
		}
	}
	if genMode() {
		genJSON(r, "c07_storage_map_creators", got)
	}
	r.Check(n >= 15, rule, "GetDomainStorageMap call sites", 0, itoa(n)+" examined", "fewer call sites than reviewed")
	r.Floor(rule, 15)
}

// c07ViewFunctionParams: R4 — a built-in function type marked `view` may be called from a view context; if it takes a
// function-typed parameter that it invokes (map, filter, forEach…), that parameter's type must be `view` as well,
// otherwise a view function can run an impure closure through the built-in. Every sema.FunctionType literal with
// Purity: FunctionPurityView whose parameters are typed by a FunctionType literal (directly, or through a local
// variable initialised with one) requires that literal to be view too.
func c07ViewFunctionParams(r *core.Run) {
	const rule = "R4.viewparams"
	w := r.W
	p := w.Pkg("sema")
	if p == nil {
		r.Undecided(rule, "sema", "package not loaded")
		return
	}
	info := p.TypesInfo
	isFunctionTypeLit := func(e ast.Expr) *ast.CompositeLit {
		if u, ok := e.(*ast.UnaryExpr); ok {
			e = u.X
		}
		cl, ok := e.(*ast.CompositeLit)
		if !ok {
			return nil
		}
		if tv, ok := info.Types[cl]; ok {
			if nt, ok := tv.Type.(*types.Named); ok && nt.Obj().Name() == "FunctionType" {
				return cl
			}
		}
		return nil
	}
	purityOf := func(cl *ast.CompositeLit) string {
		for _, e := range cl.Elts {
			if kv, ok := e.(*ast.KeyValueExpr); ok {
				if k, ok := kv.Key.(*ast.Ident); ok && k.Name == "Purity" {
					return types.ExprString(kv.Value)
				}
			}
		}
		return ""
	}
	n := 0
	for _, fd := range w.FuncDeclsIn("sema") {
		if fd.Body == nil {
			continue
		}
		// local variables initialised with a FunctionType literal
		localLits := map[types.Object]*ast.CompositeLit{}
		ast.Inspect(fd.Body, func(nd ast.Node) bool {
			as, ok := nd.(*ast.AssignStmt)
			if !ok || len(as.Lhs) != len(as.Rhs) {
				return true
			}
			for i, l := range as.Lhs {
				if id, ok := l.(*ast.Ident); ok {
					if cl := isFunctionTypeLit(as.Rhs[i]); cl != nil {
						if o := info.ObjectOf(id); o != nil {
							localLits[o] = cl
						}
					}
				}
			}
			return true
		})
		ast.Inspect(fd.Body, func(nd ast.Node) bool {
			e, ok := nd.(ast.Expr)
			if !ok {
				return true
			}
			if _, isLit := e.(*ast.CompositeLit); !isLit {
				return true
			}
			outer := isFunctionTypeLit(e)
			if outer == nil || purityOf(outer) != "FunctionPurityView" {
				return true
			}
			for _, el := range outer.Elts {
				kv, ok := el.(*ast.KeyValueExpr)
				if !ok {
					continue
				}
				if k, ok := kv.Key.(*ast.Ident); !ok || k.Name != "Parameters" {
					continue
				}
				ast.Inspect(kv.Value, func(m ast.Node) bool {
					var inner *ast.CompositeLit
					switch x := m.(type) {
					case *ast.Ident:
						if o := info.ObjectOf(x); o != nil {
							inner = localLits[o]
						}
					case ast.Expr:
						if cl := isFunctionTypeLit(x); cl != nil && cl != outer {
							inner = cl
						}
					}
					if inner == nil {
						return true
					}
					n++
					r.Check(purityOf(inner) == "FunctionPurityView", rule, core.DeclKey(p, fd)+": function-typed parameter of a view function type", inner.Pos(),
						"the parameter's function type is view", "a built-in function type is marked view but its function-typed parameter is not: a view context can run an impure function through the built-in")
					return true
				})
			}
			return true
		})
	}
	r.Check(n >= 1, rule, "sema: view function types with function-typed parameters", 0, itoa(n)+" found", "fewer view built-ins with function-typed parameters than reviewed")
	r.Floor(rule, 2)
}
