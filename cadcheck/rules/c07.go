package rules

import (
	"golang.org/x/tools/go/ssa"

	"cadcheck/core"
)

// c07StorageMapCreators: R3 — a view context must not write. Looking a domain storage map up with createIfNotExists=true
// creates the account's storage map and the domain map when they do not exist, which the commit turns into new
// registers. Only the reviewed mutating entry points may pass anything but the constant false; every read helper
// (capability lookups, iteration, checks — reachable from view functions and conditions) must pass false.
func c07StorageMapCreators(r *core.Run) {
	const rule = "R3.mapcreate"
	w := r.W
	var reviewed map[string]string
	if !r.Table("c07_storage_map_creators", &reviewed) {
		return
	}
	got := map[string]string{}
	n := 0
	for _, fn := range w.SrcFuncs() {
		if fn.Parent() != nil || fn.Pkg == nil || !w.InScope(fn.Pkg.Pkg.Path()) {
			continue
		}
		for _, c := range core.Calls(fn, true) {
			o := core.Callee(c)
			if o == nil || o.Name() != "GetDomainStorageMap" {
				continue
			}
			args := c.Common().Args
			if len(args) == 0 {
				continue
			}
			n++
			last := args[len(args)-1]
			desc := "non-constant " + core.OriginLeaves(last)
			if cst, ok := last.(*ssa.Const); ok && cst.Value != nil {
				desc = cst.Value.ExactString()
			}
			key := core.SSAKey(fn)
			if desc == "false" {
				r.OK(rule, key+": GetDomainStorageMap(createIfNotExists=false)", c.Pos(), "pure lookup")
				continue
			}
			got[key] = desc
			if why, ok := reviewed[key]; ok {
				r.OK(rule, key+": GetDomainStorageMap(createIfNotExists="+desc+")", c.Pos(), "reviewed mutating entry point: "+why)
			} else {
				r.Bad(rule, key+": GetDomainStorageMap(createIfNotExists="+desc+")", c.Pos(), "a function outside the reviewed mutating entry points may create the account / domain storage map: a lookup reachable from a view function or a condition then writes registers")
			}
		}
	}
	if genMode() {
		genJSON(r, "c07_storage_map_creators", got)
	}
	r.Check(n >= 15, rule, "GetDomainStorageMap call sites", 0, itoa(n)+" examined", "fewer call sites than reviewed")
	r.Floor(rule, 15)
}
