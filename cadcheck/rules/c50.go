package rules

import (
	"strings"

	"golang.org/x/tools/go/ssa"

	"cadcheck/core"
)

func init() { register("C50", c50) }

// groundsRule: GROUNDS engine applied to a list of boolean decision functions against a pinned table:
// every pinned ground must still be kept by some current way of returning true (no acceptance is lost), and every
// current way of returning true must keep all conjuncts of some pinned ground (no weaker or new acceptance).
func groundsRule(r *core.Run, rule, table string, fns []*ssa.Function) {
	got := map[string][]string{}
	for _, fn := range fns {
		if fn == nil {
			continue
		}
		g, ok := core.AcceptGrounds(fn)
		if !ok {
			r.Undecided(rule, core.SSAKey(fn), "not a boolean decision function")
			continue
		}
		got[core.SSAKey(fn)] = g
	}
	if genMode() {
		genJSON(r, table, got)
		return
	}
	var pinned map[string][]string
	if !r.Table(table, &pinned) {
		return
	}
	for _, k := range sortedKeys(pinned) {
		cur, ok := got[k]
		if !ok {
			r.Undecided(rule, k, "decision function does not resolve")
			continue
		}
		for i, p := range pinned[k] {
			kept := false
			for _, c := range cur {
				if core.GroundCovers(c, p) {
					kept = true
				}
			}
			r.Check(kept, rule, k+": ground #"+itoa(i+1)+" kept: "+p, 0, "this way of accepting is still present with all its conditions",
				"a reviewed acceptance ground lost a condition or disappeared: the decision accepts under a weaker test or rejects what it accepted")
		}
		for _, c := range cur {
			known := false
			for _, p := range pinned[k] {
				if core.GroundCovers(c, p) {
					known = true
				}
			}
			if !known {
				r.Bad(rule, k+": new ground: "+c, 0, "the decision function returns true on a path that keeps the conditions of none of the reviewed acceptance grounds: a new or weakened way of accepting")
			}
		}
	}
}

func c50(r *core.Run) {
	r.Explanation = "Decided clauses: (R1) acceptance grounds of the access decision functions — sema.(Checker).isReadableMember, isWriteableMember, AccessCheckMode.IsReadableAccess / IsWriteableAccess and PrimitiveAccess.PermitsAccess: " +
		"every way these functions return true is the conjunction of branch outcomes recorded from the reviewed tree (described by callee / operator and the data-flow origins of the operands: the member's container type is the current container, " +
		"access(contract) with the containing contract, access(account) with LocationsInSameAccount or the host's handler, an entitlement set permitted by the reference's authorization, …); a ground that loses a condition, or a new way of returning true, is reported; " +
		"(R2) the reports: InvalidAccessError is controlled by the false outcome of isReadableMember in visitMember, InvalidAssignmentAccessError by the false outcome of isWriteableMember, and the constant-field assignment error is still constructed in visitMemberExpressionAssignment; " +
		"(R3) every path (set of branch outcomes) of visitMemberExpressionAssignment that reported AssignmentToConstantMemberError on the reviewed tree is still covered by a reporting path that needs no further condition."
	r.NotDecided = "that the checker's accept/reject relation is the specified one for every program (the decision functions' logic is compared with its reviewed form, not derived from the specification); initialisation-once of `let` fields over all control-flow shapes."
	var fns []*ssa.Function
	for _, a := range [][2]string{{"Checker", "isReadableMember"}, {"Checker", "isWriteableMember"}, {"AccessCheckMode", "IsReadableAccess"}, {"AccessCheckMode", "IsWriteableAccess"}, {"PrimitiveAccess", "PermitsAccess"}} {
		fns = append(fns, mustFn(r, "R1.grounds", "sema", a[0], a[1]))
	}
	groundsRule(r, "R1.grounds", "c50_grounds", fns)
	r.Floor("R1.grounds", 12)

	// R2 reports
	type rep struct{ fn, errType, decider string }
	for _, x := range []rep{
		{"visitMember", "InvalidAccessError", "isReadableMember"},
		{"visitMemberExpressionAssignment", "InvalidAssignmentAccessError", "isWriteableMember"},
	} {
		fn := mustFn(r, "R2.reports", "sema", "Checker", x.fn)
		if fn == nil {
			continue
		}
		found, ok := false, false
		core.Instrs(fn, false, func(in ssa.Instruction) {
			al, isAl := in.(*ssa.Alloc)
			if !isAl {
				return
			}
			if _, tn := core.TypeName(al.Type()); tn != x.errType {
				return
			}
			found = true
			for _, a := range core.ControllingConds(al) {
				if c, isCall := a.Var.Call.(*ssa.Call); isCall && !a.Val {
					if o := core.Callee(c); o != nil && o.Name() == x.decider {
						ok = true
					}
				}
			}
		})
		r.Check(found && ok, "R2.reports", "sema.(Checker)."+x.fn+": "+x.errType, fn.Pos(), "reported exactly on the false outcome of "+x.decider,
			"the access error is no longer reported under the false outcome of "+x.decider+" (found="+boolStr(found)+"): inaccessible members are accepted or the report is unconditional")
	}
	if fn := mustFn(r, "R2.reports", "sema", "Checker", "visitMemberExpressionAssignment"); fn != nil {
		n := 0
		core.Instrs(fn, true, func(in ssa.Instruction) {
			if al, ok := in.(*ssa.Alloc); ok {
				if _, tn := core.TypeName(al.Type()); tn == "AssignmentToConstantMemberError" {
					n++
				}
			}
		})
		r.Check(n >= 1, "R2.reports", "sema.(Checker).visitMemberExpressionAssignment: AssignmentToConstantMemberError", fn.Pos(), "constant-field assignment is reported", "the constant-field assignment error is no longer constructed")
	}
	r.Floor("R2.reports", 3)

	// R3 the constant-field assignment error keeps firing where it fired: every path of visitMemberExpressionAssignment on which
	// AssignmentToConstantMemberError was reported on the reviewed tree (as a set of branch outcomes) is still covered by a
	// reporting path that needs no additional condition
	if fn := mustFn(r, "R3.constassign", "sema", "Checker", "visitMemberExpressionAssignment"); fn != nil {
		// the closure that reports, and direct constructions of the error
		reports := func(in ssa.Instruction) string {
			switch x := in.(type) {
			case *ssa.Alloc:
				if _, tn := core.TypeName(x.Type()); tn == "AssignmentToConstantMemberError" {
					return "report"
				}
			case ssa.CallInstruction:
				if mc, ok := x.Common().Value.(*ssa.MakeClosure); ok {
					if lit, ok := mc.Fn.(*ssa.Function); ok {
						hit := false
						core.Instrs(lit, true, func(y ssa.Instruction) {
							if al, ok := y.(*ssa.Alloc); ok {
								if _, tn := core.TypeName(al.Type()); tn == "AssignmentToConstantMemberError" {
									hit = true
								}
							}
						})
						if hit {
							return "report"
						}
					}
				}
			}
			return ""
		}
		paths, complete := core.PathSummaries(fn, 4096, reports)
		if !complete {
			r.Undecided("R3.constassign", core.SSAKey(fn), "too many paths to enumerate")
		}
		set := map[string]bool{}
		for _, p := range paths {
			parts := strings.SplitN(p, " ⇒ ", 2)
			if len(parts) == 2 && strings.Contains(parts[1], "report") {
				set[parts[0]] = true
			}
		}
		simplified := core.SimplifyGrounds(sortedKeys(set))
		set = map[string]bool{}
		for _, g := range simplified {
			set[g] = true
		}
		got := map[string][]string{core.SSAKey(fn): simplified}
		if genMode() {
			genJSON(r, "c50_constassign_grounds", got)
		} else {
			var pinned map[string][]string
			if r.Table("c50_constassign_grounds", &pinned) {
				conj := func(s string) map[string]bool {
					m := map[string]bool{}
					for _, c := range strings.Split(s, " ∧ ") {
						if c != "" {
							m[c] = true
						}
					}
					return m
				}
				for i, pg := range pinned[core.SSAKey(fn)] {
					pc := conj(pg)
					covered := false
					for c := range set {
						sub := true
						for k := range conj(c) {
							if !pc[k] {
								sub = false
							}
						}
						if sub {
							covered = true
						}
					}
					r.Check(covered, "R3.constassign", core.SSAKey(fn)+": reporting path #"+itoa(i+1), fn.Pos(), "the error is still reported under these outcomes",
						"on a path on which the constant-field assignment error was reported it is no longer reported (or only under an additional condition): "+pg)
				}
			}
		}
	}
	r.Floor("R3.constassign", 2)
	_ = strings.TrimSpace
}

func boolStr(b bool) string {
	if b {
		return "true"
	}
	return "false"
}
