package rules

import (
	"go/ast"
	"go/token"
	"go/types"
	"strings"

	"golang.org/x/tools/go/ssa"

	"cadcheck/core"
)

func init() { register("C46", c46) }

func isLenOf(v ssa.Value, s ssa.Value) bool {
	c, ok := v.(*ssa.Call)
	if !ok {
		return false
	}
	b, ok := c.Call.Value.(*ssa.Builtin)
	return ok && b.Name() == "len" && len(c.Call.Args) == 1 && c.Call.Args[0] == s
}

// terminatingEdge: the successor #i of the If's block cannot reach target (it returns/panics first).
func dominatedByCheck(target ssa.Instruction, match func(cond *ssa.BinOp) bool) *ssa.If {
	fn := target.Parent()
	for _, b := range fn.Blocks {
		if len(b.Instrs) == 0 {
			continue
		}
		iff, ok := b.Instrs[len(b.Instrs)-1].(*ssa.If)
		if !ok {
			continue
		}
		bo, ok := iff.Cond.(*ssa.BinOp)
		if !ok || !match(bo) {
			continue
		}
		// target must only be reachable through the false edge (the check failing means: bounds ok)
		if core.OnlyViaEdge(target, b, b.Succs[1]) {
			return iff
		}
	}
	return nil
}

func c46(r *core.Run) {
	r.Explanation = "Decided clauses for stdlib/rlp (ReadSize, DecodeString, DecodeList): (R1) every addition whose operand is a length decoded from the input (third result of ReadSize, up to 2^63-1) is preceded, on every path, by the subtractive bound test " +
		"`size > len(inp) - start` with a returning true edge, so the sum cannot overflow and is within the input; every index inp[i] is preceded by `i >= len(inp)` → return, or by that subtractive test together with size == 1; " +
		"every slice inp[a:b] has b bounded by `b > len(inp)` → return or b = a' + size under the subtractive test; (R2) the stdlib wrappers convert every decoder error into a user error and reject trailing bytes on every returning path."
	r.NotDecided = "that exactly the canonical encodings are accepted (R3 decides only that the three rejections of non-canonical lengths of the reviewed tree are still made); the local 8-byte length buffer arithmetic in ReadSize (bounded by the first-byte ranges); lower slice bounds."
	w := r.W
	readSize := funcOf(mod+"/stdlib/rlp", "ReadSize")
	for _, name := range []string{"ReadSize", "DecodeString", "DecodeList"} {
		fn := mustFn(r, "R1.bounds", "stdlib/rlp", "", name)
		if fn == nil {
			continue
		}
		var inp *ssa.Parameter
		for _, p := range fn.Params {
			if _, ok := p.Type().Underlying().(*types.Slice); ok && inp == nil {
				inp = p
			}
		}
		if inp == nil {
			r.Undecided("R1.bounds", core.SSAKey(fn), "no input slice parameter")
			continue
		}
		// decoded sizes: Extract #2 of ReadSize calls
		sizes := map[ssa.Value]bool{}
		for _, c := range core.CallsTo(fn, false, readSize) {
			if v := c.Value(); v != nil && v.Referrers() != nil {
				for _, ref := range *v.Referrers() {
					if ex, ok := ref.(*ssa.Extract); ok && ex.Index == 2 {
						sizes[ex] = true
					}
				}
			}
		}
		// subtractive check: size > len(inp) - start
		subCheck := func(target ssa.Instruction, size, start ssa.Value) *ssa.If {
			return dominatedByCheck(target, func(bo *ssa.BinOp) bool {
				if bo.Op != token.GTR || bo.X != size {
					return false
				}
				sub, ok := bo.Y.(*ssa.BinOp)
				return ok && sub.Op == token.SUB && isLenOf(sub.X, inp) && sub.Y == start
			})
		}
		key := core.SSAKey(fn)
		for _, b := range fn.Blocks {
			for _, in := range b.Instrs {
				switch x := in.(type) {
				case *ssa.BinOp:
					if x.Op != token.ADD {
						continue
					}
					var size, other ssa.Value
					if sizes[x.X] {
						size, other = x.X, x.Y
					} else if sizes[x.Y] {
						size, other = x.Y, x.X
					} else {
						continue
					}
					ck := key + ": " + srcExpr(w, fn, x.Pos(), "sum")
					if iff := subCheck(x, size, other); iff != nil {
						r.OK("R1.bounds", ck, x.Pos(), "preceded by `size > len(inp) - start` → return at "+w.Pos(iff.Cond.Pos()))
					} else {
						r.Bad("R1.bounds", ck, x.Pos(), "a decoded length (up to 2^63-1) is added to an index without the subtractive bound test `size > len(inp) - start`: the sum can overflow and pass a later `> len(inp)` comparison, ending in a Go slice-bounds panic")
					}
				case *ssa.IndexAddr:
					if x.X != ssa.Value(inp) {
						continue
					}
					ck := key + ": " + srcExpr(w, fn, x.Pos(), "index")
					idx := x.Index
					if iff := dominatedByCheck(x, func(bo *ssa.BinOp) bool { return bo.Op == token.GEQ && bo.X == idx && isLenOf(bo.Y, inp) }); iff != nil {
						r.OK("R1.bounds", ck, x.Pos(), "preceded by `i >= len(inp)` → return at "+w.Pos(iff.Cond.Pos()))
						continue
					}
					ok := false
					for s := range sizes {
						if subCheck(x, s, idx) == nil {
							continue
						}
						// size == 1 must hold where the index is taken
						for _, a := range core.ControllingConds(x) {
							if bo, isB := a.Var.Call.(*ssa.BinOp); isB && a.Val && bo.Op == token.EQL && bo.X == s {
								if c, isC := bo.Y.(*ssa.Const); isC && c.Value != nil && c.Value.ExactString() == "1" {
									ok = true
								}
							}
						}
					}
					r.Check(ok, "R1.bounds", ck, x.Pos(), "preceded by `size > len(inp) - i` → return and executed only when size == 1",
						"index into the input is not preceded by a bound test on every path: a truncated input ends in a Go index-out-of-range panic")
				case *ssa.Slice:
					if x.X != ssa.Value(inp) || x.High == nil {
						continue
					}
					ck := key + ": " + srcExpr(w, fn, x.Pos(), "slice")
					hi := x.High
					if iff := dominatedByCheck(x, func(bo *ssa.BinOp) bool { return bo.Op == token.GTR && bo.X == hi && isLenOf(bo.Y, inp) }); iff != nil {
						r.OK("R1.bounds", ck, x.Pos(), "upper bound preceded by `b > len(inp)` → return")
						continue
					}
					ok := false
					// the upper bound may flow through a phi (loop variable): accept if every non-zero incoming value is a checked sum
					var sums []ssa.Value
					if ph, isPhi := hi.(*ssa.Phi); isPhi {
						sums = append(sums, ph.Edges...)
					} else {
						sums = []ssa.Value{hi}
					}
					allOK := len(sums) > 0
					for _, sv := range sums {
						if c, isC := sv.(*ssa.Const); isC && c.Value != nil {
							continue
						}
						add, isAdd := sv.(*ssa.BinOp)
						if !isAdd || add.Op != token.ADD {
							allOK = false
							continue
						}
						var size, other ssa.Value
						if sizes[add.X] {
							size, other = add.X, add.Y
						} else if sizes[add.Y] {
							size, other = add.Y, add.X
						} else {
							allOK = false
							continue
						}
						if subCheck(add, size, other) == nil {
							allOK = false
						}
					}
					ok = allOK
					r.Check(ok, "R1.bounds", ck, x.Pos(), "upper bound is start + decoded length under the subtractive bound test",
						"slice of the input whose upper bound is not bounded by len(inp) on every path")
				}
			}
		}
	}
	r.Floor("R1.bounds", 9)

	// R2 wrappers
	for _, name := range []string{"RLPDecodeString", "RLPDecodeList"} {
		fn := mustFn(r, "R2.wrappers", "stdlib", "", name)
		if fn == nil {
			continue
		}
		dec := core.CallsTo(fn, true, anyOf(funcOf(mod+"/stdlib/rlp", "DecodeString"), funcOf(mod+"/stdlib/rlp", "DecodeList")))
		if len(dec) == 0 {
			r.Undecided("R2.wrappers", core.SSAKey(fn), "no decoder call")
			continue
		}
		for _, c := range dec {
			// the decoder's error is tested and its non-nil edge ends in a panic (a user error carrying the message)
			errOK := false
			for _, e := range core.ErrResults(c) {
				for _, t := range core.NilTests(c.Parent()) {
					if t.X == e && t.NilSucc != t.NonNilSucc && core.Terminates(t.NonNilSucc) {
						errOK = true
					}
				}
			}
			r.Check(errOK, "R2.wrappers", core.SSAKey(fn)+" -> "+calleeName(c)+" error", posOf(c),
				"decoder error is tested and its non-nil edge always panics", "the decoder's error is not turned into a failure on every path")
			// trailing bytes: a comparison of bytesRead (Extract #1) with len(input) controls every normal return after the call
			var bytesRead ssa.Value
			if v := c.Value(); v != nil && v.Referrers() != nil {
				for _, ref := range *v.Referrers() {
					if ex, ok := ref.(*ssa.Extract); ok && ex.Index == 1 {
						bytesRead = ex
					}
				}
			}
			compared := false
			var cmpIf *ssa.If
			if bytesRead != nil && bytesRead.Referrers() != nil {
				for _, ref := range *bytesRead.Referrers() {
					if bo, ok := ref.(*ssa.BinOp); ok && (bo.Op == token.NEQ || bo.Op == token.EQL) && bo.Referrers() != nil {
						for _, u := range *bo.Referrers() {
							if iff, ok := u.(*ssa.If); ok {
								compared = true
								cmpIf = iff
							}
						}
					}
				}
			}
			ok := compared
			why := "the number of bytes read is not compared with the input length (trailing bytes would be accepted)"
			if ok {
				// every return reachable after the decoder call passes the comparison
				for _, ret := range core.Returns(c.Parent()) {
					if !core.ReachableAfter(c, ret) {
						continue
					}
					if core.Reachable(ret, core.ReachOpts{Barrier: func(in ssa.Instruction) bool { return in == ssa.Instruction(cmpIf) }}) &&
						!core.MustPass(ret, func(in ssa.Instruction) bool { return in == ssa.Instruction(cmpIf) }) {
						ok, why = false, "a return at "+w.Pos(ret.Pos())+" is reachable after decoding without passing the trailing-bytes comparison"
					}
				}
			}
			r.Check(ok, "R2.wrappers", core.SSAKey(fn)+": trailing-bytes test", posOf(c), "bytesRead is compared with len(input) before every return", why)
		}
	}
	r.Floor("R2.wrappers", 4)
	c46Canonical(r)
}

func nameOf(v ssa.Value) string {
	if v == nil {
		return ""
	}
	return v.Name()
}

// srcExpr renders the source expression of an SSA instruction (binary expression by operator position, index/slice
// expression by bracket position), with an occurrence number to keep keys unique and line-free.
func srcExpr(w *core.World, fn *ssa.Function, pos token.Pos, kind string) string {
	syn := fn.Syntax()
	if syn == nil {
		return kind
	}
	out := kind
	n := 0
	ast.Inspect(syn, func(nd ast.Node) bool {
		switch x := nd.(type) {
		case *ast.BinaryExpr:
			if kind == "sum" && x.Op == token.ADD {
				n++
				if x.OpPos == pos {
					out = types.ExprString(x) + " #" + itoa(n)
				}
			}
		case *ast.AssignStmt:
			if kind == "sum" && x.Tok == token.ADD_ASSIGN {
				n++
				if x.TokPos == pos {
					out = types.ExprString(x.Lhs[0]) + " += " + types.ExprString(x.Rhs[0]) + " #" + itoa(n)
				}
			}
		case *ast.IndexExpr:
			if kind == "index" {
				n++
				if x.Lbrack == pos {
					out = types.ExprString(x) + " #" + itoa(n)
				}
			}
		case *ast.SliceExpr:
			if kind == "slice" {
				n++
				if x.Lbrack == pos {
					out = types.ExprString(x) + " #" + itoa(n)
				}
			}
		}
		return true
	})
	return out
}

// c46Canonical: R3 — every rejection of a non-canonical length recorded for the reviewed tree is still made. Each
// `return … ErrNonCanonicalInput` of stdlib/rlp is fingerprinted by the comparison that selects it (operator and operand classes:
// a byte of a byte slice, a constant, a decoded length, another value); the pinned fingerprints (tables/c46_canonical.json) must
// all be present. The three tests of the pinned tree are: a one-byte long-form length ≤ 55, a leading zero byte of a multi-byte
// length, and a one-byte string payload ≤ 0x7f; replacing one of them by a weaker or different test accepts a non-canonical encoding.
func c46Canonical(r *core.Run) {
	const rule = "R3.canonical"
	w := r.W
	p := w.Pkg("stdlib/rlp")
	if p == nil {
		r.Undecided(rule, "stdlib/rlp", "package not loaded")
		return
	}
	class := func(v ssa.Value) string {
		for {
			switch x := v.(type) {
			case *ssa.Convert:
				v = x.X
				continue
			case *ssa.ChangeType:
				v = x.X
				continue
			}
			break
		}
		switch x := v.(type) {
		case *ssa.Const:
			if x.Value != nil {
				return "const " + x.Value.ExactString()
			}
			return "const"
		case *ssa.UnOp:
			if ia, ok := x.X.(*ssa.IndexAddr); ok && x.Op == token.MUL {
				if sl, ok := ia.X.Type().Underlying().(*types.Slice); ok {
					if b, ok := sl.Elem().Underlying().(*types.Basic); ok && b.Kind() == types.Uint8 {
						return "input byte"
					}
				}
			}
		case *ssa.Call:
			if o := core.Callee(x); o != nil && o.Pkg() != nil && o.Pkg().Path() == "encoding/binary" {
				return "decoded multi-byte length"
			}
		case *ssa.Extract:
			return "result #" + itoa(x.Index)
		}
		return "value"
	}
	flip := map[token.Token]token.Token{token.LSS: token.GTR, token.GTR: token.LSS, token.LEQ: token.GEQ, token.GEQ: token.LEQ, token.EQL: token.EQL, token.NEQ: token.NEQ}
	negate := map[token.Token]token.Token{token.LSS: token.GEQ, token.GTR: token.LEQ, token.LEQ: token.GTR, token.GEQ: token.LSS, token.EQL: token.NEQ, token.NEQ: token.EQL}
	got := map[string]int{}
	for _, fn := range w.SrcFuncs() {
		if fn.Pkg == nil || fn.Pkg.Pkg.Path() != mod+"/stdlib/rlp" {
			continue
		}
		for _, ret := range core.Returns(fn) {
			isNC := false
			for _, res := range ret.Results {
				if u, ok := core.Unwrap(res).(*ssa.UnOp); ok && u.Op == token.MUL {
					if g, ok := u.X.(*ssa.Global); ok && g.Name() == "ErrNonCanonicalInput" {
						isNC = true
					}
				}
			}
			if !isNC {
				continue
			}
			b := ret.Block()
			if len(b.Preds) != 1 {
				got[core.SSAKey(fn)+": (joined paths)"]++
				continue
			}
			pb := b.Preds[0]
			iff, ok := pb.Instrs[len(pb.Instrs)-1].(*ssa.If)
			if !ok {
				got[core.SSAKey(fn)+": (unconditional)"]++
				continue
			}
			viaTrue := pb.Succs[0] == b
			cond := iff.Cond
			for {
				if u, ok := cond.(*ssa.UnOp); ok && u.Op == token.NOT {
					cond, viaTrue = u.X, !viaTrue
					continue
				}
				break
			}
			bo, ok := cond.(*ssa.BinOp)
			if !ok {
				got[core.SSAKey(fn)+": (non-comparison)"]++
				continue
			}
			op, x, y := bo.Op, class(bo.X), class(bo.Y)
			if !viaTrue {
				op = negate[op]
			}
			if strings.HasPrefix(x, "const") && !strings.HasPrefix(y, "const") {
				x, y, op = y, x, flip[op]
			}
			got["stdlib/rlp: "+x+" "+op.String()+" "+y]++
		}
	}
	genCounts(r, "c46_canonical", got)
	if genMode() {
		return
	}
	var pinned map[string]int
	if !r.Table("c46_canonical", &pinned) {
		return
	}
	for _, k := range sortedKeys(pinned) {
		r.Check(got[k] >= pinned[k], rule, k, 0, "this non-canonical form is rejected",
			"the test that rejected this non-canonical form on the reviewed tree is gone (or was replaced by a different comparison): a non-canonical encoding is decoded instead of failing with a user error")
	}
	r.Floor(rule, 3)
}
