package core

import (
	"go/token"

	"golang.org/x/tools/go/ssa"
)

// BoolVar identifies a boolean program variable that is never reassigned: a parameter or the result of one call.
type BoolVar struct {
	Param *ssa.Parameter
	Call  ssa.Value
}

func (b BoolVar) matches(v ssa.Value) bool {
	v = Unwrap(v)
	if b.Param != nil && IsParamValue(v, b.Param) {
		return true
	}
	if b.Call != nil {
		if v == b.Call {
			return true
		}
		// spilled to a cell (captured by a closure): single store of the call value
		if u, ok := v.(*ssa.UnOp); ok && u.Op == token.MUL {
			if st := soleStore(u.X); st != nil && Unwrap(st.Val) == b.Call {
				return true
			}
		}
	}
	return false
}

func soleStore(cell ssa.Value) *ssa.Store {
	var found *ssa.Store
	n := 0
	for _, c := range cellAliases(cell) {
		if refs := c.Referrers(); refs != nil {
			for _, ref := range *refs {
				if st, ok := ref.(*ssa.Store); ok && st.Addr == c {
					n++
					found = st
				}
			}
		}
	}
	if n == 1 {
		return found
	}
	return nil
}

// Assumption fixes the value of boolean variables.
type Assumption struct {
	Var BoolVar
	Val bool
}

// edgeAllowed reports whether the CFG edge from b to its i-th successor is consistent with the assumptions.
func edgeAllowed(b *ssa.BasicBlock, i int, as []Assumption) bool {
	if len(b.Instrs) == 0 {
		return true
	}
	iff, ok := b.Instrs[len(b.Instrs)-1].(*ssa.If)
	if !ok {
		return true
	}
	cond := iff.Cond
	neg := false
	for {
		if u, ok := cond.(*ssa.UnOp); ok && u.Op == token.NOT {
			cond = u.X
			neg = !neg
			continue
		}
		break
	}
	for _, a := range as {
		if a.Var.matches(cond) {
			val := a.Val
			if neg {
				val = !val
			}
			// successor 0 is taken when cond is true
			return (i == 0) == val
		}
	}
	return true
}

// evalUnder evaluates a boolean SSA value under the assumptions, entering block b from pred (for phis of b):
// 1 true, 0 false, -1 unknown.
func evalUnder(v ssa.Value, b, pred *ssa.BasicBlock, as []Assumption, depth int) int {
	if depth > 6 {
		return -1
	}
	switch x := v.(type) {
	case *ssa.Const:
		if x.Value != nil {
			switch x.Value.ExactString() {
			case "true":
				return 1
			case "false":
				return 0
			}
		}
		return -1
	case *ssa.UnOp:
		if x.Op == token.NOT {
			if r := evalUnder(x.X, b, pred, as, depth+1); r >= 0 {
				return 1 - r
			}
			return -1
		}
	case *ssa.ChangeType:
		return evalUnder(x.X, b, pred, as, depth+1)
	case *ssa.Phi:
		if x.Block() == b && pred != nil {
			for i, p := range b.Preds {
				if p == pred && i < len(x.Edges) {
					return evalUnder(x.Edges[i], b, nil, as, depth+1)
				}
			}
		}
		return -1
	}
	for _, a := range as {
		if a.Var.matches(v) {
			if a.Val {
				return 1
			}
			return 0
		}
	}
	return -1
}

// ReachUnder reports whether an instruction satisfying target is reachable from the start blocks (entry when nil)
// along edges consistent with the assumptions without executing a barrier instruction first. Branch conditions are
// evaluated under the assumptions; a condition that is a phi of the branching block (the join of a short-circuit
// `a && b` / `a || b`) is evaluated per incoming edge.
func ReachUnder(fn *ssa.Function, as []Assumption, starts []*ssa.BasicBlock, barrier func(ssa.Instruction) bool, target func(ssa.Instruction) bool) ssa.Instruction {
	if len(fn.Blocks) == 0 {
		return nil
	}
	if starts == nil {
		starts = []*ssa.BasicBlock{fn.Blocks[0]}
	}
	type state struct{ b, pred *ssa.BasicBlock }
	seen := map[state]bool{}
	var found ssa.Instruction
	var walk func(b, pred *ssa.BasicBlock)
	walk = func(b, pred *ssa.BasicBlock) {
		if seen[state{b, pred}] || found != nil {
			return
		}
		seen[state{b, pred}] = true
		for _, in := range b.Instrs {
			if target(in) {
				found = in
				return
			}
			if barrier != nil && barrier(in) {
				return
			}
		}
		known := -1
		if len(b.Instrs) > 0 {
			if iff, ok := b.Instrs[len(b.Instrs)-1].(*ssa.If); ok {
				known = evalUnder(iff.Cond, b, pred, as, 0)
			}
		}
		for i, s := range b.Succs {
			if known >= 0 && len(b.Succs) == 2 {
				// successor 0 is taken when the condition is true
				if (i == 0) != (known == 1) {
					continue
				}
			} else if !edgeAllowed(b, i, as) {
				continue
			}
			walk(s, b)
		}
	}
	for _, s := range starts {
		walk(s, nil)
	}
	return found
}

// CallsDeep reports whether the call instruction c resolves to pred, or calls a function literal (immediately invoked
// or passed as an argument, e.g. an iteration callback) whose body contains such a call.
func CallsDeep(in ssa.Instruction, pred func(ssa.CallInstruction) bool) bool {
	c, ok := in.(ssa.CallInstruction)
	if !ok {
		return false
	}
	if pred(c) {
		return true
	}
	var lits []*ssa.Function
	if f := c.Common().StaticCallee(); f != nil && f.Parent() != nil {
		lits = append(lits, f)
	}
	if mc, ok := c.Common().Value.(*ssa.MakeClosure); ok {
		lits = append(lits, mc.Fn.(*ssa.Function))
	}
	for _, a := range c.Common().Args {
		a = Unwrap(a)
		if mc, ok := a.(*ssa.MakeClosure); ok {
			lits = append(lits, mc.Fn.(*ssa.Function))
		}
		if f, ok := a.(*ssa.Function); ok && f.Parent() != nil {
			lits = append(lits, f)
		}
	}
	for _, l := range lits {
		hit := false
		Instrs(l, true, func(x ssa.Instruction) {
			if cc, ok := x.(ssa.CallInstruction); ok && pred(cc) {
				hit = true
			}
		})
		if hit {
			return true
		}
	}
	return false
}

// ControllingConds returns the branch conditions (with the required outcome) under which in executes: for every
// block ending in an If from which in is reachable through exactly one of the two successors.
func ControllingConds(in ssa.Instruction) []Assumption {
	var out []Assumption
	fn := in.Parent()
	for _, b := range fn.Blocks {
		if len(b.Instrs) == 0 {
			continue
		}
		iff, ok := b.Instrs[len(b.Instrs)-1].(*ssa.If)
		if !ok || b.Succs[0] == b.Succs[1] {
			continue
		}
		viaTrue := !Reachable(in, ReachOpts{CutEdge: func(f, t *ssa.BasicBlock) bool { return f == b && t == b.Succs[1] }}) == false
		_ = viaTrue
		reachCutTrue := Reachable(in, ReachOpts{CutEdge: func(f, t *ssa.BasicBlock) bool { return f == b && t == b.Succs[0] }})
		reachCutFalse := Reachable(in, ReachOpts{CutEdge: func(f, t *ssa.BasicBlock) bool { return f == b && t == b.Succs[1] }})
		cond := iff.Cond
		neg := false
		for {
			if u, ok := cond.(*ssa.UnOp); ok && u.Op == token.NOT {
				cond, neg = u.X, !neg
				continue
			}
			break
		}
		switch {
		case !reachCutTrue && reachCutFalse:
			out = append(out, Assumption{Var: BoolVar{Call: cond}, Val: !neg})
		case reachCutTrue && !reachCutFalse:
			out = append(out, Assumption{Var: BoolVar{Call: cond}, Val: neg})
		}
	}
	return out
}

// CallReaches reports whether the call instruction resolves to pred, runs a function literal containing such a call
// (CallsDeep), or statically calls a module function whose body (closures included) reaches one within depth further calls.
func CallReaches(in ssa.Instruction, pred func(ssa.CallInstruction) bool, depth int) bool {
	if CallsDeep(in, pred) {
		return true
	}
	c, ok := in.(ssa.CallInstruction)
	if !ok || depth <= 0 {
		return false
	}
	var targets []*ssa.Function
	if sf := c.Common().StaticCallee(); sf != nil && InModFn(sf) && len(sf.Blocks) > 0 {
		targets = append(targets, sf)
	}
	// function literals handed over as arguments may themselves call helpers
	for _, a := range c.Common().Args {
		if mc, ok := Unwrap(a).(*ssa.MakeClosure); ok {
			targets = append(targets, mc.Fn.(*ssa.Function))
		}
	}
	for _, t := range targets {
		hit := false
		Instrs(t, true, func(x ssa.Instruction) {
			if hit {
				return
			}
			if _, isCall := x.(ssa.CallInstruction); isCall && CallReaches(x, pred, depth-1) {
				hit = true
			}
		})
		if hit {
			return true
		}
	}
	return false
}
