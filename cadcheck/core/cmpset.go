package core

import (
	"go/constant"
	"go/token"
	"sort"
	"strings"

	"golang.org/x/tools/go/ssa"
)

// CMPSET: a boolean function that touches its operands only through three-way comparisons (big.Int.Cmp, bytes.Compare,
// strings.Compare, a Compare method) is decided exactly by the finite set of comparison outcomes it accepts. The
// function's SSA is executed concretely for every assignment of {-1, 0, 1} to its distinct comparisons (keyed by the
// origin leaves of receiver and argument), supporting only constants, integer/boolean operators, branches, phis and
// returns; anything else makes the function unsupported. The result is independent of how the tests are spelled
// (`-1 < c` / `c >= 0` / `c > -1`, if-chains or && / ||).

// CmpAcceptance returns the sorted comparison keys and, for every assignment (in the order of the keys, each of -1,0,1),
// whether fn returns true. ok=false when fn is not of the supported shape.
func CmpAcceptance(fn *ssa.Function) (keys []string, accepted map[string]bool, ok bool) {
	if fn == nil || len(fn.Blocks) == 0 {
		return nil, nil, false
	}
	cmpKey := map[*ssa.Call]string{}
	set := map[string]bool{}
	bad := false
	Instrs(fn, false, func(in ssa.Instruction) {
		c, isCall := in.(*ssa.Call)
		if !isCall {
			return
		}
		name := ""
		if o := Callee(c); o != nil {
			name = o.Name()
		}
		if name != "Cmp" && name != "Compare" {
			bad = true
			return
		}
		var ops []string
		if c.Call.IsInvoke() {
			ops = append(ops, OriginLeaves(c.Call.Value))
		}
		for _, a := range c.Call.Args {
			ops = append(ops, OriginLeaves(a))
		}
		k := name + "(" + strings.Join(ops, ", ") + ")"
		cmpKey[c] = k
		set[k] = true
	})
	if bad || len(set) == 0 || len(set) > 4 {
		return nil, nil, false
	}
	for k := range set {
		keys = append(keys, k)
	}
	sort.Strings(keys)
	accepted = map[string]bool{}
	n := 1
	for range keys {
		n *= 3
	}
	for a := 0; a < n; a++ {
		env := map[string]int64{}
		var label []string
		x := a
		for _, k := range keys {
			v := int64(x%3) - 1
			x /= 3
			env[k] = v
			label = append(label, itoa64(v))
		}
		res, good := evalCmpFn(fn, cmpKey, env)
		if !good {
			return nil, nil, false
		}
		accepted[strings.Join(label, ",")] = res
	}
	return keys, accepted, true
}

func itoa64(v int64) string {
	switch v {
	case -1:
		return "-1"
	case 0:
		return "0"
	case 1:
		return "1"
	}
	return "?"
}

type cval struct {
	isBool bool
	b      bool
	i      int64
}

func evalCmpFn(fn *ssa.Function, cmpKey map[*ssa.Call]string, env map[string]int64) (bool, bool) {
	vals := map[ssa.Value]cval{}
	get := func(v ssa.Value) (cval, bool) {
		if c, ok := v.(*ssa.Const); ok {
			if c.Value == nil {
				return cval{}, false
			}
			switch c.Value.Kind() {
			case constant.Bool:
				return cval{isBool: true, b: constant.BoolVal(c.Value)}, true
			case constant.Int:
				i, exact := constant.Int64Val(c.Value)
				return cval{i: i}, exact
			}
			return cval{}, false
		}
		x, ok := vals[v]
		return x, ok
	}
	b := fn.Blocks[0]
	var prev *ssa.BasicBlock
	for steps := 0; steps < 200; steps++ {
		for _, in := range b.Instrs {
			switch x := in.(type) {
			case *ssa.Phi:
				idx := -1
				for i, p := range b.Preds {
					if p == prev {
						idx = i
					}
				}
				if idx < 0 {
					return false, false
				}
				v, ok := get(x.Edges[idx])
				if !ok {
					return false, false
				}
				vals[x] = v
			case *ssa.Call:
				k, ok := cmpKey[x]
				if !ok {
					return false, false
				}
				vals[x] = cval{i: env[k]}
			case *ssa.UnOp:
				v, ok := get(x.X)
				if !ok {
					return false, false
				}
				switch x.Op {
				case token.NOT:
					vals[x] = cval{isBool: true, b: !v.b}
				case token.SUB:
					vals[x] = cval{i: -v.i}
				default:
					// loads of parameters' fields etc. only feed the comparisons: ignore
				}
			case *ssa.BinOp:
				l, ok1 := get(x.X)
				rr, ok2 := get(x.Y)
				if !ok1 || !ok2 {
					return false, false
				}
				switch x.Op {
				case token.LSS:
					vals[x] = cval{isBool: true, b: l.i < rr.i}
				case token.LEQ:
					vals[x] = cval{isBool: true, b: l.i <= rr.i}
				case token.GTR:
					vals[x] = cval{isBool: true, b: l.i > rr.i}
				case token.GEQ:
					vals[x] = cval{isBool: true, b: l.i >= rr.i}
				case token.EQL:
					if l.isBool {
						vals[x] = cval{isBool: true, b: l.b == rr.b}
					} else {
						vals[x] = cval{isBool: true, b: l.i == rr.i}
					}
				case token.NEQ:
					if l.isBool {
						vals[x] = cval{isBool: true, b: l.b != rr.b}
					} else {
						vals[x] = cval{isBool: true, b: l.i != rr.i}
					}
				default:
					return false, false
				}
			case *ssa.If:
				c, ok := get(x.Cond)
				if !ok {
					return false, false
				}
				prev = b
				if c.b {
					b = b.Succs[0]
				} else {
					b = b.Succs[1]
				}
			case *ssa.Jump:
				prev = b
				b = b.Succs[0]
			case *ssa.Return:
				if len(x.Results) != 1 {
					return false, false
				}
				v, ok := get(x.Results[0])
				if !ok || !v.isBool {
					return false, false
				}
				return v.b, true
			case *ssa.FieldAddr, *ssa.Field, *ssa.DebugRef:
				// operands of the comparisons
			default:
				return false, false
			}
		}
	}
	return false, false
}
