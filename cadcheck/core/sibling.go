package core

import (
	"fmt"
	"go/ast"
	"go/scanner"
	"go/token"
	"go/types"
	"os"
	"strconv"
	"strings"

	"golang.org/x/tools/go/packages"
)

// Tok is one normalised token of a function body.
type Tok struct {
	Kind string // "id", "int", "lit", "op"
	Text string
	Pos  token.Pos
}

// FamilyMember describes one member of a sibling family (e.g. Int16 of the signed native ints).
type FamilyMember struct {
	Tag    string   // "Int16"
	Native string   // "int16" (may be "")
	Width  int      // 16 (0 = none)
	Extra  []string // further member-specific identifier fragments, positionally comparable across members
}

// srcCache caches file contents.
var srcCache = map[string][]byte{}

func fileSrc(name string) []byte {
	if b, ok := srcCache[name]; ok {
		return b
	}
	b, _ := os.ReadFile(name)
	srcCache[name] = b
	return b
}

// FuncTokens tokenises the declaration (signature + body) of fd with locals alpha-renamed
// and package-level objects qualified; comments and formatting are ignored.
func (w *World) FuncTokens(fd *ast.FuncDecl, pkg *packages.Package) []Tok {
	tf := w.Fset.File(fd.Pos())
	if tf == nil {
		return nil
	}
	src := fileSrc(tf.Name())
	if src == nil {
		return nil
	}
	// idents by offset
	idents := map[int]*ast.Ident{}
	ast.Inspect(fd, func(n ast.Node) bool {
		if id, ok := n.(*ast.Ident); ok {
			idents[tf.Offset(id.Pos())] = id
		}
		return true
	})
	start, end := tf.Offset(fd.Pos()), tf.Offset(fd.End())
	// scan only the function's source
	fs := token.NewFileSet()
	f2 := fs.AddFile(tf.Name(), -1, end-start)
	var sc scanner.Scanner
	sc.Init(f2, src[start:end], nil, 0)
	locals := map[types.Object]string{}
	var out []Tok
	for {
		p, tk, lit := sc.Scan()
		if tk == token.EOF {
			break
		}
		off := start + f2.Offset(p)
		pos := tf.Pos(off)
		switch {
		case tk == token.SEMICOLON && lit == "\n":
			continue
		case tk == token.IDENT:
			id := idents[off]
			name := lit
			if id != nil {
				obj := pkg.TypesInfo.ObjectOf(id)
				switch o := obj.(type) {
				case *types.Var:
					if o.IsField() {
						name = "." + o.Name()
					} else if o.Parent() != nil && o.Parent() != o.Pkg().Scope() {
						// local variable / parameter / receiver
						n, ok := locals[o]
						if !ok {
							n = fmt.Sprintf("$%d", len(locals))
							locals[o] = n
						}
						name = n
					} else if o.Pkg() != nil {
						name = RelPkg(o.Pkg().Path()) + "." + o.Name()
					}
				case *types.Func:
					if sig, _ := o.Type().(*types.Signature); sig != nil && sig.Recv() != nil {
						name = "." + o.Name()
					} else if o.Pkg() != nil {
						name = RelPkg(o.Pkg().Path()) + "." + o.Name()
					}
				case *types.PkgName:
					name = "pkg:" + o.Imported().Path()
				case *types.TypeName, *types.Const:
					if o.Pkg() != nil && o.Parent() == o.Pkg().Scope() {
						name = RelPkg(o.Pkg().Path()) + "." + o.Name()
					} else if o.Pkg() != nil {
						n, ok := locals[o]
						if !ok {
							n = fmt.Sprintf("$%d", len(locals))
							locals[o] = n
						}
						name = n
					}
				case nil:
					// labels, struct literal keys resolved as fields elsewhere
				}
			}
			out = append(out, Tok{"id", name, pos})
		case tk == token.INT:
			out = append(out, Tok{"int", lit, pos})
		case tk.IsLiteral():
			out = append(out, Tok{"lit", lit, pos})
		default:
			out = append(out, Tok{"op", tk.String(), pos})
		}
	}
	// drop trailing commas before a closing bracket (formatting only)
	var res []Tok
	for i, t := range out {
		if t.Kind == "op" && t.Text == "," && i+1 < len(out) && out[i+1].Kind == "op" &&
			(out[i+1].Text == ")" || out[i+1].Text == "}" || out[i+1].Text == "]") {
			continue
		}
		res = append(res, t)
	}
	return res
}

// SibDiff is the first disagreement between two siblings.
type SibDiff struct {
	Index int
	A, B  Tok
	Why   string
}

func replaceTag(s string, m FamilyMember) string {
	frs := []string{m.Tag, m.Native}
	frs = append(frs, m.Extra...)
	for i, f := range frs {
		if f == "" {
			continue
		}
		s = strings.ReplaceAll(s, f, fmt.Sprintf("§%d", i))
	}
	return s
}

func parseInt(s string) (int64, bool) {
	v, err := strconv.ParseInt(strings.ReplaceAll(s, "_", ""), 0, 64)
	return v, err == nil
}

// CompareSiblings unifies the token streams of two family members: tokens must be equal, or be the
// two members' instances of the same family parameter (tag inside an identifier, native type, width,
// width/8, width-1, width*2, width/64).
func CompareSiblings(a, b []Tok, ma, mb FamilyMember) *SibDiff {
	n := len(a)
	if len(b) < n {
		n = len(b)
	}
	for i := 0; i < n; i++ {
		x, y := a[i], b[i]
		if x.Kind != y.Kind {
			return &SibDiff{i, x, y, "different token kinds"}
		}
		if x.Text == y.Text {
			// equal tokens; an integer literal that is the bit width of exactly one of the two members is a
			// copy-paste suspect (e.g. `shift < 32` in both the 32- and the 64-bit sibling)
			if x.Kind == "int" && ma.Width > 0 && mb.Width > 0 && ma.Width != mb.Width {
				if v, ok := parseInt(x.Text); ok && (v == int64(ma.Width)) != (v == int64(mb.Width)) {
					return &SibDiff{i, x, y, "the same literal is the bit width of one member but not of the other"}
				}
			}
			continue
		}
		switch x.Kind {
		case "id":
			if replaceTag(x.Text, ma) == replaceTag(y.Text, mb) && strings.Contains(replaceTag(x.Text, ma), "§") {
				continue
			}
			return &SibDiff{i, x, y, "identifiers differ beyond the family parameter"}
		case "int":
			va, oka := parseInt(x.Text)
			vb, okb := parseInt(y.Text)
			if oka && okb && ma.Width > 0 && mb.Width > 0 {
				wa, wb := int64(ma.Width), int64(mb.Width)
				if (va == wa && vb == wb) || (va == wa/8 && vb == wb/8) || (va == wa-1 && vb == wb-1) ||
					(va == wa*2 && vb == wb*2) || (va == wa/64 && vb == wb/64) || (va == wa/32 && vb == wb/32) ||
					(va == wa/8+1 && vb == wb/8+1) {
					continue
				}
			}
			return &SibDiff{i, x, y, "integer literals differ and are not the same function of the width"}
		default:
			// string literals may mention the tag
			if replaceTag(x.Text, ma) == replaceTag(y.Text, mb) {
				continue
			}
			return &SibDiff{i, x, y, "tokens differ"}
		}
	}
	if len(a) != len(b) {
		var x, y Tok
		if n < len(a) {
			x = a[n]
		}
		if n < len(b) {
			y = b[n]
		}
		return &SibDiff{n, x, y, fmt.Sprintf("different length (%d vs %d tokens)", len(a), len(b))}
	}
	return nil
}

// Family is a set of sibling members.
type Family struct {
	Name    string
	Members []FamilyMember
}

// SibGroup is one generalised function with its per-member declarations.
type SibGroup struct {
	Family *Family
	Key    string                 // generalised key, e.g. "interpreter.(§0Value).Plus"
	Decls  map[string]*types.Func // by member tag
}

// SiblingGroups discovers, for a family, all module functions whose key contains a member tag and that
// coincide after replacing the tag; groups with at least two members are returned sorted by key.
func (w *World) SiblingGroups(fam *Family) []*SibGroup {
	groups := map[string]*SibGroup{}
	for _, f := range w.ModFuncs() {
		key := FuncKey(f)
		for _, m := range fam.Members {
			if !containsTag(key, m.Tag, fam) {
				continue
			}
			gk := strings.ReplaceAll(key, m.Tag, "§0")
			g := groups[gk]
			if g == nil {
				g = &SibGroup{Family: fam, Key: gk, Decls: map[string]*types.Func{}}
				groups[gk] = g
			}
			if _, dup := g.Decls[m.Tag]; !dup {
				g.Decls[m.Tag] = f
			}
		}
	}
	var out []*SibGroup
	for _, g := range groups {
		if len(g.Decls) >= 2 {
			out = append(out, g)
		}
	}
	sortGroups(out)
	return out
}

func sortGroups(gs []*SibGroup) {
	for i := 1; i < len(gs); i++ {
		for j := i; j > 0 && gs[j].Key < gs[j-1].Key; j-- {
			gs[j], gs[j-1] = gs[j-1], gs[j]
		}
	}
}

// containsTag reports whether key contains tag as a member name and not as part of a longer
// member name of any family spelled with a prefix (Int8 inside UInt8, Int1 inside Int128 …).
func containsTag(key, tag string, fam *Family) bool {
	idx := 0
	for {
		i := strings.Index(key[idx:], tag)
		if i < 0 {
			return false
		}
		i += idx
		end := i + len(tag)
		okBefore := i == 0 || !(key[i-1] == 'U' || key[i-1] == 'u')
		okAfter := end >= len(key) || !(key[end] >= '0' && key[end] <= '9')
		if okBefore && okAfter {
			return true
		}
		idx = end
		if idx >= len(key) {
			return false
		}
	}
}

// Partition groups the members of a sibling group into classes of mutually unifiable declarations.
// It returns the canonical partition string ("A,B|C") and, for every member outside the largest class,
// the first difference against a representative of the largest class.
func (w *World) Partition(g *SibGroup) (string, map[string]*SibDiff, map[string]token.Pos) {
	mem := map[string]FamilyMember{}
	for _, m := range g.Family.Members {
		mem[m.Tag] = m
	}
	toks := map[string][]Tok{}
	pos := map[string]token.Pos{}
	var tags []string
	for _, m := range g.Family.Members {
		f := g.Decls[m.Tag]
		if f == nil {
			continue
		}
		fd, pkg := w.Decl(f)
		if fd == nil {
			continue
		}
		toks[m.Tag] = w.FuncTokens(fd, pkg)
		pos[m.Tag] = fd.Pos()
		tags = append(tags, m.Tag)
	}
	var classes [][]string
	sem := map[string]*string{}
	for _, t := range tags {
		placed := false
		for ci, c := range classes {
			if CompareSiblings(toks[c[0]], toks[t], mem[c[0]], mem[t]) == nil || w.semEqual(g, c[0], t, mem, sem) {
				classes[ci] = append(classes[ci], t)
				placed = true
				break
			}
		}
		if !placed {
			classes = append(classes, []string{t})
		}
	}
	// canonical string
	var cs []string
	big := 0
	for i, c := range classes {
		sortStrings(c)
		cs = append(cs, strings.Join(c, ","))
		if len(c) > len(classes[big]) {
			big = i
		}
	}
	sortStrings(cs)
	diffs := map[string]*SibDiff{}
	for i, c := range classes {
		if i == big {
			continue
		}
		for _, t := range c {
			diffs[t] = CompareSiblings(toks[classes[big][0]], toks[t], mem[classes[big][0]], mem[t])
		}
	}
	return strings.Join(cs, "|"), diffs, pos
}

func sortStrings(a []string) {
	for i := 1; i < len(a); i++ {
		for j := i; j > 0 && a[j] < a[j-1]; j-- {
			a[j], a[j-1] = a[j-1], a[j]
		}
	}
}

// semEqual is the fallback of the token comparison: the two members agree when their semantic signatures (SEMSIG)
// are equal. Signatures are computed lazily and cached per member in sem (nil entry = not computable).
func (w *World) semEqual(g *SibGroup, a, b string, mem map[string]FamilyMember, sem map[string]*string) bool {
	get := func(t string) *string {
		if s, ok := sem[t]; ok {
			return s
		}
		var res *string
		if f := g.Decls[t]; f != nil {
			if s, ok := w.SemanticSig(f, mem[t]); ok {
				res = &s
			}
		}
		sem[t] = res
		return res
	}
	sa, sb := get(a), get(b)
	if os.Getenv("CADCHECK_DEV") != "" && sa != nil && sb != nil && *sa != *sb {
		fmt.Fprintf(os.Stderr, "SEMSIG %s %s:\n%s\n--- %s:\n%s\n", g.Key, a, *sa, b, *sb)
	}
	return sa != nil && sb != nil && *sa == *sb
}
