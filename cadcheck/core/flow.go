package core

import (
	"go/token"
	"go/types"

	"golang.org/x/tools/go/ssa"
)

var errorType = types.Universe.Lookup("error").Type()

// IsErrorType reports whether t is the predeclared error interface.
func IsErrorType(t types.Type) bool { return types.Identical(t, errorType) }

// ErrResults returns the SSA values holding the error result(s) of a call.
func ErrResults(c ssa.CallInstruction) []ssa.Value {
	v := c.Value()
	if v == nil {
		return nil
	}
	sig := c.Common().Signature()
	res := sig.Results()
	if res.Len() == 1 {
		if IsErrorType(res.At(0).Type()) {
			return []ssa.Value{v}
		}
		return nil
	}
	var out []ssa.Value
	if v.Referrers() == nil {
		return nil
	}
	for _, ref := range *v.Referrers() {
		if ex, ok := ref.(*ssa.Extract); ok && IsErrorType(res.At(ex.Index).Type()) {
			out = append(out, ex)
		}
	}
	return out
}

// ReturnsError reports whether the call's signature has an error result.
func ReturnsError(c ssa.CallInstruction) bool {
	res := c.Common().Signature().Results()
	for i := 0; i < res.Len(); i++ {
		if IsErrorType(res.At(i).Type()) {
			return true
		}
	}
	return false
}

// Origin looks through loads of local cells: for `*cell` it returns the value
// most recently stored to the cell on the straight-line path leading to the
// load (same block, or a chain of unique predecessors). Phi nodes and other
// values are returned unchanged.
func Origin(v ssa.Value) ssa.Value {
	for i := 0; i < 8; i++ {
		v = Unwrap(v)
		u, ok := v.(*ssa.UnOp)
		if !ok || u.Op != token.MUL {
			return v
		}
		st := lastStoreBefore(u.X, u)
		if st == nil {
			return v
		}
		v = st.Val
	}
	return v
}

func lastStoreBefore(addr ssa.Value, at ssa.Instruction) *ssa.Store {
	b := at.Block()
	idx := instrIndex(at)
	for hops := 0; hops < 16 && b != nil; hops++ {
		for i := idx - 1; i >= 0; i-- {
			if st, ok := b.Instrs[i].(*ssa.Store); ok && st.Addr == addr {
				return st
			}
		}
		if len(b.Preds) != 1 {
			return nil
		}
		b = b.Preds[0]
		idx = len(b.Instrs)
	}
	return nil
}

// NilTest describes an `x == nil` / `x != nil` branch.
type NilTest struct {
	If *ssa.If
	X  ssa.Value // origin of the tested value
	// NilSucc is the successor taken when X is nil, NonNilSucc otherwise.
	NilSucc, NonNilSucc *ssa.BasicBlock
}

// NilTests lists the nil-comparisons that end blocks of fn.
func NilTests(fn *ssa.Function) []NilTest {
	var out []NilTest
	for _, b := range fn.Blocks {
		if len(b.Instrs) == 0 {
			continue
		}
		iff, ok := b.Instrs[len(b.Instrs)-1].(*ssa.If)
		if !ok {
			continue
		}
		bo, ok := iff.Cond.(*ssa.BinOp)
		if !ok || (bo.Op != token.NEQ && bo.Op != token.EQL) {
			continue
		}
		var x ssa.Value
		if isNilConst(bo.Y) {
			x = bo.X
		} else if isNilConst(bo.X) {
			x = bo.Y
		} else {
			continue
		}
		t := NilTest{If: iff, X: Origin(x)}
		if bo.Op == token.NEQ {
			t.NonNilSucc, t.NilSucc = b.Succs[0], b.Succs[1]
		} else {
			t.NilSucc, t.NonNilSucc = b.Succs[0], b.Succs[1]
		}
		out = append(out, t)
	}
	return out
}

func isNilConst(v ssa.Value) bool {
	c, ok := Unwrap(v).(*ssa.Const)
	return ok && c.IsNil()
}

// OnlyIfNil reports whether target executes only on paths where value x (an
// error result) was compared with nil and found nil: there is a nil-test on x
// whose nil edge is the only way to reach target.
func OnlyIfNil(target ssa.Instruction, x ssa.Value) bool {
	for _, t := range NilTests(target.Parent()) {
		if t.X != x {
			continue
		}
		if t.NilSucc == t.NonNilSucc {
			continue
		}
		if OnlyViaEdge(target, t.If.Block(), t.NilSucc) {
			return true
		}
	}
	return false
}

// UncheckedErrorsBefore returns the error-returning calls of target's function
// that are executed before target on every path (dominate it) and whose error
// value is not known to be nil at target.
func UncheckedErrorsBefore(target ssa.Instruction) []ssa.CallInstruction {
	var out []ssa.CallInstruction
	fn := target.Parent()
	for _, c := range Calls(fn, false) {
		if c == target || !ReturnsError(c) {
			continue
		}
		if _, isDefer := c.(*ssa.Defer); isDefer {
			continue
		}
		if !Dominates(c, target) {
			continue
		}
		errs := ErrResults(c)
		if len(errs) == 0 {
			// error result dropped entirely
			out = append(out, c)
			continue
		}
		ok := false
		for _, e := range errs {
			if OnlyIfNil(target, e) {
				ok = true
			}
		}
		if !ok {
			out = append(out, c)
		}
	}
	return out
}

// IsParamValue reports whether value a is (a copy of) parameter p of an enclosing function: p itself, a load of the
// cell p was spilled to, or a (load of a) free variable bound to either; the cell must have no other store.
func IsParamValue(a ssa.Value, p *ssa.Parameter) bool {
	a = Unwrap(a)
	if a == p {
		return true
	}
	cellHoldsParam := func(cell ssa.Value) bool {
		al, ok := cell.(*ssa.Alloc)
		if !ok {
			return false
		}
		stores, okStore := 0, false
		for _, c := range cellAliases(al) {
			if refs := c.Referrers(); refs != nil {
				for _, ref := range *refs {
					if st, ok := ref.(*ssa.Store); ok && st.Addr == c {
						stores++
						if st.Val == p {
							okStore = true
						}
					}
				}
			}
		}
		return okStore && stores == 1
	}
	resolveFV := func(fv *ssa.FreeVar) ssa.Value {
		fn := fv.Parent()
		for i, x := range fn.FreeVars {
			if x != fv || fn.Parent() == nil {
				continue
			}
			var b ssa.Value
			Instrs(fn.Parent(), false, func(in ssa.Instruction) {
				if mc, ok := in.(*ssa.MakeClosure); ok && mc.Fn == fn && i < len(mc.Bindings) {
					b = mc.Bindings[i]
				}
			})
			return b
		}
		return nil
	}
	for hops := 0; hops < 4; hops++ {
		switch x := a.(type) {
		case *ssa.FreeVar:
			b := resolveFV(x)
			if b == nil {
				return false
			}
			if b == p {
				return true
			}
			a = b
		case *ssa.UnOp:
			if x.Op != token.MUL {
				return false
			}
			cell := x.X
			if fv, ok := cell.(*ssa.FreeVar); ok {
				cell = resolveFV(fv)
				for h := 0; h < 3; h++ {
					if fv2, ok := cell.(*ssa.FreeVar); ok {
						cell = resolveFV(fv2)
					}
				}
			}
			if cell == nil {
				return false
			}
			return cellHoldsParam(cell)
		default:
			return false
		}
	}
	return false
}
