package core

import (
	"go/token"
	"go/types"
	"sort"

	"golang.org/x/tools/go/ssa"
)

// Callee resolves the called function object of a call instruction:
// the static callee (generic origin), or the interface method for invoke calls.
// Calls of closures/function values return nil.
func Callee(c ssa.CallInstruction) *types.Func {
	cc := c.Common()
	if cc.IsInvoke() {
		return cc.Method
	}
	if f := cc.StaticCallee(); f != nil {
		for f.Origin() != nil && f.Origin() != f {
			f = f.Origin()
		}
		if o, ok := f.Object().(*types.Func); ok {
			return o
		}
		// bound-method / thunk wrappers
		if f.Synthetic != "" {
			if o, ok := f.Object().(*types.Func); ok {
				return o
			}
		}
	}
	return nil
}

// StaticFn returns the SSA function statically called (nil for invoke / dynamic).
func StaticFn(c ssa.CallInstruction) *ssa.Function {
	return c.Common().StaticCallee()
}

// WithAnon returns fn and all function literals nested in it.
func WithAnon(fn *ssa.Function) []*ssa.Function {
	if fn == nil {
		return nil
	}
	out := []*ssa.Function{fn}
	for _, a := range fn.AnonFuncs {
		out = append(out, WithAnon(a)...)
	}
	return out
}

// Instrs calls f for every instruction of fn (and nested literals when anon).
func Instrs(fn *ssa.Function, anon bool, f func(ssa.Instruction)) {
	fns := []*ssa.Function{fn}
	if anon {
		fns = WithAnon(fn)
	}
	for _, g := range fns {
		for _, b := range g.Blocks {
			for _, in := range b.Instrs {
				f(in)
			}
		}
	}
}

// Calls lists the call instructions (call, go, defer) of fn.
func Calls(fn *ssa.Function, anon bool) []ssa.CallInstruction {
	var out []ssa.CallInstruction
	Instrs(fn, anon, func(in ssa.Instruction) {
		if c, ok := in.(ssa.CallInstruction); ok {
			out = append(out, c)
		}
	})
	return out
}

// CallsTo lists the call instructions of fn whose resolved callee satisfies pred.
func CallsTo(fn *ssa.Function, anon bool, pred func(*types.Func) bool) []ssa.CallInstruction {
	var out []ssa.CallInstruction
	for _, c := range Calls(fn, anon) {
		if o := Callee(c); o != nil && pred(o) {
			out = append(out, c)
		}
	}
	return out
}

// Is returns a predicate matching exactly the given function objects (by origin).
func Is(fs ...*types.Func) func(*types.Func) bool {
	set := map[*types.Func]bool{}
	for _, f := range fs {
		if f != nil {
			set[f.Origin()] = true
		}
	}
	return func(o *types.Func) bool { return o != nil && set[o.Origin()] }
}

// NamedCallee matches callee by package path (full), receiver type name ("" = function) and name.
func NamedCallee(pkgPath, recv, name string) func(*types.Func) bool {
	return func(o *types.Func) bool {
		if o == nil || o.Name() != name || o.Pkg() == nil || o.Pkg().Path() != pkgPath {
			return false
		}
		return RecvName(o) == recv
	}
}

// RecvName returns the receiver's named type name of a method ("" for functions).
func RecvName(o *types.Func) string {
	sig, _ := o.Type().(*types.Signature)
	if sig == nil || sig.Recv() == nil {
		return ""
	}
	t := sig.Recv().Type()
	if p, ok := t.(*types.Pointer); ok {
		t = p.Elem()
	}
	if n, ok := t.(*types.Named); ok {
		return n.Obj().Name()
	}
	return t.String()
}

// ---------------------------------------------------------------------------
// control-flow helpers

// instrIndex returns the index of in within its block.
func instrIndex(in ssa.Instruction) int {
	for i, x := range in.Block().Instrs {
		if x == in {
			return i
		}
	}
	return -1
}

// Dominates reports whether instruction a is executed before b on every path
// from the function entry to b (same function).
func Dominates(a, b ssa.Instruction) bool {
	if a.Parent() != b.Parent() {
		return false
	}
	if a.Block() == b.Block() {
		return instrIndex(a) < instrIndex(b)
	}
	return a.Block().Dominates(b.Block())
}

// Edge is a CFG edge.
type Edge struct{ From, To *ssa.BasicBlock }

// ReachOpts configures Reachable.
type ReachOpts struct {
	// Barrier instructions stop the walk (the instruction itself is not passed).
	Barrier func(ssa.Instruction) bool
	// CutEdge removes CFG edges.
	CutEdge func(from, to *ssa.BasicBlock) bool
}

// Reachable reports whether target can be reached from the entry of its
// function without executing a barrier instruction or taking a cut edge.
func Reachable(target ssa.Instruction, o ReachOpts) bool {
	fn := target.Parent()
	if len(fn.Blocks) == 0 {
		return false
	}
	seen := map[*ssa.BasicBlock]bool{}
	var walk func(b *ssa.BasicBlock) bool
	walk = func(b *ssa.BasicBlock) bool {
		if seen[b] {
			return false
		}
		seen[b] = true
		for _, in := range b.Instrs {
			if in == target {
				return true
			}
			if o.Barrier != nil && o.Barrier(in) {
				return false
			}
		}
		for _, s := range b.Succs {
			if o.CutEdge != nil && o.CutEdge(b, s) {
				continue
			}
			if walk(s) {
				return true
			}
		}
		return false
	}
	return walk(fn.Blocks[0])
}

// MustPass reports whether every path from entry to target executes an
// instruction satisfying guard before it.
func MustPass(target ssa.Instruction, guard func(ssa.Instruction) bool) bool {
	return !Reachable(target, ReachOpts{Barrier: guard})
}

// Returns lists the return instructions of fn.
func Returns(fn *ssa.Function) []*ssa.Return {
	var out []*ssa.Return
	for _, b := range fn.Blocks {
		for _, in := range b.Instrs {
			if r, ok := in.(*ssa.Return); ok {
				out = append(out, r)
			}
		}
	}
	return out
}

// Terminates reports whether block b (transitively) cannot reach a normal
// return: every path from it ends in panic (or an infinite loop).
func Terminates(b *ssa.BasicBlock) bool {
	seen := map[*ssa.BasicBlock]bool{}
	var walk func(*ssa.BasicBlock) bool
	walk = func(x *ssa.BasicBlock) bool { // true if a Return is reachable
		if seen[x] {
			return false
		}
		seen[x] = true
		for _, in := range x.Instrs {
			if _, ok := in.(*ssa.Return); ok {
				return true
			}
		}
		for _, s := range x.Succs {
			if walk(s) {
				return true
			}
		}
		return false
	}
	return !walk(b)
}

// OnlyViaEdge reports whether target is reachable from entry only through the
// edge (from -> to): cutting the edge makes it unreachable.
func OnlyViaEdge(target ssa.Instruction, from, to *ssa.BasicBlock) bool {
	if !Reachable(target, ReachOpts{}) {
		return false
	}
	return !Reachable(target, ReachOpts{CutEdge: func(f, t *ssa.BasicBlock) bool { return f == from && t == to }})
}

// Unwrap strips MakeInterface, ChangeType, ChangeInterface and Convert wrappers.
func Unwrap(v ssa.Value) ssa.Value {
	for {
		switch x := v.(type) {
		case *ssa.MakeInterface:
			v = x.X
		case *ssa.ChangeType:
			v = x.X
		case *ssa.ChangeInterface:
			v = x.X
		default:
			return v
		}
	}
}

// PanicSite describes one panic instruction and the static type of its operand.
type PanicSite struct {
	Instr *ssa.Panic
	Fn    *ssa.Function
	// Type is the concrete static type thrown (after unwrapping interface conversion);
	// an interface type when the value is propagated (error variable, recover() result…).
	Type types.Type
	// Val is the unwrapped operand.
	Val ssa.Value
}

// Panics lists the panic instructions of fn (and its closures).
func Panics(fn *ssa.Function, anon bool) []PanicSite {
	var out []PanicSite
	Instrs(fn, anon, func(in ssa.Instruction) {
		if p, ok := in.(*ssa.Panic); ok {
			v := Unwrap(p.X)
			out = append(out, PanicSite{Instr: p, Fn: in.Parent(), Type: v.Type(), Val: v})
		}
	})
	return out
}

// TypeName returns the (pointer-stripped) named type name and package path of t.
func TypeName(t types.Type) (pkg, name string) {
	if p, ok := t.(*types.Pointer); ok {
		t = p.Elem()
	}
	if n, ok := t.(*types.Named); ok {
		if n.Obj().Pkg() != nil {
			pkg = n.Obj().Pkg().Path()
		}
		return pkg, n.Obj().Name()
	}
	return "", t.String()
}

// ReachFuncs returns the function objects reachable from fn through static
// calls (closures inlined) up to depth, restricted to module functions.
// Interface (invoke) callees are included as leaves.
func (w *World) ReachFuncs(fn *ssa.Function, depth int) map[*types.Func]int {
	out := map[*types.Func]int{}
	type item struct {
		f *ssa.Function
		d int
	}
	seen := map[*ssa.Function]bool{fn: true}
	q := []item{{fn, 0}}
	for len(q) > 0 {
		it := q[0]
		q = q[1:]
		for _, c := range Calls(it.f, true) {
			o := Callee(c)
			if o == nil {
				continue
			}
			if _, ok := out[o]; !ok {
				out[o] = it.d + 1
			}
			if it.d+1 >= depth {
				continue
			}
			sf := StaticFn(c)
			if sf == nil || !InModFn(sf) || len(sf.Blocks) == 0 {
				continue
			}
			if !seen[sf] {
				seen[sf] = true
				q = append(q, item{sf, it.d + 1})
			}
		}
	}
	return out
}

// CallersOf returns all module functions (declared; closures attributed to
// their enclosing declaration) containing a call that resolves to target
// (static callee or interface method object).
func (w *World) CallersOf(pred func(*types.Func) bool) map[string][]token.Pos {
	out := map[string][]token.Pos{}
	for fn := range allSrcFuncs(w) {
		if fn.Parent() != nil {
			continue
		}
		for _, c := range CallsTo(fn, true, pred) {
			k := SSAKey(fn)
			out[k] = append(out[k], c.Pos())
		}
	}
	return out
}

var srcFuncsCache = map[*World]map[*ssa.Function]bool{}

// allSrcFuncs enumerates the source-level (non-synthetic) functions of module packages.
func allSrcFuncs(w *World) map[*ssa.Function]bool {
	if m, ok := srcFuncsCache[w]; ok {
		return m
	}
	m := map[*ssa.Function]bool{}
	// every function and method declared in the module's syntax (generic origins included), plus package initialisers
	for _, f := range w.ModFuncs() {
		if fn := w.Prog.FuncValue(f); fn != nil && len(fn.Blocks) > 0 {
			m[fn] = true
		}
	}
	for _, p := range w.Prog.AllPackages() {
		if !InMod(p.Pkg.Path()) {
			continue
		}
		if init := p.Func("init"); init != nil {
			m[init] = true
		}
	}
	srcFuncsCache[w] = m
	return m
}

// SrcFuncs returns the declared source functions of the module, sorted by key.
func (w *World) SrcFuncs() []*ssa.Function {
	m := allSrcFuncs(w)
	out := make([]*ssa.Function, 0, len(m))
	for f := range m {
		out = append(out, f)
	}
	sort.Slice(out, func(i, j int) bool {
		a, b := SSAKey(out[i]), SSAKey(out[j])
		if a != b {
			return a < b
		}
		return out[i].Pos() < out[j].Pos()
	})
	return out
}

// SrcFuncsIn returns declared source functions of one module-relative package.
func (w *World) SrcFuncsIn(rel string) []*ssa.Function {
	var out []*ssa.Function
	path := Mod
	if rel != "" && rel != "." {
		path = Mod + "/" + rel
	}
	for _, f := range w.SrcFuncs() {
		if f.Pkg != nil && f.Pkg.Pkg.Path() == path {
			out = append(out, f)
		}
	}
	return out
}

// RecvName0 returns the receiver type name of an SSA method ("" for functions).
func RecvName0(fn *ssa.Function) string {
	if o, ok := fn.Object().(*types.Func); ok && o != nil {
		return RecvName(o)
	}
	return ""
}

// ReachableAfter reports whether instruction b can execute after instruction a (same function).
func ReachableAfter(a, b ssa.Instruction) bool {
	if a.Parent() != b.Parent() {
		return false
	}
	if a.Block() == b.Block() && instrIndex(a) < instrIndex(b) {
		return true
	}
	seen := map[*ssa.BasicBlock]bool{}
	var walk func(x *ssa.BasicBlock) bool
	walk = func(x *ssa.BasicBlock) bool {
		if seen[x] {
			return false
		}
		seen[x] = true
		if x == b.Block() {
			return true
		}
		for _, s := range x.Succs {
			if walk(s) {
				return true
			}
		}
		return false
	}
	for _, s := range a.Block().Succs {
		if walk(s) {
			return true
		}
	}
	return false
}

// InModFn reports whether an SSA function (or the generic it instantiates) belongs to the analysed module.
func InModFn(f *ssa.Function) bool {
	if f == nil {
		return false
	}
	if f.Pkg != nil {
		return InMod(f.Pkg.Pkg.Path())
	}
	if o := f.Origin(); o != nil && o.Pkg != nil {
		return InMod(o.Pkg.Pkg.Path())
	}
	return false
}
