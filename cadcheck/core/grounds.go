package core

import (
	"go/token"
	"go/types"
	"sort"
	"strings"

	"golang.org/x/tools/go/ssa"
)

// GROUNDS engine: the acceptance grounds of a boolean decision function. Every way the function can return true is
// rendered as the set of branch outcomes that lead to it (plus, for a computed result, the expression returned), each
// outcome described by operator / callee name and the origin leaves of its operands — not by text or position.

// CondDesc describes one branch outcome.
func CondDesc(cond ssa.Value, val bool) string {
	pol := "+"
	if !val {
		pol = "-"
	}
	return pol + ValueDesc(cond)
}

// ValueDesc describes a boolean-valued SSA value.
func ValueDesc(v ssa.Value) string {
	switch x := v.(type) {
	case *ssa.UnOp:
		if x.Op == token.NOT {
			return "!" + ValueDesc(x.X)
		}
	case *ssa.Call:
		name := "call"
		if o := Callee(x); o != nil {
			name = o.Name()
		} else if b, ok := x.Call.Value.(*ssa.Builtin); ok {
			name = b.Name()
		}
		return name + OriginLeavesVia(x)
	case *ssa.Extract:
		switch t := x.Tuple.(type) {
		case *ssa.TypeAssert:
			if x.Index == 1 {
				return "is(" + shortType(t.AssertedType) + ")" + OriginLeavesVia(t.X)
			}
		case *ssa.Lookup:
			return "lookup#" + itoa(x.Index) + OriginLeavesVia(t.X) + "[" + OriginLeavesVia(t.Index) + "]"
		case *ssa.Call:
			name := "call"
			if o := Callee(t); o != nil {
				name = o.Name()
			}
			return name + "#" + itoa(x.Index) + OriginLeavesVia(t)
		}
	case *ssa.Lookup:
		return "lookup" + OriginLeavesVia(x.X) + "[" + OriginLeavesVia(x.Index) + "]"
	case *ssa.BinOp:
		return x.Op.String() + "(" + OriginLeavesVia(x.X) + "," + OriginLeavesVia(x.Y) + ")"
	case *ssa.Const:
		if x.Value != nil {
			return "const:" + x.Value.ExactString()
		}
	case *ssa.Phi:
		var es []string
		for _, e := range x.Edges {
			es = append(es, ValueDesc(e))
		}
		sort.Strings(es)
		return "phi(" + strings.Join(es, "|") + ")"
	}
	return "value" + OriginLeavesVia(v)
}

// condsAt: branch outcomes under which control reaches the end of block b and leaves it towards `to` (to may be nil).
func condsAt(b *ssa.BasicBlock, to *ssa.BasicBlock) []string {
	var out []string
	if len(b.Instrs) == 0 {
		return out
	}
	last := b.Instrs[len(b.Instrs)-1]
	for _, a := range ControllingConds(last) {
		if a.Var.Call != nil {
			out = append(out, CondDesc(a.Var.Call, a.Val))
		}
	}
	if iff, ok := last.(*ssa.If); ok && to != nil && b.Succs[0] != b.Succs[1] {
		cond := iff.Cond
		val := b.Succs[0] == to
		for {
			if u, ok := cond.(*ssa.UnOp); ok && u.Op == token.NOT {
				cond, val = u.X, !val
				continue
			}
			break
		}
		out = append(out, CondDesc(cond, val))
	}
	return out
}

// AcceptGrounds lists, for a function with a single boolean result, every way it can return true (or a computed value).
func AcceptGrounds(fn *ssa.Function) (grounds []string, ok bool) {
	res := fn.Signature.Results()
	if res.Len() != 1 {
		return nil, false
	}
	if b, isB := res.At(0).Type().Underlying().(*types.Basic); !isB || b.Kind() != types.Bool {
		return nil, false
	}
	mk := func(conds []string, result string) {
		m := map[string]bool{}
		for _, c := range conds {
			m[c] = true
		}
		if result != "" {
			m["=>"+result] = true
		}
		ks := make([]string, 0, len(m))
		for k := range m {
			ks = append(ks, k)
		}
		sort.Strings(ks)
		grounds = append(grounds, strings.Join(ks, " ∧ "))
	}
	var expand func(v ssa.Value, conds []string, depth int)
	expand = func(v ssa.Value, conds []string, depth int) {
		switch x := v.(type) {
		case *ssa.Const:
			if x.Value != nil && x.Value.ExactString() == "true" {
				mk(conds, "")
			}
			return
		case *ssa.Phi:
			if depth < 6 {
				for i, e := range x.Edges {
					p := x.Block().Preds[i]
					expand(e, append(append([]string{}, condsAt(p, x.Block())...), nil...), depth+1)
				}
				return
			}
		}
		mk(conds, ValueDesc(v))
	}
	for _, ret := range Returns(fn) {
		if len(ret.Results) != 1 {
			continue
		}
		var conds []string
		for _, a := range ControllingConds(ret) {
			if a.Var.Call != nil {
				conds = append(conds, CondDesc(a.Var.Call, a.Val))
			}
		}
		v := ret.Results[0]
		if phi, isPhi := v.(*ssa.Phi); isPhi && phi.Block() == ret.Block() {
			expand(v, nil, 0)
		} else {
			expand(v, conds, 0)
		}
	}
	sort.Strings(grounds)
	return grounds, true
}

// GroundCovers reports whether ground c (current) keeps every conjunct of ground p (pinned).
func GroundCovers(c, p string) bool {
	have := map[string]bool{}
	for _, k := range strings.Split(c, " ∧ ") {
		have[k] = true
	}
	for _, k := range strings.Split(p, " ∧ ") {
		if k == "" || have[k] {
			continue
		}
		// negative outcomes of value tests are artefacts of the order in which independent cases are tried;
		// negative type tests define the default arm of a type switch and are kept
		if strings.HasPrefix(k, "-") && !strings.HasPrefix(k, "-is(") {
			continue
		}
		return false
	}
	return true
}
