package core

import (
	"go/token"
	"go/types"
	"sort"
	"strings"

	"golang.org/x/tools/go/ssa"
)

// GROUNDS engine: the acceptance grounds of a boolean decision function. Every way the function can return true is
// rendered as the set of branch outcomes that lead to it (plus, for a computed result, the expression returned), each
// outcome described by operator / callee name and the origin leaves of its operands — not by text or position.

// CondDesc describes one branch outcome.
func CondDesc(cond ssa.Value, val bool) string {
	pol := "+"
	if !val {
		pol = "-"
	}
	return pol + ValueDesc(cond)
}

// ValueDesc describes a boolean-valued SSA value.
func ValueDesc(v ssa.Value) string {
	switch x := v.(type) {
	case *ssa.UnOp:
		if x.Op == token.NOT {
			return "!" + ValueDesc(x.X)
		}
	case *ssa.Call:
		name := "call"
		if o := Callee(x); o != nil {
			name = o.Name()
		} else if b, ok := x.Call.Value.(*ssa.Builtin); ok {
			name = b.Name()
		}
		return name + OriginLeavesVia(x)
	case *ssa.Extract:
		switch t := x.Tuple.(type) {
		case *ssa.TypeAssert:
			if x.Index == 1 {
				return "is(" + shortType(t.AssertedType) + ")" + OriginLeavesVia(t.X)
			}
		case *ssa.Lookup:
			return "lookup#" + itoa(x.Index) + OriginLeavesVia(t.X) + "[" + OriginLeavesVia(t.Index) + "]"
		case *ssa.Call:
			name := "call"
			if o := Callee(t); o != nil {
				name = o.Name()
			}
			return name + "#" + itoa(x.Index) + OriginLeavesVia(t)
		}
	case *ssa.Lookup:
		return "lookup" + OriginLeavesVia(x.X) + "[" + OriginLeavesVia(x.Index) + "]"
	case *ssa.BinOp:
		return x.Op.String() + "(" + OriginLeavesVia(x.X) + "," + OriginLeavesVia(x.Y) + ")"
	case *ssa.Const:
		if x.Value != nil {
			return "const:" + x.Value.ExactString()
		}
	case *ssa.Phi:
		var es []string
		for _, e := range x.Edges {
			es = append(es, ValueDesc(e))
		}
		sort.Strings(es)
		return "phi(" + strings.Join(es, "|") + ")"
	}
	return "value" + OriginLeavesVia(v)
}

// condsAt: branch outcomes under which control reaches the end of block b and leaves it towards `to` (to may be nil).
func condsAt(b *ssa.BasicBlock, to *ssa.BasicBlock) []string {
	var out []string
	if len(b.Instrs) == 0 {
		return out
	}
	last := b.Instrs[len(b.Instrs)-1]
	for _, a := range ControllingConds(last) {
		if a.Var.Call != nil {
			out = append(out, CondDesc(a.Var.Call, a.Val))
		}
	}
	if iff, ok := last.(*ssa.If); ok && to != nil && b.Succs[0] != b.Succs[1] {
		cond := iff.Cond
		val := b.Succs[0] == to
		for {
			if u, ok := cond.(*ssa.UnOp); ok && u.Op == token.NOT {
				cond, val = u.X, !val
				continue
			}
			break
		}
		out = append(out, CondDesc(cond, val))
	}
	return out
}

// AcceptGrounds lists, for a function with a single boolean result, every way it can return true (or a computed value).
func AcceptGrounds(fn *ssa.Function) (grounds []string, ok bool) {
	res := fn.Signature.Results()
	if res.Len() != 1 {
		return nil, false
	}
	if b, isB := res.At(0).Type().Underlying().(*types.Basic); !isB || b.Kind() != types.Bool {
		return nil, false
	}
	mk := func(conds []string, result string) {
		m := map[string]bool{}
		for _, c := range conds {
			m[c] = true
		}
		if result != "" {
			m["=>"+result] = true
		}
		ks := make([]string, 0, len(m))
		for k := range m {
			ks = append(ks, k)
		}
		sort.Strings(ks)
		grounds = append(grounds, strings.Join(ks, " ∧ "))
	}
	var expand func(v ssa.Value, conds []string, depth int)
	expand = func(v ssa.Value, conds []string, depth int) {
		switch x := v.(type) {
		case *ssa.Const:
			if x.Value != nil && x.Value.ExactString() == "true" {
				mk(conds, "")
			}
			return
		case *ssa.Phi:
			if depth < 6 {
				for i, e := range x.Edges {
					p := x.Block().Preds[i]
					expand(e, append(append([]string{}, condsAt(p, x.Block())...), nil...), depth+1)
				}
				return
			}
		}
		mk(conds, ValueDesc(v))
	}
	for _, ret := range Returns(fn) {
		if len(ret.Results) != 1 {
			continue
		}
		var conds []string
		for _, a := range ControllingConds(ret) {
			if a.Var.Call != nil {
				conds = append(conds, CondDesc(a.Var.Call, a.Val))
			}
		}
		v := ret.Results[0]
		if phi, isPhi := v.(*ssa.Phi); isPhi && phi.Block() == ret.Block() {
			expand(v, nil, 0)
		} else {
			expand(v, conds, 0)
		}
	}
	sort.Strings(grounds)
	return grounds, true
}

// GroundCovers reports whether ground c (current) keeps every conjunct of ground p (pinned).
func GroundCovers(c, p string) bool {
	have := map[string]bool{}
	for _, k := range strings.Split(c, " ∧ ") {
		have[k] = true
	}
	for _, k := range strings.Split(p, " ∧ ") {
		if k == "" || have[k] {
			continue
		}
		// negative outcomes of comparisons with constants and of map lookups are artefacts of the order in which
		// independent cases are tried (switch arms); negative type tests define the default arm of a type switch,
		// negative calls and field tests are genuine conditions: both are kept
		if strings.HasPrefix(k, "-==(") || strings.HasPrefix(k, "-!=(") || strings.HasPrefix(k, "-lookup") {
			continue
		}
		return false
	}
	return true
}

// ReturnGrounds lists, for every return instruction of fn, the set of branch outcomes under which it executes.
func ReturnGrounds(fn *ssa.Function) []string {
	var out []string
	for _, ret := range Returns(fn) {
		m := map[string]bool{}
		for _, a := range ControllingConds(ret) {
			if a.Var.Call != nil {
				m[CondDesc(a.Var.Call, a.Val)] = true
			}
		}
		ks := make([]string, 0, len(m))
		for k := range m {
			ks = append(ks, k)
		}
		sort.Strings(ks)
		out = append(out, strings.Join(ks, " ∧ "))
	}
	sort.Strings(out)
	return out
}

// PathGrounds enumerates the acyclic paths from the entry of fn to each of its return instructions and renders every
// path as the set of branch outcomes taken on it (a disjunctive normal form of "when does the function return here").
// Unlike ReturnGrounds it separates the arms of a short-circuit `a || b` that lead to the same return statement.
// The enumeration is capped; ok is false when the cap was hit.
func PathGrounds(fn *ssa.Function, limit int) (grounds []string, ok bool) {
	return PathGroundsTo(fn, limit, nil)
}

// PathGroundsTo is PathGrounds restricted to the returns accepted by want (nil: all).
func PathGroundsTo(fn *ssa.Function, limit int, want func(*ssa.Return) bool) (grounds []string, ok bool) {
	if len(fn.Blocks) == 0 {
		return nil, false
	}
	set := map[string]bool{}
	onPath := map[*ssa.BasicBlock]bool{}
	count := 0
	ok = true
	var walk func(b, pred *ssa.BasicBlock, conds []string)
	walk = func(b, pred *ssa.BasicBlock, conds []string) {
		if onPath[b] || !ok {
			return
		}
		if len(b.Instrs) == 0 {
			return
		}
		last := b.Instrs[len(b.Instrs)-1]
		switch t := last.(type) {
		case *ssa.Return:
			if want != nil && !want(t) {
				return
			}
			count++
			if count > limit {
				ok = false
				return
			}
			m := map[string]bool{}
			for _, c := range conds {
				m[c] = true
			}
			ks := make([]string, 0, len(m))
			for k := range m {
				ks = append(ks, k)
			}
			sort.Strings(ks)
			set[strings.Join(ks, " ∧ ")] = true
			return
		case *ssa.If:
			onPath[b] = true
			cond := t.Cond
			neg := false
			for {
				if u, isNot := cond.(*ssa.UnOp); isNot && u.Op == token.NOT {
					cond, neg = u.X, !neg
					continue
				}
				break
			}
			cond, fixed := resolvePhiCond(cond, b, pred)
			switch {
			case fixed >= 0:
				// the join of a short-circuit expression reached over an edge that carries a constant
				if (fixed == 1) != neg {
					walk(b.Succs[0], b, conds)
				} else {
					walk(b.Succs[1], b, conds)
				}
			default:
				walk(b.Succs[0], b, append(append([]string{}, conds...), CondDesc(cond, !neg)))
				walk(b.Succs[1], b, append(append([]string{}, conds...), CondDesc(cond, neg)))
			}
			onPath[b] = false
			return
		}
		onPath[b] = true
		for _, s := range b.Succs {
			walk(s, b, conds)
		}
		onPath[b] = false
	}
	walk(fn.Blocks[0], nil, nil)
	for k := range set {
		grounds = append(grounds, k)
	}
	sort.Strings(grounds)
	return grounds, ok
}

// PathSummaries enumerates the acyclic entry-to-return paths of fn like PathGrounds and renders each as
// "conds ⇒ events": the set of branch outcomes taken and the sequence of events (as described by eventOf, "" = none)
// of the instructions executed on the path.
func PathSummaries(fn *ssa.Function, limit int, eventOf func(ssa.Instruction) string) (out []string, ok bool) {
	if len(fn.Blocks) == 0 {
		return nil, false
	}
	set := map[string]bool{}
	onPath := map[*ssa.BasicBlock]bool{}
	count := 0
	ok = true
	var walk func(b, pred *ssa.BasicBlock, conds, events []string)
	walk = func(b, pred *ssa.BasicBlock, conds, events []string) {
		if onPath[b] || !ok || len(b.Instrs) == 0 {
			return
		}
		for _, in := range b.Instrs {
			if e := eventOf(in); e != "" {
				events = append(append([]string{}, events...), e)
			}
		}
		last := b.Instrs[len(b.Instrs)-1]
		switch t := last.(type) {
		case *ssa.Return:
			count++
			if count > limit {
				ok = false
				return
			}
			m := map[string]bool{}
			for _, c := range conds {
				m[c] = true
			}
			ks := make([]string, 0, len(m))
			for k := range m {
				ks = append(ks, k)
			}
			sort.Strings(ks)
			set[strings.Join(ks, " ∧ ")+" ⇒ "+strings.Join(events, " ; ")] = true
			return
		case *ssa.Panic:
			return
		case *ssa.If:
			onPath[b] = true
			cond := t.Cond
			neg := false
			for {
				if u, isNot := cond.(*ssa.UnOp); isNot && u.Op == token.NOT {
					cond, neg = u.X, !neg
					continue
				}
				break
			}
			cond, fixed := resolvePhiCond(cond, b, pred)
			switch {
			case fixed >= 0:
				if (fixed == 1) != neg {
					walk(b.Succs[0], b, conds, events)
				} else {
					walk(b.Succs[1], b, conds, events)
				}
			default:
				walk(b.Succs[0], b, append(append([]string{}, conds...), CondDesc(cond, !neg)), events)
				walk(b.Succs[1], b, append(append([]string{}, conds...), CondDesc(cond, neg)), events)
			}
			onPath[b] = false
			return
		}
		onPath[b] = true
		for _, s := range b.Succs {
			walk(s, b, conds, events)
		}
		onPath[b] = false
	}
	walk(fn.Blocks[0], nil, nil, nil)
	for k := range set {
		out = append(out, k)
	}
	sort.Strings(out)
	return out, ok
}

// resolvePhiCond: a branch condition that is a phi of the branching block (the join of `a && b` / `a || b`) is replaced by
// the value carried over the edge the path came in by: a constant fixes the outcome (fixed = 0/1), anything else is the
// condition tested on this path (fixed = -1).
func resolvePhiCond(cond ssa.Value, b, pred *ssa.BasicBlock) (ssa.Value, int) {
	for depth := 0; depth < 4; depth++ {
		phi, ok := cond.(*ssa.Phi)
		if !ok || phi.Block() != b || pred == nil {
			return cond, -1
		}
		found := false
		for i, p := range b.Preds {
			if p == pred && i < len(phi.Edges) {
				cond = phi.Edges[i]
				found = true
				break
			}
		}
		if !found {
			return cond, -1
		}
		if c, isConst := cond.(*ssa.Const); isConst && c.Value != nil {
			switch c.Value.ExactString() {
			case "true":
				return cond, 1
			case "false":
				return cond, 0
			}
		}
	}
	return cond, -1
}

// SimplifyGrounds merges grounds that differ only in the polarity of one conjunct (x ∧ r, ¬x ∧ r  ⟹  r), repeatedly, and
// returns the resulting prime terms: conditions that do not influence the outcome disappear, however the code nests them.
func SimplifyGrounds(grounds []string) []string {
	type term map[string]bool
	parse := func(s string) term {
		t := term{}
		for _, c := range strings.Split(s, " ∧ ") {
			if c != "" {
				t[c] = true
			}
		}
		return t
	}
	render := func(t term) string {
		ks := make([]string, 0, len(t))
		for k := range t {
			ks = append(ks, k)
		}
		sort.Strings(ks)
		return strings.Join(ks, " ∧ ")
	}
	flip := func(c string) string {
		if strings.HasPrefix(c, "+") {
			return "-" + c[1:]
		}
		if strings.HasPrefix(c, "-") {
			return "+" + c[1:]
		}
		return ""
	}
	cur := map[string]term{}
	for _, g := range grounds {
		t := parse(g)
		cur[render(t)] = t
	}
	for round := 0; round < 16; round++ {
		merged := map[string]term{}
		used := map[string]bool{}
		keys := make([]string, 0, len(cur))
		for k := range cur {
			keys = append(keys, k)
		}
		sort.Strings(keys)
		for _, ka := range keys {
			a := cur[ka]
			for lit := range a {
				f := flip(lit)
				if f == "" {
					continue
				}
				b := term{}
				for k := range a {
					if k != lit {
						b[k] = true
					}
				}
				rest := render(b)
				b[f] = true
				if _, ok := cur[render(b)]; ok {
					used[ka] = true
					used[render(b)] = true
					delete(b, f)
					merged[rest] = b
				}
			}
		}
		if len(merged) == 0 {
			break
		}
		next := map[string]term{}
		for k, t := range cur {
			if !used[k] {
				next[k] = t
			}
		}
		for k, t := range merged {
			next[k] = t
		}
		// absorption: drop terms that are supersets of another term
		for ka, a := range next {
			for kb, b := range next {
				if ka == kb || len(b) >= len(a) {
					continue
				}
				sub := true
				for k := range b {
					if !a[k] {
						sub = false
					}
				}
				if sub {
					delete(next, ka)
					break
				}
			}
		}
		cur = next
	}
	out := make([]string, 0, len(cur))
	for k := range cur {
		out = append(out, k)
	}
	sort.Strings(out)
	return out
}

// PathSummariesR is PathSummaries with a phi resolver handed to eventOf: resolve(v) replaces a phi by the value it
// carries on the path being summarised (the edge from the predecessor the path came in by), repeatedly.
func PathSummariesR(fn *ssa.Function, limit int, eventOf func(in ssa.Instruction, resolve func(ssa.Value) ssa.Value) string) (out []string, ok bool) {
	return PathSummariesRP(fn, limit, false, eventOf)
}

// PathSummariesRP is PathSummariesR that, when withPanics is set, also summarises the paths that end in a panic.
func PathSummariesRP(fn *ssa.Function, limit int, withPanics bool, eventOf func(in ssa.Instruction, resolve func(ssa.Value) ssa.Value) string, condOf ...func(cond ssa.Value, val bool, resolve func(ssa.Value) ssa.Value) string) (out []string, ok bool) {
	descCond := func(cond ssa.Value, val bool, _ func(ssa.Value) ssa.Value) string { return CondDesc(cond, val) }
	if len(condOf) > 0 && condOf[0] != nil {
		descCond = condOf[0]
	}
	if len(fn.Blocks) == 0 {
		return nil, false
	}
	set := map[string]bool{}
	onPath := map[*ssa.BasicBlock]bool{}
	var path []*ssa.BasicBlock
	count := 0
	ok = true
	resolve := func(v ssa.Value) ssa.Value {
		for d := 0; d < 8; d++ {
			phi, isPhi := v.(*ssa.Phi)
			if !isPhi {
				return v
			}
			idx := -1
			for i := len(path) - 1; i >= 0; i-- {
				if path[i] == phi.Block() {
					idx = i
					break
				}
			}
			if idx <= 0 {
				return v
			}
			pred := path[idx-1]
			found := false
			for i, p := range phi.Block().Preds {
				if p == pred && i < len(phi.Edges) {
					v = phi.Edges[i]
					found = true
					break
				}
			}
			if !found {
				return v
			}
		}
		return v
	}
	var walk func(b, pred *ssa.BasicBlock, conds, events []string)
	walk = func(b, pred *ssa.BasicBlock, conds, events []string) {
		if onPath[b] || !ok || len(b.Instrs) == 0 {
			return
		}
		path = append(path, b)
		defer func() { path = path[:len(path)-1] }()
		for _, in := range b.Instrs {
			if e := eventOf(in, resolve); e != "" {
				events = append(append([]string{}, events...), e)
			}
		}
		last := b.Instrs[len(b.Instrs)-1]
		switch t := last.(type) {
		case *ssa.Return:
			count++
			if count > limit {
				ok = false
				return
			}
			m := map[string]bool{}
			for _, c := range conds {
				m[c] = true
			}
			ks := make([]string, 0, len(m))
			for k := range m {
				ks = append(ks, k)
			}
			sort.Strings(ks)
			set[strings.Join(ks, " ∧ ")+" ⇒ "+strings.Join(events, " ; ")] = true
			return
		case *ssa.Panic:
			if withPanics {
				count++
				if count > limit {
					ok = false
					return
				}
				m := map[string]bool{}
				for _, c := range conds {
					m[c] = true
				}
				ks := make([]string, 0, len(m))
				for k := range m {
					ks = append(ks, k)
				}
				sort.Strings(ks)
				set[strings.Join(ks, " ∧ ")+" ⇒ "+strings.Join(events, " ; ")] = true
			}
			return
		case *ssa.If:
			onPath[b] = true
			cond := t.Cond
			neg := false
			for {
				if u, isNot := cond.(*ssa.UnOp); isNot && u.Op == token.NOT {
					cond, neg = u.X, !neg
					continue
				}
				break
			}
			cond, fixed := resolvePhiCond(cond, b, pred)
			switch {
			case fixed >= 0:
				if (fixed == 1) != neg {
					walk(b.Succs[0], b, conds, events)
				} else {
					walk(b.Succs[1], b, conds, events)
				}
			default:
				walk(b.Succs[0], b, append(append([]string{}, conds...), descCond(cond, !neg, resolve)), events)
				walk(b.Succs[1], b, append(append([]string{}, conds...), descCond(cond, neg, resolve)), events)
			}
			onPath[b] = false
			return
		}
		onPath[b] = true
		for _, s := range b.Succs {
			walk(s, b, conds, events)
		}
		onPath[b] = false
	}
	walk(fn.Blocks[0], nil, nil, nil)
	for k := range set {
		out = append(out, k)
	}
	sort.Strings(out)
	return out, ok
}
