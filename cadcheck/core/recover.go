package core

import (
	"go/types"
	"sort"
	"strings"

	"golang.org/x/tools/go/ssa"
)

// RecoverSite summarises one recover() call: which dynamic types of the recovered value are
// absorbed (the deferred function returns normally) and which are re-panicked.
type RecoverSite struct {
	Decl   *ssa.Function // enclosing declared function
	Fn     *ssa.Function // function (usually a deferred literal) containing recover()
	Call   *ssa.Call
	Arms   []string // "T:absorb" / "T:repanic", in source order; last is "default:…"
	NoTest bool     // the recovered value is never compared with nil nor type-tested
}

func (s RecoverSite) Summary() string { return strings.Join(s.Arms, "; ") }

// returnReachable reports whether a normal return is reachable from b.
func returnReachable(b *ssa.BasicBlock) bool { return !Terminates(b) }

func typeStr(t types.Type) string {
	return types.TypeString(t, func(p *types.Package) string {
		if p == nil {
			return ""
		}
		if InMod(p.Path()) {
			return RelPkg(p.Path())
		}
		return p.Path()
	})
}

// RecoverSites finds and summarises every recover() call in module source functions.
func (w *World) RecoverSites() []RecoverSite {
	var out []RecoverSite
	for _, decl := range w.SrcFuncs() {
		if decl.Parent() != nil {
			continue
		}
		for _, fn := range WithAnon(decl) {
			for _, b := range fn.Blocks {
				for _, in := range b.Instrs {
					c, ok := in.(*ssa.Call)
					if !ok {
						continue
					}
					bi, ok := c.Call.Value.(*ssa.Builtin)
					if !ok || bi.Name() != "recover" {
						continue
					}
					out = append(out, summariseRecover(decl, fn, c))
				}
			}
		}
	}
	sort.SliceStable(out, func(i, j int) bool {
		a, b := SSAKey(out[i].Decl), SSAKey(out[j].Decl)
		if a != b {
			return a < b
		}
		return out[i].Call.Pos() < out[j].Call.Pos()
	})
	return out
}

func summariseRecover(decl, fn *ssa.Function, c *ssa.Call) RecoverSite {
	site := RecoverSite{Decl: decl, Fn: fn, Call: c}
	// values carrying the recovered value
	carr := map[ssa.Value]bool{c: true}
	work := []ssa.Value{c}
	type assertInfo struct {
		ta *ssa.TypeAssert
	}
	var asserts []*ssa.TypeAssert
	var nilTest *NilTest
	for len(work) > 0 {
		v := work[0]
		work = work[1:]
		refs := v.Referrers()
		if refs == nil {
			continue
		}
		for _, ref := range *refs {
			switch x := ref.(type) {
			case *ssa.TypeAssert:
				if x.X == v {
					asserts = append(asserts, x)
				}
			case *ssa.Phi:
				if !carr[x] {
					carr[x] = true
					work = append(work, x)
				}
			case *ssa.ChangeInterface:
				if !carr[x] {
					carr[x] = true
					work = append(work, x)
				}
			case *ssa.Store:
				// spilled to a cell: follow loads
				if x.Val == v {
					for _, al := range cellAliases(x.Addr) {
						if r := al.Referrers(); r != nil {
							for _, y := range *r {
								if u, ok := y.(*ssa.UnOp); ok && !carr[u] {
									carr[u] = true
									work = append(work, u)
								}
							}
						}
					}
				}
			}
		}
	}
	for _, t := range NilTests(fn) {
		raw := t.If.Cond.(*ssa.BinOp)
		x := raw.X
		if isNilConst(x) {
			x = raw.Y
		}
		if carr[x] || carr[Unwrap(x)] {
			tt := t
			nilTest = &tt
			break
		}
	}
	// order asserts by position
	sort.SliceStable(asserts, func(i, j int) bool { return asserts[i].Pos() < asserts[j].Pos() })
	verdict := func(b *ssa.BasicBlock) string {
		if returnReachable(b) {
			return "absorb"
		}
		return "repanic"
	}
	var lastFail *ssa.BasicBlock
	for _, ta := range asserts {
		if !ta.CommaOk {
			// unchecked assertion: converts or panics; treat as a pass-through of that type
			continue
		}
		// find the If on the ok component
		var okSucc, failSucc *ssa.BasicBlock
		if refs := ta.Referrers(); refs != nil {
			for _, ref := range *refs {
				ex, ok := ref.(*ssa.Extract)
				if !ok || ex.Index != 1 {
					continue
				}
				if er := ex.Referrers(); er != nil {
					for _, u := range *er {
						if iff, ok := u.(*ssa.If); ok {
							okSucc, failSucc = iff.Block().Succs[0], iff.Block().Succs[1]
						}
					}
				}
			}
		}
		if okSucc == nil {
			site.Arms = append(site.Arms, typeStr(ta.AssertedType)+":?")
			continue
		}
		site.Arms = append(site.Arms, typeStr(ta.AssertedType)+":"+verdict(okSucc))
		lastFail = failSucc
	}
	switch {
	case lastFail != nil:
		site.Arms = append(site.Arms, "default:"+verdict(lastFail))
	case nilTest != nil:
		site.Arms = append(site.Arms, "default:"+verdict(nilTest.NonNilSucc))
	default:
		site.NoTest = true
		site.Arms = append(site.Arms, "default:"+verdict(c.Block()))
	}
	return site
}
