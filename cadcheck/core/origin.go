package core

import (
	"go/token"
	"go/types"
	"sort"
	"strings"

	"golang.org/x/tools/go/ssa"
)

// OriginOf renders where an SSA value comes from, in terms that survive renaming and reformatting:
// parameters by index, struct fields by name, type assertions by asserted type, calls by callee key and the origins
// of their arguments, globals and constants by name/value; cells are followed to their stores, phis give sets.
func OriginOf(v ssa.Value) string {
	return originOf(v, 0, map[ssa.Value]bool{})
}

func shortType(t types.Type) string {
	return types.TypeString(t, func(p *types.Package) string { return p.Name() })
}

func originOf(v ssa.Value, d int, seen map[ssa.Value]bool) string {
	if v == nil {
		return "nil"
	}
	if d > 10 || seen[v] {
		return "…"
	}
	seen[v] = true
	defer delete(seen, v)
	set := func(vals []ssa.Value) string {
		m := map[string]bool{}
		for _, x := range vals {
			m[originOf(x, d+1, seen)] = true
		}
		var ks []string
		for k := range m {
			ks = append(ks, k)
		}
		sort.Strings(ks)
		if len(ks) == 1 {
			return ks[0]
		}
		return "{" + strings.Join(ks, " | ") + "}"
	}
	switch x := v.(type) {
	case *ssa.Parameter:
		fn := x.Parent()
		for i, p := range fn.Params {
			if p == x {
				return "param#" + itoa(i) + ":" + shortType(x.Type())
			}
		}
		return "param:" + shortType(x.Type())
	case *ssa.FreeVar:
		fn := x.Parent()
		idx := -1
		for i, fv := range fn.FreeVars {
			if fv == x {
				idx = i
			}
		}
		if par := fn.Parent(); par != nil && idx >= 0 {
			var out []ssa.Value
			Instrs(par, true, func(in ssa.Instruction) {
				if mc, ok := in.(*ssa.MakeClosure); ok && mc.Fn == ssa.Value(fn) && idx < len(mc.Bindings) {
					out = append(out, mc.Bindings[idx])
				}
			})
			if len(out) > 0 {
				return set(out)
			}
		}
		return "freevar:" + shortType(x.Type())
	case *ssa.Alloc:
		// a cell: the values stored into it
		var vals []ssa.Value
		for _, c := range cellAliases(x) {
			if refs := c.Referrers(); refs != nil {
				for _, ref := range *refs {
					if st, ok := ref.(*ssa.Store); ok && st.Addr == c {
						vals = append(vals, st.Val)
					}
				}
			}
		}
		if len(vals) == 0 {
			return "cell:" + shortType(x.Type())
		}
		return set(vals)
	case *ssa.UnOp:
		if x.Op == token.MUL {
			return originOf(x.X, d+1, seen)
		}
		return x.Op.String() + originOf(x.X, d+1, seen)
	case *ssa.FieldAddr:
		if pt, ok := x.X.Type().Underlying().(*types.Pointer); ok {
			if st, ok := pt.Elem().Underlying().(*types.Struct); ok {
				return originOf(x.X, d+1, seen) + "." + st.Field(x.Field).Name()
			}
		}
		return originOf(x.X, d+1, seen) + ".?"
	case *ssa.Field:
		if st, ok := x.X.Type().Underlying().(*types.Struct); ok {
			return originOf(x.X, d+1, seen) + "." + st.Field(x.Field).Name()
		}
		return originOf(x.X, d+1, seen) + ".?"
	case *ssa.TypeAssert:
		return originOf(x.X, d+1, seen) + ".(" + shortType(x.AssertedType) + ")"
	case *ssa.Extract:
		if ta, ok := x.Tuple.(*ssa.TypeAssert); ok && x.Index == 0 {
			return originOf(ta.X, d+1, seen) + ".(" + shortType(ta.AssertedType) + ")"
		}
		return originOf(x.Tuple, d+1, seen) + "#" + itoa(x.Index)
	case *ssa.Call:
		name := "?"
		if o := Callee(x); o != nil {
			name = FuncKey(o)
		} else if b, ok := x.Call.Value.(*ssa.Builtin); ok {
			name = b.Name()
		}
		var args []string
		if x.Call.IsInvoke() {
			args = append(args, originOf(x.Call.Value, d+1, seen))
		}
		for _, a := range x.Call.Args {
			if _, isCtx := a.Type().Underlying().(*types.Interface); isCtx && !x.Call.IsInvoke() && len(x.Call.Args) > 1 {
				// interface-typed arguments (contexts, gauges) are kept: they may be the operand
			}
			args = append(args, originOf(a, d+1, seen))
		}
		return name + "(" + strings.Join(args, ", ") + ")"
	case *ssa.MakeInterface:
		return originOf(x.X, d+1, seen)
	case *ssa.ChangeInterface:
		return originOf(x.X, d+1, seen)
	case *ssa.ChangeType:
		return originOf(x.X, d+1, seen)
	case *ssa.Convert:
		return originOf(x.X, d+1, seen)
	case *ssa.Phi:
		return set(x.Edges)
	case *ssa.Const:
		if x.Value == nil {
			return "const:nil"
		}
		return "const:" + x.Value.ExactString()
	case *ssa.Global:
		return "global:" + x.Pkg.Pkg.Name() + "." + x.Name()
	case *ssa.Function:
		return "func:" + x.Name()
	case *ssa.MakeClosure:
		return "closure:" + x.Fn.Name()
	}
	return "?" + shortType(v.Type())
}

func itoa(n int) string {
	if n == 0 {
		return "0"
	}
	neg := n < 0
	if neg {
		n = -n
	}
	var b []byte
	for n > 0 {
		b = append([]byte{byte('0' + n%10)}, b...)
		n /= 10
	}
	if neg {
		b = append([]byte{'-'}, b...)
	}
	return string(b)
}

// OriginLeaves reduces the origin of a value to the sorted set of its leaves — parameters (by index and type), globals,
// constants — and of the field names and asserted types on the way. Callee names of intermediate calls are not part of
// it, so extracting a helper, inlining one or renaming it leaves the set unchanged.
func OriginLeaves(v ssa.Value) string { return originLeaves(v, false) }

// OriginLeavesVia is OriginLeaves plus the names of the functions the value passed through ("via:f").
func OriginLeavesVia(v ssa.Value) string { return originLeaves(v, true) }

func originLeaves(v ssa.Value, via bool) string {
	m := map[string]bool{}
	leavesOf(v, 0, map[ssa.Value]bool{}, m)
	if !via {
		for k := range m {
			if strings.HasPrefix(k, "via:") {
				delete(m, k)
			}
		}
	}
	ks := make([]string, 0, len(m))
	for k := range m {
		ks = append(ks, k)
	}
	sort.Strings(ks)
	return "{" + strings.Join(ks, " ") + "}"
}

func leavesOf(v ssa.Value, d int, seen map[ssa.Value]bool, out map[string]bool) {
	if v == nil || d > 12 || seen[v] {
		return
	}
	seen[v] = true
	switch x := v.(type) {
	case *ssa.Parameter:
		fn := x.Parent()
		if fn.Parent() != nil || fn.Synthetic != "" {
			// parameters of function literals and of synthetic wrappers are not stable anchors
			out["closure-param:"+shortType(x.Type())] = true
			return
		}
		for i, p := range fn.Params {
			if p == x {
				out["param#"+itoa(i)+":"+shortType(x.Type())] = true
			}
		}
	case *ssa.FreeVar:
		fn := x.Parent()
		idx := -1
		for i, fv := range fn.FreeVars {
			if fv == x {
				idx = i
			}
		}
		if par := fn.Parent(); par != nil && idx >= 0 {
			Instrs(par, true, func(in ssa.Instruction) {
				if mc, ok := in.(*ssa.MakeClosure); ok && mc.Fn == ssa.Value(fn) && idx < len(mc.Bindings) {
					leavesOf(mc.Bindings[idx], d+1, seen, out)
				}
			})
		}
	case *ssa.Alloc:
		for _, c := range cellAliases(x) {
			if refs := c.Referrers(); refs != nil {
				for _, ref := range *refs {
					if st, ok := ref.(*ssa.Store); ok && st.Addr == c {
						leavesOf(st.Val, d+1, seen, out)
					}
				}
			}
		}
	case *ssa.UnOp:
		leavesOf(x.X, d+1, seen, out)
	case *ssa.FieldAddr:
		if pt, ok := x.X.Type().Underlying().(*types.Pointer); ok {
			if st, ok := pt.Elem().Underlying().(*types.Struct); ok {
				out["."+st.Field(x.Field).Name()] = true
			}
		}
		leavesOf(x.X, d+1, seen, out)
	case *ssa.Field:
		if st, ok := x.X.Type().Underlying().(*types.Struct); ok {
			out["."+st.Field(x.Field).Name()] = true
		}
		leavesOf(x.X, d+1, seen, out)
	case *ssa.TypeAssert:
		out[".("+shortType(x.AssertedType)+")"] = true
		leavesOf(x.X, d+1, seen, out)
	case *ssa.Extract:
		leavesOf(x.Tuple, d+1, seen, out)
	case *ssa.Call:
		if o := Callee(x); o != nil {
			out["via:"+o.Name()] = true
		}
		if x.Call.IsInvoke() {
			leavesOf(x.Call.Value, d+1, seen, out)
		}
		for _, a := range x.Call.Args {
			leavesOf(a, d+1, seen, out)
		}
	case *ssa.MakeInterface:
		leavesOf(x.X, d+1, seen, out)
	case *ssa.ChangeInterface:
		leavesOf(x.X, d+1, seen, out)
	case *ssa.ChangeType:
		leavesOf(x.X, d+1, seen, out)
	case *ssa.Convert:
		leavesOf(x.X, d+1, seen, out)
	case *ssa.Phi:
		for _, e := range x.Edges {
			leavesOf(e, d+1, seen, out)
		}
	case *ssa.Const:
		if x.Value == nil {
			out["const:nil"] = true
		} else {
			out["const:"+x.Value.ExactString()] = true
		}
	case *ssa.Global:
		out["global:"+x.Pkg.Pkg.Name()+"."+x.Name()] = true
	case *ssa.BinOp:
		leavesOf(x.X, d+1, seen, out)
		leavesOf(x.Y, d+1, seen, out)
	case *ssa.MakeClosure:
		// a bound method value or function literal: what it closes over
		for _, b := range x.Bindings {
			leavesOf(b, d+1, seen, out)
		}
	}
}
