package core

import (
	"go/token"
	"go/types"
	"sort"

	"golang.org/x/tools/go/ssa"
)

// CallSite is one call found in a declared module function (closures attributed to it).
type CallSite struct {
	Caller *ssa.Function // enclosing declared function (top-level parent)
	Instr  ssa.CallInstruction
	Callee *types.Func
	Invoke bool
}

type revIndex struct {
	static map[*types.Func][]CallSite
	invoke map[string][]CallSite // by method name
}

var revCache = map[*World]*revIndex{}

func (w *World) rev() *revIndex {
	if x, ok := revCache[w]; ok {
		return x
	}
	x := &revIndex{static: map[*types.Func][]CallSite{}, invoke: map[string][]CallSite{}}
	for _, fn := range w.SrcFuncs() {
		if fn.Parent() != nil {
			continue
		}
		for _, c := range Calls(fn, true) {
			o := Callee(c)
			if o == nil {
				continue
			}
			cs := CallSite{Caller: fn, Instr: c, Callee: o, Invoke: c.Common().IsInvoke()}
			if cs.Invoke {
				x.invoke[o.Name()] = append(x.invoke[o.Name()], cs)
			} else {
				x.static[o.Origin()] = append(x.static[o.Origin()], cs)
			}
		}
	}
	revCache[w] = x
	return x
}

// SitesCalling returns the call sites in module code that may call f: static calls of f, and
// interface-method calls whose interface is implemented by f's receiver type.
func (w *World) SitesCalling(f *types.Func) []CallSite {
	x := w.rev()
	out := append([]CallSite{}, x.static[f.Origin()]...)
	sig, _ := f.Type().(*types.Signature)
	if sig != nil && sig.Recv() != nil {
		rt := sig.Recv().Type()
		if _, isIface := rt.Underlying().(*types.Interface); isIface {
			// f is itself an interface method: invoke calls on exactly this method
			for _, cs := range x.invoke[f.Name()] {
				if cs.Callee == f {
					out = append(out, cs)
				}
			}
			return out
		}
		for _, cs := range x.invoke[f.Name()] {
			isig, _ := cs.Callee.Type().(*types.Signature)
			if isig == nil || isig.Recv() == nil {
				continue
			}
			it, ok := isig.Recv().Type().Underlying().(*types.Interface)
			if !ok {
				continue
			}
			if types.Implements(rt, it) || types.Implements(types.NewPointer(derefT(rt)), it) {
				out = append(out, cs)
			}
		}
	}
	return out
}

func derefT(t types.Type) types.Type {
	if p, ok := t.(*types.Pointer); ok {
		return p.Elem()
	}
	return t
}

// GateResult is the outcome of a gated backward closure.
type GateResult struct {
	// Closure are the functions from which a sink is reachable without passing a gate.
	Closure map[string]token.Pos
	// Roots are closure members without any module caller (entry points / dynamically called).
	Roots map[string]token.Pos
	// Path maps a closure member to the next function towards the sink.
	Path map[string]string
}

// GatedCallers computes the set of module functions that can reach a call matching sink
// without passing through a gate function, by backward closure over static and
// interface-dispatched calls. Functions without callers in that set are the roots.
func (w *World) GatedCallers(sink func(*types.Func) bool, gate func(*ssa.Function) bool) GateResult {
	res := GateResult{Closure: map[string]token.Pos{}, Roots: map[string]token.Pos{}, Path: map[string]string{}}
	var work []*ssa.Function
	seen := map[*ssa.Function]bool{}
	add := func(fn *ssa.Function, via string, pos token.Pos) {
		if seen[fn] {
			return
		}
		seen[fn] = true
		if gate != nil && gate(fn) {
			return
		}
		res.Closure[SSAKey(fn)] = pos
		res.Path[SSAKey(fn)] = via
		work = append(work, fn)
	}
	for _, fn := range w.SrcFuncs() {
		if fn.Parent() != nil {
			continue
		}
		for _, c := range CallsTo(fn, true, sink) {
			add(fn, "sink", c.Pos())
			break
		}
	}
	for len(work) > 0 {
		fn := work[0]
		work = work[1:]
		o, _ := fn.Object().(*types.Func)
		if o == nil {
			res.Roots[SSAKey(fn)] = fn.Pos()
			continue
		}
		sites := w.SitesCalling(o)
		// function values: a function referenced as a value (not called) may be called dynamically: treat as root
		if len(sites) == 0 {
			res.Roots[SSAKey(fn)] = fn.Pos()
			continue
		}
		for _, s := range sites {
			add(s.Caller, SSAKey(fn), s.Instr.Pos())
		}
	}
	return res
}

// SortedKeys returns the sorted keys of a position map.
func SortedKeys(m map[string]token.Pos) []string {
	out := make([]string, 0, len(m))
	for k := range m {
		out = append(out, k)
	}
	sort.Strings(out)
	return out
}

var calleeCache = map[*World]map[string][]string{}

// StaticCalleeKeys maps every declared module function (by SSAKey) to the keys of the module functions it calls
// statically (closures attributed to the enclosing declaration).
func (w *World) StaticCalleeKeys() map[string][]string {
	if m, ok := calleeCache[w]; ok {
		return m
	}
	m := map[string][]string{}
	for _, fn := range w.SrcFuncs() {
		if fn.Parent() != nil {
			continue
		}
		k := SSAKey(fn)
		seen := map[string]bool{}
		for _, c := range Calls(fn, true) {
			sf := StaticFn(c)
			if sf == nil || !InModFn(sf) {
				continue
			}
			for sf.Parent() != nil {
				sf = sf.Parent()
			}
			ck := SSAKey(sf)
			if ck != k && !seen[ck] {
				seen[ck] = true
				m[k] = append(m[k], ck)
			}
		}
	}
	calleeCache[w] = m
	return m
}

// DeepCounts adds to each function's own item counts the counts of its static module callees up to depth,
// so that moving a call into a helper does not change the caller's totals.
func (w *World) DeepCounts(direct map[string]map[string]int, depth int) map[string]map[string]int {
	callees := w.StaticCalleeKeys()
	out := map[string]map[string]int{}
	var visit func(k string, d int, acc map[string]int, seen map[string]bool)
	visit = func(k string, d int, acc map[string]int, seen map[string]bool) {
		if seen[k] {
			return
		}
		seen[k] = true
		for item, n := range direct[k] {
			acc[item] += n
		}
		if d >= depth {
			return
		}
		for _, c := range callees[k] {
			visit(c, d+1, acc, seen)
		}
	}
	keys := map[string]bool{}
	for k := range direct {
		keys[k] = true
	}
	for k := range callees {
		keys[k] = true
	}
	for k := range keys {
		acc := map[string]int{}
		visit(k, 0, acc, map[string]bool{})
		if len(acc) > 0 {
			out[k] = acc
		}
	}
	return out
}
