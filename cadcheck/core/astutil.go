package core

import (
	"go/ast"
	"go/token"
	"go/types"

	"golang.org/x/tools/go/packages"
)

// StripConv removes parentheses and type conversions around an expression.
func StripConv(e ast.Expr, info *types.Info) ast.Expr {
	for {
		switch x := e.(type) {
		case *ast.ParenExpr:
			e = x.X
		case *ast.CallExpr:
			if len(x.Args) == 1 {
				if tv, ok := info.Types[x.Fun]; ok && tv.IsType() {
					e = x.Args[0]
					continue
				}
			}
			return e
		default:
			return e
		}
	}
}

// RootVars returns the variables an expression is built from (identifier uses resolving to *types.Var,
// fields excluded).
func RootVars(e ast.Expr, info *types.Info) []*types.Var {
	var out []*types.Var
	ast.Inspect(e, func(n ast.Node) bool {
		if id, ok := n.(*ast.Ident); ok {
			if v, ok := info.Uses[id].(*types.Var); ok && !v.IsField() {
				out = append(out, v)
			}
		}
		return true
	})
	return out
}

// PathTo returns the chain of nodes from root to target (inclusive), or nil.
func PathTo(root ast.Node, target ast.Node) []ast.Node {
	var path []ast.Node
	var found []ast.Node
	ast.Inspect(root, func(n ast.Node) bool {
		if found != nil {
			return false
		}
		if n == nil {
			path = path[:len(path)-1]
			return true
		}
		path = append(path, n)
		if n == target {
			found = append([]ast.Node{}, path...)
			return false
		}
		return true
	})
	return found
}

// SynDominates reports whether statement g syntactically dominates node n inside fn: g is a statement of a
// block that encloses n, it precedes the enclosing statement of n in that block, and n is not inside g.
// (Sound for structured code without goto; loops back-edges cannot skip g because g precedes the loop or is
// in the same iteration body before n.)
func SynDominates(fn ast.Node, g ast.Stmt, n ast.Node) bool {
	pn := PathTo(fn, n)
	pg := PathTo(fn, g)
	if pn == nil || pg == nil || len(pg) < 2 {
		return false
	}
	parent := pg[len(pg)-2]
	var list []ast.Stmt
	switch b := parent.(type) {
	case *ast.BlockStmt:
		list = b.List
	case *ast.CaseClause:
		list = b.Body
	case *ast.CommClause:
		list = b.Body
	default:
		return false
	}
	// parent must be on n's path
	idx := -1
	for i, x := range pn {
		if x == parent {
			idx = i
		}
	}
	if idx < 0 || idx+1 >= len(pn) {
		return false
	}
	nstmt := pn[idx+1]
	gi, ni := -1, -1
	for i, s := range list {
		if s == g {
			gi = i
		}
		if ast.Node(s) == nstmt {
			ni = i
		}
	}
	return gi >= 0 && ni >= 0 && gi < ni
}

// EndsInPanicOrReturn reports whether the block's last statement is a panic call or a return.
func EndsInPanicOrReturn(b *ast.BlockStmt) (ast.Expr, bool) {
	if b == nil || len(b.List) == 0 {
		return nil, false
	}
	switch s := b.List[len(b.List)-1].(type) {
	case *ast.ReturnStmt:
		if len(s.Results) > 0 {
			return s.Results[len(s.Results)-1], true
		}
		return nil, true
	case *ast.ExprStmt:
		if c, ok := s.X.(*ast.CallExpr); ok {
			if id, ok := c.Fun.(*ast.Ident); ok && id.Name == "panic" && len(c.Args) == 1 {
				return c.Args[0], true
			}
		}
	}
	return nil, false
}

// IfChain returns the if statement and all its else-if successors.
func IfChain(s *ast.IfStmt) []*ast.IfStmt {
	var out []*ast.IfStmt
	for s != nil {
		out = append(out, s)
		next, _ := s.Else.(*ast.IfStmt)
		s = next
	}
	return out
}

// ExprTypeName returns the named type of an expression's static type (pointer stripped).
func ExprTypeName(e ast.Expr, info *types.Info) (pkg, name string) {
	if e == nil {
		return "", ""
	}
	tv, ok := info.Types[e]
	if !ok {
		return "", ""
	}
	return TypeName(tv.Type)
}

// IsConst reports whether the expression is a compile-time constant.
func IsConst(e ast.Expr, info *types.Info) bool {
	tv, ok := info.Types[e]
	return ok && tv.Value != nil
}

// FuncDeclsIn lists the function declarations of a module-relative package, with their objects.
func (w *World) FuncDeclsIn(rel string) []*ast.FuncDecl {
	p := w.Pkg(rel)
	if p == nil {
		return nil
	}
	var out []*ast.FuncDecl
	for _, f := range p.Syntax {
		for _, d := range f.Decls {
			if fd, ok := d.(*ast.FuncDecl); ok && fd.Body != nil {
				out = append(out, fd)
			}
		}
	}
	return out
}

// DeclKey names a function declaration.
func DeclKey(p *packages.Package, fd *ast.FuncDecl) string {
	if o, ok := p.TypesInfo.Defs[fd.Name].(*types.Func); ok {
		return FuncKey(o)
	}
	return fd.Name.Name
}

var _ = token.NoPos

// TypeSwitchTable extracts, from the first type switch of fd, the map case-type-name -> outcome, where outcome is
// "return", "return:<expr>", "panic:<type or expr>" or "other" (the clause body's last statement).
func TypeSwitchTable(fd *ast.FuncDecl, info *types.Info) (map[string]string, *ast.TypeSwitchStmt) {
	var ts *ast.TypeSwitchStmt
	ast.Inspect(fd, func(n ast.Node) bool {
		if x, ok := n.(*ast.TypeSwitchStmt); ok && ts == nil {
			ts = x
		}
		return ts == nil
	})
	if ts == nil {
		return nil, nil
	}
	out := map[string]string{}
	for _, st := range ts.Body.List {
		cc := st.(*ast.CaseClause)
		oc := "other"
		if len(cc.Body) > 0 {
			switch s := cc.Body[len(cc.Body)-1].(type) {
			case *ast.ReturnStmt:
				oc = "return"
				if len(s.Results) > 0 {
					oc = "return:" + types.ExprString(s.Results[0])
				}
			case *ast.ExprStmt:
				if c, ok := s.X.(*ast.CallExpr); ok {
					if id, ok := c.Fun.(*ast.Ident); ok && id.Name == "panic" && len(c.Args) == 1 {
						a := c.Args[0]
						if ue, ok := a.(*ast.UnaryExpr); ok && ue.Op == token.AND {
							a = ue.X
						}
						if cl, ok := a.(*ast.CompositeLit); ok {
							_, tn := ExprTypeName(cl, info)
							oc = "panic:" + tn
						} else {
							oc = "panic:" + types.ExprString(a)
						}
					}
				}
			}
		}
		if cc.List == nil {
			out["default"] = oc
			continue
		}
		for _, e := range cc.List {
			name := types.ExprString(e)
			if tv, ok := info.Types[e]; ok && tv.IsType() {
				_, name = TypeName(tv.Type)
			}
			out[name] = oc
		}
	}
	return out, ts
}
