package core

import (
	"encoding/json"
	"fmt"
	"go/token"
	"os"
	"path/filepath"
	"sort"
	"strings"
	"time"
)

// Obligation is one decided (or undecided) instance of a rule.
type Obligation struct {
	Rule      string `json:"rule"`
	Construct string `json:"construct"`
	Pos       string `json:"pos,omitempty"`
	Verdict   string `json:"verdict"` // discharged | violation | undecided | known-finding
	By        string `json:"by,omitempty"`
}

// KnownFinding is one entry of /verif/known_findings.json.
type KnownFinding struct {
	Property  string `json:"property"`
	Rule      string `json:"rule"`
	Construct string `json:"construct"`
	Status    string `json:"status"` // "known" or "fixed"
	Commit    string `json:"commit,omitempty"`
	What      string `json:"what"`
}

// Run collects the obligations of one property check.
type Run struct {
	Prop  string
	Tier  string
	W     *World
	Obls  []Obligation
	Info  []string
	Known []KnownFinding
	// Explanation is the prose for the evidence file (clauses decided / not decided).
	Explanation string
	NotDecided  string
	Assumptions []string
	floors      map[string]int
	VerifDir    string
	start       time.Time
}

func NewRun(prop, tier string, w *World, known []KnownFinding) *Run {
	return &Run{Prop: prop, Tier: tier, W: w, Known: known, floors: map[string]int{}, start: time.Now()}
}

func (r *Run) pos(p token.Pos) string {
	if r.W == nil {
		return "-"
	}
	return r.W.Pos(p)
}

// OK records a discharged obligation.
func (r *Run) OK(rule, construct string, p token.Pos, by string) {
	r.Obls = append(r.Obls, Obligation{Rule: rule, Construct: construct, Pos: r.pos(p), Verdict: "discharged", By: by})
}

// Bad records a violated obligation (or a known finding if listed).
func (r *Run) Bad(rule, construct string, p token.Pos, why string) {
	v := "violation"
	for _, k := range r.Known {
		if k.Status == "known" && k.Property == r.Prop && k.Rule == rule && k.Construct == construct {
			v = "known-finding"
			why = why + " [known: " + k.What + "]"
		}
	}
	r.Obls = append(r.Obls, Obligation{Rule: rule, Construct: construct, Pos: r.pos(p), Verdict: v, By: why})
}

// Undecided records an obligation the rule could not decide; it fails the check.
func (r *Run) Undecided(rule, construct string, why string) {
	r.Obls = append(r.Obls, Obligation{Rule: rule, Construct: construct, Verdict: "undecided", By: why})
}

// Check is OK or Bad depending on cond.
func (r *Run) Check(cond bool, rule, construct string, p token.Pos, okBy, badWhy string) bool {
	if cond {
		r.OK(rule, construct, p, okBy)
	} else {
		r.Bad(rule, construct, p, badWhy)
	}
	return cond
}

// Floor demands that at least n obligations of the rule were matched.
func (r *Run) Floor(rule string, n int) { r.floors[rule] = n }

// Note adds an informational line to the evidence (never a verdict).
func (r *Run) Note(format string, a ...any) { r.Info = append(r.Info, fmt.Sprintf(format, a...)) }

// Count returns the number of obligations recorded for a rule.
func (r *Run) Count(rule string) int {
	n := 0
	for _, o := range r.Obls {
		if o.Rule == rule {
			n++
		}
	}
	return n
}

type ruleStat struct {
	Matched    int `json:"matched"`
	Floor      int `json:"floor"`
	Discharged int `json:"discharged"`
	Violations int `json:"violations"`
	Undecided  int `json:"undecided"`
	Known      int `json:"known_findings"`
}

// Finish enforces floors, writes the evidence file and prints the verdict lines.
// It returns the process exit code.
func (r *Run) Finish(evidenceDir string, cmdline string, stats map[string]any) int {
	// floors
	rules := map[string]*ruleStat{}
	for _, o := range r.Obls {
		s := rules[o.Rule]
		if s == nil {
			s = &ruleStat{}
			rules[o.Rule] = s
		}
		s.Matched++
		switch o.Verdict {
		case "discharged":
			s.Discharged++
		case "violation":
			s.Violations++
		case "undecided":
			s.Undecided++
		case "known-finding":
			s.Known++
		}
	}
	for rule, n := range r.floors {
		s := rules[rule]
		if s == nil {
			s = &ruleStat{}
			rules[rule] = s
		}
		s.Floor = n
		if s.Matched < n {
			r.Obls = append(r.Obls, Obligation{Rule: rule, Construct: "instance-floor", Verdict: "undecided",
				By: fmt.Sprintf("rule matched %d instances, floor confirmed on the pinned tree is %d: an anchor moved or the rule no longer sees the code", s.Matched, n)})
			s.Undecided++
			s.Matched++
		}
	}
	var bad, known, undec []Obligation
	disch := 0
	for _, o := range r.Obls {
		switch o.Verdict {
		case "violation":
			bad = append(bad, o)
		case "undecided":
			undec = append(undec, o)
		case "known-finding":
			known = append(known, o)
		default:
			disch++
		}
	}
	// samples: up to 2 per rule, violations first
	samples := []Obligation{}
	samples = append(samples, bad...)
	samples = append(samples, undec...)
	samples = append(samples, known...)
	perRule := map[string]int{}
	for _, o := range r.Obls {
		if o.Verdict != "discharged" {
			continue
		}
		if perRule[o.Rule] < 3 {
			perRule[o.Rule]++
			samples = append(samples, o)
		}
	}
	if len(samples) > 120 {
		samples = samples[:120]
	}
	distinct := map[string]bool{}
	for _, o := range r.Obls {
		distinct[o.Rule+"|"+o.Construct] = true
	}
	cov := map[string]any{
		"explanation": r.Explanation + " NOT DECIDED by this check: " + r.NotDecided +
			" This is a static check of structural necessary conditions; the behaviour quantified by the property is not executed or decided.",
		"obligations":         len(r.Obls),
		"discharged":          disch,
		"evaluations":         len(r.Obls),
		"distinct_nontrivial": len(distinct),
		"rule":                "one obligation per (rule, resolved construct) found in /repo's current source; distinct = distinct (rule, construct) keys",
		"rule_instances":      rules,
		"samples":             samples,
		"checker_cmd":         cmdline,
		"trusted_base":        []string{"go/types type checker", "golang.org/x/tools v0.29.0 go/packages, go/ssa, callgraph/vta", "the rule tables in /verif/cadcheck/rules"},
		"information":         r.Info,
		"known_findings":      len(known),
		"undecided":           len(undec),
	}
	for k, v := range stats {
		cov[k] = v
	}
	seed := 0
	fmt.Sscanf(os.Getenv("VERIF_SEED"), "%d", &seed)
	ev := map[string]any{
		"property_id": r.Prop,
		"tier":        r.Tier,
		"seed":        seed,
		"level":       "other",
		"coverage":    cov,
		"assumptions": append([]string{"the source under /repo is what is built (no cgo/asm overrides of the analysed functions)",
			"calls through Cadence function values and reflection are not followed"}, r.Assumptions...),
		"wall_s":     time.Since(r.start).Seconds(),
		"violations": len(bad) + len(undec),
	}
	evPath := filepath.Join(evidenceDir, r.Prop+".json")
	_ = os.MkdirAll(evidenceDir, 0o755)
	b, _ := json.MarshalIndent(ev, "", " ")
	if err := os.WriteFile(evPath, b, 0o644); err != nil {
		fmt.Printf("cannot write evidence: %v\n", err)
		return 2
	}
	if os.Getenv("CADCHECK_DUMP") != "" {
		for _, o := range r.Obls {
			fmt.Printf("OBL %s %s | %s | %s | %s | %s\n", r.Prop, o.Rule, o.Construct, o.Pos, o.Verdict, Short(o.By))
		}
	}
	names := make([]string, 0, len(rules))
	for k := range rules {
		names = append(names, k)
	}
	sort.Strings(names)
	for _, k := range names {
		s := rules[k]
		fmt.Printf("%s %-10s matched=%d floor=%d discharged=%d violations=%d undecided=%d known=%d\n",
			r.Prop, k, s.Matched, s.Floor, s.Discharged, s.Violations, s.Undecided, s.Known)
	}
	for _, o := range known {
		fmt.Printf("KNOWN-FINDING: property=%s rule=%s construct=%s at %s: %s\n", r.Prop, o.Rule, o.Construct, o.Pos, o.By)
	}
	for _, o := range bad {
		fmt.Printf("FAIL %s rule=%s construct=%s at %s: %s\n", r.Prop, o.Rule, o.Construct, o.Pos, o.By)
	}
	for _, o := range undec {
		fmt.Printf("UNDECIDED %s rule=%s construct=%s: %s\n", r.Prop, o.Rule, o.Construct, o.By)
	}
	if len(bad)+len(undec) > 0 {
		fmt.Printf("VIOLATION property=%s replay=%s\n", r.Prop, evPath)
		return 1
	}
	fmt.Printf("OK property=%s tier=%s obligations=%d discharged=%d known_findings=%d wall=%.1fs\n",
		r.Prop, r.Tier, len(r.Obls), disch, len(known), time.Since(r.start).Seconds())
	return 0
}

// LoadKnown reads known_findings.json (missing file = none).
func LoadKnown(path string) ([]KnownFinding, error) {
	b, err := os.ReadFile(path)
	if err != nil {
		if os.IsNotExist(err) {
			return nil, nil
		}
		return nil, err
	}
	var f struct {
		Findings []KnownFinding `json:"findings"`
	}
	if err := json.Unmarshal(b, &f); err != nil {
		return nil, err
	}
	return f.Findings, nil
}

// Short trims long strings for report lines.
func Short(s string) string {
	s = strings.Join(strings.Fields(s), " ")
	if len(s) > 160 {
		return s[:157] + "..."
	}
	return s
}

// Table reads a reviewed table /verif/tables/<name>.json into v; a missing or malformed table is undecided.
func (r *Run) Table(name string, v any) bool {
	b, err := os.ReadFile(filepath.Join(r.VerifDir, "tables", name+".json"))
	if err != nil {
		r.Undecided("tables", name, "reviewed table missing: "+err.Error())
		return false
	}
	if err := json.Unmarshal(b, v); err != nil {
		r.Undecided("tables", name, "reviewed table malformed: "+err.Error())
		return false
	}
	return true
}
