package core

import (
	"go/token"
	"go/types"

	"golang.org/x/tools/go/ssa"
)

// ErrFlow is the result of following an error value to its sinks.
type ErrFlow struct {
	Dropped bool     // the error result is not even extracted / is assigned to _
	Sinks   []string // kinds of sinks reached: panic, return, stored, handler:<callee>
	// Swallow is a return reachable on the error's non-nil edge that carries nothing derived from it.
	Swallow *ssa.Return
	// Tested reports whether a nil test on the value exists.
	Tested bool
}

// cellAliases returns addr plus the free variables it is bound to in closures (and, for a free
// variable, the cell it was bound from in enclosing functions).
func cellAliases(addr ssa.Value) []ssa.Value {
	seen := map[ssa.Value]bool{}
	var out []ssa.Value
	var add func(v ssa.Value)
	add = func(v ssa.Value) {
		if v == nil || seen[v] {
			return
		}
		seen[v] = true
		out = append(out, v)
		// downwards: closures binding v
		if refs := v.Referrers(); refs != nil {
			for _, ref := range *refs {
				if mc, ok := ref.(*ssa.MakeClosure); ok {
					fn := mc.Fn.(*ssa.Function)
					for i, b := range mc.Bindings {
						if b == v && i < len(fn.FreeVars) {
							add(fn.FreeVars[i])
						}
					}
				}
			}
		}
		// upwards: free variable -> binding in the parent
		if fv, ok := v.(*ssa.FreeVar); ok {
			fn := fv.Parent()
			idx := -1
			for i, x := range fn.FreeVars {
				if x == fv {
					idx = i
				}
			}
			if p := fn.Parent(); p != nil && idx >= 0 {
				Instrs(p, false, func(in ssa.Instruction) {
					if mc, ok := in.(*ssa.MakeClosure); ok && mc.Fn == fn && idx < len(mc.Bindings) {
						add(mc.Bindings[idx])
					}
				})
			}
		}
	}
	add(addr)
	return out
}

func isInspector(o *types.Func) bool {
	if o == nil {
		return false
	}
	if o.Pkg() != nil {
		switch o.Pkg().Path() {
		case "errors":
			return o.Name() == "As" || o.Name() == "Is"
		case "fmt":
			// Errorf/Sprintf wrap the value: their result carries it (handled as a derived value); printing is inspection
			return !(o.Name() == "Errorf" || o.Name() == "Sprintf" || o.Name() == "Sprint")
		}
	}
	if o.Name() == "Error" && RecvName(o) != "" {
		return true
	}
	return false
}

// FollowErr follows the error result of call c.
func FollowErr(c ssa.CallInstruction) ErrFlow {
	var res ErrFlow
	errs := ErrResults(c)
	if len(errs) == 0 {
		res.Dropped = true
		return res
	}
	derived := map[ssa.Value]bool{}
	var work []ssa.Value
	add := func(v ssa.Value) {
		if v != nil && !derived[v] {
			derived[v] = true
			work = append(work, v)
		}
	}
	for _, e := range errs {
		add(e)
	}
	sinkInstrs := map[ssa.Instruction]bool{}
	var cur ssa.Instruction
	sink := func(s string) {
		res.Sinks = append(res.Sinks, s)
		if cur != nil {
			sinkInstrs[cur] = true
		}
	}
	for len(work) > 0 {
		v := work[0]
		work = work[1:]
		refs := v.Referrers()
		if refs == nil {
			continue
		}
		for _, ref := range *refs {
			cur = ref
			switch in := ref.(type) {
			case *ssa.Panic:
				sink("panic")
			case *ssa.Return:
				sink("return")
			case *ssa.Store:
				if in.Val != v {
					continue
				}
				switch a := in.Addr.(type) {
				case *ssa.Alloc, *ssa.FreeVar:
					for _, al := range cellAliases(a) {
						if r := al.Referrers(); r != nil {
							for _, x := range *r {
								if u, ok := x.(*ssa.UnOp); ok && u.Op == token.MUL {
									add(u)
								}
							}
						}
					}
				default:
					sink("stored")
					// a store into a field/element of a local aggregate makes the aggregate carry the error
					if base := addrBase(in.Addr); base != nil {
						add(base)
						if r := base.Referrers(); r != nil {
							for _, x := range *r {
								if u, ok := x.(*ssa.UnOp); ok && u.Op == token.MUL {
									add(u)
								}
							}
						}
					}
				}
			case *ssa.MapUpdate, *ssa.Send:
				sink("stored")
			case ssa.CallInstruction:
				o := Callee(in)
				if isInspector(o) {
					continue
				}
				if b, ok := in.Common().Value.(*ssa.Builtin); ok {
					if b.Name() == "append" {
						add(in.Value())
					}
					continue
				}
				if in.Value() == nil || in.Common().Signature().Results().Len() == 0 {
					name := "dynamic"
					if o != nil {
						name = FuncKey(o)
					}
					sink("handler:" + name)
					continue
				}
				add(in.Value())
			case *ssa.Extract:
				add(in)
			case *ssa.Slice:
				add(in)
			case *ssa.Phi:
				add(in)
			case *ssa.MakeInterface:
				add(in)
			case *ssa.ChangeInterface:
				add(in)
			case *ssa.ChangeType:
				add(in)
			case *ssa.TypeAssert:
				add(in)
			case *ssa.Field:
				// reading a field of a derived struct
				add(in)
			case *ssa.MakeClosure:
				// captured by value into a closure: loads happen via FreeVar
				fn := in.Fn.(*ssa.Function)
				for i, b := range in.Bindings {
					if b == v && i < len(fn.FreeVars) {
						add(fn.FreeVars[i])
					}
				}
			}
		}
	}
	// swallow refinement: on the non-nil edge of a test of a derived value every reachable return carries a derived value
	fns := map[*ssa.Function]bool{}
	for v := range derived {
		if in, ok := v.(ssa.Instruction); ok {
			fns[in.Parent()] = true
		}
	}
	for fn := range fns {
		for _, t := range NilTests(fn) {
			raw := t.If.Cond.(*ssa.BinOp)
			x := raw.X
			if isNilConst(x) {
				x = raw.Y
			}
			if !derived[Unwrap(x)] && !derived[t.X] {
				continue
			}
			res.Tested = true
			if t.NilSucc == t.NonNilSucc {
				continue
			}
			seen := map[*ssa.BasicBlock]bool{}
			var walk func(b *ssa.BasicBlock)
			walk = func(b *ssa.BasicBlock) {
				if seen[b] || res.Swallow != nil {
					return
				}
				seen[b] = true
				for _, in := range b.Instrs {
					if sinkInstrs[in] {
						// the error was handed to a handler / stored / thrown on this path
						return
					}
					if ret, ok := in.(*ssa.Return); ok {
						carries := false
						for _, rv := range ret.Results {
							if derived[rv] || derived[Unwrap(rv)] {
								carries = true
							}
						}
						if !carries {
							res.Swallow = ret
						}
					}
				}
				for _, s := range b.Succs {
					walk(s)
				}
			}
			walk(t.NonNilSucc)
		}
	}
	return res
}

// addrBase returns the local allocation a field/index address chain is rooted in (nil otherwise).
func addrBase(a ssa.Value) ssa.Value {
	for i := 0; i < 8; i++ {
		switch x := a.(type) {
		case *ssa.FieldAddr:
			a = x.X
		case *ssa.IndexAddr:
			a = x.X
		case *ssa.Alloc:
			return x
		default:
			return nil
		}
	}
	return nil
}

// CellAliases exposes cellAliases.
func CellAliases(a ssa.Value) []ssa.Value { return cellAliases(a) }
