package core

import (
	"go/token"
	"go/types"
	"regexp"
	"strconv"
	"strings"

	"golang.org/x/tools/go/ssa"
)

// SEMSIG: a semantic signature of a function, used as the fallback of the sibling comparison. Two sibling members
// whose token streams differ (one of them was restructured: a condition inverted, a local introduced, two returns
// merged through a variable, a tagless switch instead of an if-chain) still agree when the sets of their path
// summaries agree: for every acyclic path (including those ending in a panic) the set of branch outcomes taken and
// the sequence of calls, stores to non-local memory, the panic value and the returned values, each described by
// callee name and the origin leaves of its operands, with phis resolved along the path. Family parameters (the
// member's tag, native type and functions of its bit width) are replaced by placeholders.

var constRe = regexp.MustCompile(`const:(-?[0-9]+)`)

func normWidthConsts(s string, m FamilyMember) string {
	if m.Width <= 0 {
		return s
	}
	w := int64(m.Width)
	return constRe.ReplaceAllStringFunc(s, func(c string) string {
		v, err := strconv.ParseInt(strings.TrimPrefix(c, "const:"), 10, 64)
		if err != nil {
			return c
		}
		switch v {
		case w:
			return "const:§W"
		case w - 1:
			return "const:§W-1"
		case w * 2:
			return "const:§W*2"
		}
		if w >= 16 {
			switch v {
			case w / 8:
				return "const:§W/8"
			case w/8 + 1:
				return "const:§W/8+1"
			}
		}
		if w >= 128 {
			switch v {
			case w / 64:
				return "const:§W/64"
			case w / 32:
				return "const:§W/32"
			}
		}
		return c
	})
}

func semValue(v ssa.Value, resolve func(ssa.Value) ssa.Value, depth int) string {
	return semValueD(v, resolve, depth, 0)
}

// semValueD renders a value as an expression tree: operators, callee names, field names, constants and parameters are
// kept (so `a + b` and `a - b`, `x.f` and `x.g`, `<` and `<=` differ); phis are resolved along the path; locals and
// anything deeper than the bound fall back to their origin leaves.
func semValueD(v ssa.Value, resolve func(ssa.Value) ssa.Value, depth, vdepth int) string {
	v = resolve(v)
	if vdepth > 7 {
		return shortType(v.Type()) + OriginLeavesVia(v)
	}
	rec := func(u ssa.Value) string { return semValueD(u, resolve, depth, vdepth+1) }
	switch x := v.(type) {
	case *ssa.MakeClosure:
		if fn, ok := x.Fn.(*ssa.Function); ok && depth < 2 {
			sums, ok := semSummaries(fn, depth+1)
			if ok {
				return "closure{" + strings.Join(sums, " || ") + "}"
			}
		}
		return "closure" + OriginLeavesVia(v)
	case *ssa.Const:
		return ValueDesc(x)
	case *ssa.Call:
		name := "call"
		if o := Callee(x); o != nil {
			name = o.Name()
		} else if b, ok := x.Call.Value.(*ssa.Builtin); ok {
			name = b.Name()
		} else if !x.Call.IsInvoke() {
			name = "dyn:" + rec(x.Call.Value)
		}
		var as []string
		if x.Call.IsInvoke() {
			as = append(as, rec(x.Call.Value))
		}
		for _, a := range x.Call.Args {
			as = append(as, rec(a))
		}
		return name + "(" + strings.Join(as, ", ") + ")"
	case *ssa.BinOp:
		return "(" + rec(x.X) + " " + x.Op.String() + " " + rec(x.Y) + ")"
	case *ssa.UnOp:
		if x.Op == token.MUL {
			// a load: from a field / element / global, or from a local cell (a cell written once is its value)
			switch a := x.X.(type) {
			case *ssa.FieldAddr, *ssa.IndexAddr, *ssa.Global:
				return rec(a)
			case *ssa.Alloc:
				if st := soleStore(a); st != nil {
					return rec(st.Val)
				}
			case *ssa.FreeVar:
				if b := freeVarBinding(a); b != nil {
					if al, ok := b.(*ssa.Alloc); ok {
						if st := soleStore(al); st != nil {
							return rec(st.Val)
						}
					}
				}
			}
			return shortType(v.Type()) + OriginLeavesVia(v)
		}
		return x.Op.String() + rec(x.X)
	case *ssa.FieldAddr:
		if pt, ok := x.X.Type().Underlying().(*types.Pointer); ok {
			if st, ok := pt.Elem().Underlying().(*types.Struct); ok {
				return rec(x.X) + "." + st.Field(x.Field).Name()
			}
		}
	case *ssa.Field:
		if st, ok := x.X.Type().Underlying().(*types.Struct); ok {
			return rec(x.X) + "." + st.Field(x.Field).Name()
		}
	case *ssa.IndexAddr:
		return rec(x.X) + "[" + rec(x.Index) + "]"
	case *ssa.Index:
		return rec(x.X) + "[" + rec(x.Index) + "]"
	case *ssa.Lookup:
		return rec(x.X) + "[" + rec(x.Index) + "]"
	case *ssa.Slice:
		lo, hi := "", ""
		if x.Low != nil {
			lo = rec(x.Low)
		}
		if x.High != nil {
			hi = rec(x.High)
		}
		return rec(x.X) + "[" + lo + ":" + hi + "]"
	case *ssa.Extract:
		return rec(x.Tuple) + "#" + itoa(x.Index)
	case *ssa.TypeAssert:
		return rec(x.X) + ".(" + shortType(x.AssertedType) + ")"
	case *ssa.MakeInterface:
		return semValueD(x.X, resolve, depth, vdepth)
	case *ssa.ChangeInterface:
		return semValueD(x.X, resolve, depth, vdepth)
	case *ssa.ChangeType:
		return semValueD(x.X, resolve, depth, vdepth)
	case *ssa.Convert:
		return "conv:" + shortType(x.Type()) + "(" + rec(x.X) + ")"
	case *ssa.Global:
		return "global:" + x.Pkg.Pkg.Name() + "." + x.Name()
	case *ssa.Function:
		return "func:" + x.Name()
	case *ssa.Parameter:
		return shortType(v.Type()) + OriginLeaves(v)
	case *ssa.Alloc:
		// a local cell written once stands for its value; a composite literal / address-taken local is described by
		// its type and what is stored into it
		if st := soleStore(x); st != nil {
			return rec(st.Val)
		}
		return "new:" + shortType(x.Type()) + OriginLeavesVia(x)
	case *ssa.FreeVar:
		if b := freeVarBinding(x); b != nil {
			return rec(b)
		}
	}
	return shortType(v.Type()) + OriginLeavesVia(v)
}

func semCond(cond ssa.Value, val bool, resolve func(ssa.Value) ssa.Value) string {
	pol := "+"
	if !val {
		pol = "-"
	}
	return pol + semValueD(cond, resolve, 0, 0)
}

func semSummaries(fn *ssa.Function, depth int) ([]string, bool) {
	return PathSummariesRP(fn, 600, true, func(in ssa.Instruction, resolve func(ssa.Value) ssa.Value) string {
		switch x := in.(type) {
		case ssa.CallInstruction:
			cc := x.Common()
			name := "call"
			if o := Callee(x); o != nil {
				name = o.Name()
			} else if b, ok := cc.Value.(*ssa.Builtin); ok {
				name = b.Name()
			} else if !cc.IsInvoke() {
				name = "dyn:" + semValue(cc.Value, resolve, depth)
			}
			var as []string
			if cc.IsInvoke() {
				as = append(as, semValue(cc.Value, resolve, depth))
			}
			for _, a := range cc.Args {
				as = append(as, semValue(a, resolve, depth))
			}
			kind := ""
			switch in.(type) {
			case *ssa.Defer:
				kind = "defer "
			case *ssa.Go:
				kind = "go "
			}
			return kind + name + "(" + strings.Join(as, ", ") + ")"
		case *ssa.Store:
			switch a := x.Addr.(type) {
			case *ssa.Alloc:
				return ""
			case *ssa.FieldAddr:
				if _, local := a.X.(*ssa.Alloc); local {
					// initialisation of a composite literal: part of the literal's origin
					return "init(" + OriginLeaves(a) + " ← " + semValue(x.Val, resolve, depth) + ")"
				}
			}
			return "store(" + OriginLeaves(x.Addr) + " ← " + semValue(x.Val, resolve, depth) + ")"
		case *ssa.MapUpdate:
			return "mapupdate(" + OriginLeaves(x.Map) + "[" + semValue(x.Key, resolve, depth) + "] ← " + semValue(x.Value, resolve, depth) + ")"
		case *ssa.Panic:
			return "panic(" + semValue(x.X, resolve, depth) + ")"
		case *ssa.Return:
			var rs []string
			for _, rv := range x.Results {
				rs = append(rs, semValue(rv, resolve, depth))
			}
			return "return(" + strings.Join(rs, ", ") + ")"
		}
		return ""
	}, semCond)
}

// SemanticSig returns the normalised path-summary signature of f as a member m of a sibling family.
func (w *World) SemanticSig(f *types.Func, m FamilyMember) (string, bool) {
	fn := w.Prog.FuncValue(f)
	if fn == nil || len(fn.Blocks) == 0 {
		return "", false
	}
	sums, ok := semSummaries(fn, 0)
	if !ok {
		return "", false
	}
	s := strings.Join(sums, "\n")
	s = replaceTag(s, m)
	s = normWidthConsts(s, m)
	return s, true
}

// freeVarBinding returns the value bound to a closure's free variable at the (single) MakeClosure of its function.
func freeVarBinding(fv *ssa.FreeVar) ssa.Value {
	fn := fv.Parent()
	idx := -1
	for i, v := range fn.FreeVars {
		if v == fv {
			idx = i
		}
	}
	par := fn.Parent()
	if par == nil || idx < 0 {
		return nil
	}
	var found ssa.Value
	n := 0
	Instrs(par, false, func(in ssa.Instruction) {
		if mc, ok := in.(*ssa.MakeClosure); ok && mc.Fn == ssa.Value(fn) && idx < len(mc.Bindings) {
			found = mc.Bindings[idx]
			n++
		}
	})
	if n == 1 {
		return found
	}
	return nil
}

// FreeVarBinding is the exported form of freeVarBinding.
func FreeVarBinding(fv *ssa.FreeVar) ssa.Value { return freeVarBinding(fv) }
