// Package core holds the loader, the resolved-program helpers and the
// obligation/evidence bookkeeping shared by all rules.
package core

import (
	"fmt"
	"go/ast"
	"go/token"
	"go/types"
	"os"
	"path/filepath"
	"sort"
	"strings"
	"sync"

	"golang.org/x/tools/go/callgraph"
	"golang.org/x/tools/go/callgraph/cha"
	"golang.org/x/tools/go/callgraph/vta"
	"golang.org/x/tools/go/packages"
	"golang.org/x/tools/go/ssa"
	"golang.org/x/tools/go/ssa/ssautil"
)

// Mod is the module path of the analysed repository.
const Mod = "github.com/onflow/cadence"

// ScopePkgs are the shipped (non-test, non-tool) packages the rules look at.
// Generated files inside them are in scope.
var ScopePkgs = []string{
	".", "./activations", "./ast", "./bbq", "./bbq/commons", "./bbq/compiler", "./bbq/constant",
	"./bbq/leb128", "./bbq/opcode", "./bbq/vm", "./common", "./common/bimap", "./common/deps",
	"./common/intervalst", "./common/list", "./common/orderedmap", "./common/persistent",
	"./encoding/ccf", "./encoding/json", "./errors", "./fixedpoint", "./format", "./integer",
	"./interpreter", "./parser", "./parser/lexer", "./pretty", "./runtime", "./sema",
	"./stdlib", "./stdlib/contracts", "./stdlib/rlp", "./values",
}

// ExtraPkgs are loaded and analysable by the rules that name them (C39), but are not part of the shipped scope:
// module-wide rules (panic classification, error baseline, map ranges, globals) do not look at them.
var ExtraPkgs = []string{"./formatter", "./formatter/rewrite", "./formatter/trivia", "./formatter/verify"}

// World is the loaded, type-checked program plus its SSA form.
type World struct {
	Root   string
	Fset   *token.FileSet
	Roots  []*packages.Package
	ByPath map[string]*packages.Package
	Prog   *ssa.Program

	cgOnce sync.Once
	cg     *callgraph.Graph

	declOnce sync.Once
	decls    map[*types.Func]*ast.FuncDecl
	declPkg  map[*types.Func]*packages.Package

	LoadErrors []string
}

// Load type-checks the scope packages of the repository at root from source
// (packages.LoadAllSyntax: no export data, no build cache dependence) and
// builds SSA for the whole program.
func Load(root string, tags string) (*World, error) {
	env := []string{}
	for _, e := range os.Environ() {
		if strings.HasPrefix(e, "GOFLAGS=") || strings.HasPrefix(e, "GOWORK=") ||
			strings.HasPrefix(e, "GOSUMDB=") || strings.HasPrefix(e, "GOTOOLCHAIN=") {
			continue
		}
		env = append(env, e)
	}
	env = append(env, "GOFLAGS=-mod=mod", "GOPROXY=off", "GOWORK=off")
	cfg := &packages.Config{
		Mode:  packages.LoadAllSyntax,
		Dir:   root,
		Env:   env,
		Tests: false,
	}
	if tags != "" {
		cfg.BuildFlags = []string{"-tags=" + tags}
	}
	pkgs, err := packages.Load(cfg, append(append([]string{}, ScopePkgs...), ExtraPkgs...)...)
	if err != nil {
		return nil, err
	}
	if len(pkgs) < len(ScopePkgs)+len(ExtraPkgs) {
		return nil, fmt.Errorf("loaded %d packages, expected at least %d", len(pkgs), len(ScopePkgs)+len(ExtraPkgs))
	}
	w := &World{Root: root, Roots: pkgs, ByPath: map[string]*packages.Package{}}
	packages.Visit(pkgs, nil, func(p *packages.Package) {
		w.ByPath[p.PkgPath] = p
		if w.Fset == nil {
			w.Fset = p.Fset
		}
		if strings.HasPrefix(p.PkgPath, Mod) {
			for _, e := range p.Errors {
				w.LoadErrors = append(w.LoadErrors, p.PkgPath+": "+e.Error())
			}
		}
	})
	prog, _ := ssautil.AllPackages(pkgs, ssa.InstantiateGenerics)
	prog.Build()
	w.Prog = prog
	return w, nil
}

// InMod reports whether the package path belongs to the analysed module.
func InMod(path string) bool { return path == Mod || strings.HasPrefix(path, Mod+"/") }

// Pkg returns the package with the module-relative path rel ("" or "." = root package).
func (w *World) Pkg(rel string) *packages.Package {
	p := Mod
	if rel != "" && rel != "." {
		p = Mod + "/" + rel
	}
	return w.ByPath[p]
}

// ExtPkg returns a dependency package by full path.
func (w *World) ExtPkg(path string) *packages.Package { return w.ByPath[path] }

// Pos renders a position relative to the repository root.
func (w *World) Pos(p token.Pos) string {
	if !p.IsValid() {
		return "-"
	}
	pp := w.Fset.Position(p)
	rel, err := filepath.Rel(w.Root, pp.Filename)
	if err != nil || strings.HasPrefix(rel, "..") {
		rel = pp.Filename
	}
	return fmt.Sprintf("%s:%d", rel, pp.Line)
}

// File renders only the repository-relative file of a position.
func (w *World) File(p token.Pos) string {
	s := w.Pos(p)
	if i := strings.LastIndex(s, ":"); i >= 0 {
		return s[:i]
	}
	return s
}

// Lookup finds a package-level object.
func (w *World) Lookup(rel, name string) types.Object {
	p := w.Pkg(rel)
	if p == nil || p.Types == nil {
		return nil
	}
	return p.Types.Scope().Lookup(name)
}

// Named finds a named type.
func (w *World) Named(rel, name string) *types.Named {
	o := w.Lookup(rel, name)
	if o == nil {
		return nil
	}
	tn, ok := o.(*types.TypeName)
	if !ok {
		return nil
	}
	n, _ := tn.Type().(*types.Named)
	return n
}

// FuncObj resolves a function ("" recv) or method (recv = type name, value or pointer receiver).
func (w *World) FuncObj(rel, recv, name string) *types.Func {
	if recv == "" {
		f, _ := w.Lookup(rel, name).(*types.Func)
		return f
	}
	n := w.Named(rel, recv)
	if n == nil {
		return nil
	}
	for i := 0; i < n.NumMethods(); i++ {
		if m := n.Method(i); m.Name() == name {
			return m
		}
	}
	// interface method
	if it, ok := n.Underlying().(*types.Interface); ok {
		for i := 0; i < it.NumMethods(); i++ {
			if m := it.Method(i); m.Name() == name {
				return m
			}
		}
	}
	return nil
}

// Fn resolves the SSA function of a declared function or method.
func (w *World) Fn(rel, recv, name string) *ssa.Function {
	o := w.FuncObj(rel, recv, name)
	if o == nil {
		return nil
	}
	return w.Prog.FuncValue(o)
}

// indexDecls maps every declared function object of the module to its syntax.
func (w *World) indexDecls() {
	w.declOnce.Do(func() {
		w.decls = map[*types.Func]*ast.FuncDecl{}
		w.declPkg = map[*types.Func]*packages.Package{}
		for path, p := range w.ByPath {
			if !InMod(path) {
				continue
			}
			for _, f := range p.Syntax {
				for _, d := range f.Decls {
					fd, ok := d.(*ast.FuncDecl)
					if !ok {
						continue
					}
					if o, ok := p.TypesInfo.Defs[fd.Name].(*types.Func); ok {
						w.decls[o] = fd
						w.declPkg[o] = p
					}
				}
			}
		}
	})
}

// Decl returns the syntax of a declared module function (nil if none).
func (w *World) Decl(f *types.Func) (*ast.FuncDecl, *packages.Package) {
	w.indexDecls()
	if f == nil {
		return nil, nil
	}
	f = f.Origin()
	return w.decls[f], w.declPkg[f]
}

// ModFuncs returns every declared function object of the module packages in scope, sorted.
func (w *World) ModFuncs() []*types.Func {
	w.indexDecls()
	out := make([]*types.Func, 0, len(w.decls))
	for f := range w.decls {
		out = append(out, f)
	}
	sort.Slice(out, func(i, j int) bool { return FuncKey(out[i]) < FuncKey(out[j]) })
	return out
}

// ScopeSet is the set of module package paths the rules treat as shipped code.
func (w *World) InScope(path string) bool {
	if !InMod(path) {
		return false
	}
	for _, x := range ExtraPkgs {
		if path == Mod+strings.TrimPrefix(x, ".") {
			return false
		}
	}
	for _, r := range w.Roots {
		if r.PkgPath == path {
			return true
		}
	}
	return false
}

// CallGraph returns the VTA-refined call graph (built on first use).
func (w *World) CallGraph() *callgraph.Graph {
	w.cgOnce.Do(func() {
		fns := ssautil.AllFunctions(w.Prog)
		w.cg = vta.CallGraph(fns, cha.CallGraph(w.Prog))
	})
	return w.cg
}

// RelPkg strips the module prefix from a package path.
func RelPkg(path string) string {
	if path == Mod {
		return "."
	}
	return strings.TrimPrefix(path, Mod+"/")
}

// FuncKey is the stable, position-free name of a function object:
// "pkg.Func" or "pkg.(Recv).Method".
func FuncKey(f *types.Func) string {
	if f == nil {
		return "<nil>"
	}
	pkg := ""
	if f.Pkg() != nil {
		pkg = RelPkg(f.Pkg().Path())
	}
	sig, _ := f.Type().(*types.Signature)
	if sig != nil && sig.Recv() != nil {
		t := sig.Recv().Type()
		if p, ok := t.(*types.Pointer); ok {
			t = p.Elem()
		}
		name := types.TypeString(t, func(*types.Package) string { return "" })
		if n, ok := t.(*types.Named); ok {
			name = n.Obj().Name()
		}
		return pkg + ".(" + name + ")." + f.Name()
	}
	return pkg + "." + f.Name()
}

// SSAKey names an SSA function (closures as parent$n).
func SSAKey(f *ssa.Function) string {
	if f == nil {
		return "<nil>"
	}
	if f.Parent() != nil {
		return SSAKey(f.Parent()) + "$" + strings.TrimPrefix(f.Name(), f.Parent().Name()+"$")
	}
	if o, ok := f.Object().(*types.Func); ok && o != nil {
		return FuncKey(o)
	}
	if f.Origin() != nil {
		return SSAKey(f.Origin())
	}
	return f.String()
}
