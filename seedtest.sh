#!/bin/bash
# usage: seedtest.sh <patch.diff> <property[,property...]>  — applies the patch to /repo, runs the checks, reverts.
set -u
P="$1"; PROPS="$2"
cd /repo || exit 2
git diff --quiet || { echo "/repo not clean"; exit 2; }
git apply "$P" || { echo "patch does not apply"; exit 2; }
trap 'git -C /repo checkout -- . ; git -C /repo clean -fdq' EXIT
/verif/bin/cadcheck -repo /repo -verif /verif -evidence /tmp/seed_evidence -property "$PROPS" | grep -v "^OBL\|^KNOWN-FINDING\| matched=" | cut -c1-400
