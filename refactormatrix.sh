#!/bin/bash
# False-alarm test: applies every behaviour-preserving refactor of /verif/refactors/<id>/patch.diff in turn to a scratch
# worktree of /repo HEAD (REFAC_TREE, default: created under /tmp and removed afterwards), runs ALL checks on it and
# reverts. Any FAIL/UNDECIDED/VIOLATION line is a false alarm of the machinery (the refactors keep behaviour).
# Development aid; not part of any registered check.
set -u
BIN=${CADCHECK_BIN:-/verif/bin/cadcheck}
TREE=${REFAC_TREE:-}
made=0
if [ -z "$TREE" ]; then TREE=$(mktemp -d /tmp/refac_tree.XXXX); rmdir $TREE; git -C /repo worktree add -q --detach $TREE HEAD || exit 2; made=1; fi
EV=$(mktemp -d)
cd $TREE || exit 2
bad=0
for d in $(ls /verif/refactors | sort -V); do
  [ -f /verif/refactors/$d/patch.diff ] || continue
  echo "== $d"
  git apply /verif/refactors/$d/patch.diff 2>/dev/null || { echo "APPLY-FAIL $d (the tree moved on; regenerate the refactor)"; continue; }
  if $BIN -repo $TREE -verif /verif -property all -evidence $EV 2>&1 | grep -E "^FAIL|^UNDECIDED|^VIOLATION|panic:" | head -20 | grep . ; then bad=1; fi
  git checkout -- . ; git clean -fdq
done
rm -rf $EV
[ $made = 1 ] && git -C /repo worktree remove --force $TREE
echo "== END false-alarms=$bad"
