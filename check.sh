#!/bin/bash
# usage: ./check.sh <property-id> [quick|thorough]
# Builds the analyzer from /verif/cadcheck (incremental) and decides the property on /repo's current working tree.
set -u
ID="$1"; TIER="${2:-${VERIF_TIER:-quick}}"
HERE="$(cd "$(dirname "$0")" && pwd)"
unset GOSUMDB GOTOOLCHAIN GOWORK GOFLAGS
export GOFLAGS=-mod=mod GOPROXY=off
mkdir -p "$HERE/bin" "$HERE/evidence"
( cd "$HERE/cadcheck" && go build -o "$HERE/bin/cadcheck" ./cmd/cadcheck ) || { echo "VIOLATION property=$ID replay=$HERE/evidence/$ID.json"; echo "analyzer build failed"; exit 1; }
exec "$HERE/bin/cadcheck" -repo "${VERIF_REPO:-/repo}" -verif "$HERE" -property "$ID" -tier "$TIER"
