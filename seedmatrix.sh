#!/bin/bash
# Applies every confirmed seeded change in turn to a tree (default /repo; SEED_TREE=<scratch worktree of /repo HEAD> to keep /repo
# untouched while other work is in flight), runs ALL checks on it, reverts, and writes /verif/seeded/MATRIX.md
# (which properties/rules report each change; "own" = reported by the check of the seed's own property).
# Development aid; not part of any registered check.
set -u
OUT=/verif/seeded/MATRIX.md
TMP=$(mktemp -d)
TREE=${SEED_TREE:-/repo}
cd $TREE || exit 2
git diff --quiet || { echo "$TREE not clean"; exit 2; }
echo "tree: $TREE at $(git rev-parse --short HEAD)"
echo "| seed | property | own check | reported by (property:rule) | first report |" > $OUT
echo "|---|---|---|---|---|" >> $OUT
for d in /verif/seeded/*/; do
  id=$(basename $d)
  [ -f $d/patch.diff ] || continue
  prop=$(python3 -c "import json;print(json.load(open('$d/meta.json'))['property'])")
  if ! git apply $d/patch.diff 2>/dev/null; then echo "| $id | $prop | - | (patch no longer applies) | |" >> $OUT; continue; fi
  # SEED_ALL=1: run every property's check on every seed (slow); default: the seed's own property only
  if [ "${SEED_ALL:-0}" = 1 ]; then PROPS=all; else PROPS=$prop; fi
  /verif/bin/cadcheck -repo $TREE -verif /verif -evidence $TMP -property $PROPS > $TMP/out.txt 2>&1
  git checkout -- . ; git clean -fdq
  hits=$(grep "^FAIL\|^UNDECIDED" $TMP/out.txt | sed -E 's/^(FAIL|UNDECIDED) (C[0-9]+) rule=([^ ]+).*/\2:\3/' | sort -u | tr '\n' ' ')
  first=$(grep -m1 "^FAIL\|^UNDECIDED" $TMP/out.txt | cut -c1-220 | tr '|' '/')
  [ -z "$hits" ] && hits="**MISSED**"
  own=no; echo "$hits" | grep -q "$prop:" && own=yes
  echo "| $id | $prop | $own | $hits | $first |" >> $OUT
done
rm -rf $TMP
cat $OUT | cut -c1-200
