#!/usr/bin/env python3
"""Regenerates MANIFEST.json from the table below. A property is claimed only if cadcheck implements it
(`bin/cadcheck -list`) AND it has an entry in CLAIMS; everything else goes to not_applicable with its reason."""
import json, subprocess, sys, os
HERE = os.path.dirname(os.path.abspath(__file__))

NOTE = ("Trusted base: the Go type checker (go/types), go/packages loading of /repo from source, go/ssa and the VTA call graph of "
        "golang.org/x/tools v0.29.0, and the reviewed slot tables in cadcheck/rules. Assumes the analysed Go source is what is built; "
        "calls through Cadence function values/reflection are not followed. Decides the structural clauses named in the evidence "
        "explanation only; the run-time behaviour quantified by the property is NOT decided.")

# id -> (technique, level text, design ref)
CLAIMS = {
 "C25": ("who-may-call of the controllers' reference constructor + controlling-condition analysis of the checked-controller lookup + census of CanBorrow's authorization and subtype tests + error flow of ID generation",
         "Structural necessary conditions: live references are handed out only through the checked path, a controller is returned only after both borrow checks and the liveness lookup, and generated capability IDs cannot be dropped.",
         "DESIGN.md §4 C25"),
 "C37": ("recover-arm summaries of the lexer/parser/checker boundaries + controlling-condition checks of the depth and token limits (SSA) + deferred restoration of the depth counters",
         "Structural necessary conditions: every panic of lexing, parsing and checking becomes a returned error, recursion depth and token count are bounded by tests that dominate the growth, and depth counters are restored on every exit.",
         "DESIGN.md §4 C37"),
 "C41": ("type-switch exhaustiveness over cadence.Value/Type implementers (go/types) + emitted-vs-accepted kind-string agreement + recover-arm summary of Decode",
         "Structural necessary conditions: every value and type kind has an encoder arm, every kind string the encoder emits is known to the decoder (the one exception of the reviewed tree is a known finding), and Decode converts error panics into returned errors.",
         "DESIGN.md §4 C41"),
 "C43": ("per-kind agreement of the cadence value constructors used by the JSON and the CCF decoder (resolved callees)",
         "Structural necessary condition: both decoders build each kind of value through the same cadence constructors; a kind only one decoder can build is reported (attachments: known finding).",
         "DESIGN.md §4 C43"),
 "C27": ("field-coverage of the update validator's type comparator (SSA field reads of the expected type vs the ast struct's semantic fields) + census of the validator's rule functions",
         "Structural necessary conditions: the comparator that decides whether a field's type changed looks at every semantic component of each kind of type, and the validator still runs its kind, field and nested-declaration checks.",
         "DESIGN.md §4 C27"),
 "C09": ("census of the subtype-relation call in every cast/type-test implementation + controlling-condition check of the force-cast failure + twin agreement of the optional-unboxing guard between interpreter and VM",
         "Structural necessary conditions: casts and type tests of both engines decide through the one subtype relation on the dynamic type, fail exactly on its false outcome, and unbox optionals under the same guard.",
         "DESIGN.md §4 C09"),
 "C36": ("field-coverage of pool reset paths (SSA stores/clear calls vs struct fields) + dominance of reset after Get and clear before Put + deferred-release check of the CCF scratch buffer + who-may-write of package-level maps/slices with init-only caller chains",
         "Structural necessary conditions: pooled objects carry no state from a previous user, pool objects are cleared before reuse and released only when no longer referenced, and process-shared tables are written only during package initialisation.",
         "DESIGN.md §4 C36"),
 "C31": ("call-graph reachability (static calls, depth 3, gauge-argument constant propagation) from process-lifetime cache-fill regions to metering calls + purity scan of the usage constructors",
         "Structural necessary conditions: no metering with a live gauge can happen while a process-lifetime cache is filled, and metered amounts depend only on their arguments and constants.",
         "DESIGN.md §4 C31"),
 "C32": ("operation/estimate coherence (AST: usage constructor kind and operand order vs the big.Int operation of the same function) + dominance of UseMemory over the allocating constructor call (SSA)",
         "Structural necessary conditions: each per-operation big-integer estimate is charged for the operation actually performed with the same operands, and memory is charged before the result is allocated.",
         "DESIGN.md §4 C32"),
 "C18": ("name agreement of hash-input type tags (resolved constants per HashInput method) + operator/method agreement of the comparison methods (AST of the returned expression) + sibling unification",
         "Structural necessary conditions: every hashable value kind tags its hash input with its own type tag, each comparison method applies the operator its name states, and sibling widths implement comparisons identically.",
         "DESIGN.md §4 C18"),
 "C47": ("forbidden-operation scan and controlling-condition analysis of the two sampling functions (SSA) + switch-arm row coherence + error-edge termination",
         "Structural necessary conditions: the random value is never reduced by remainder/division/multiplication, a sample is accepted only under random <= max with fresh bytes per iteration, zero modulo is rejected, and each type arm uses its own value type and width.",
         "DESIGN.md §4 C47"),
 "C21": ("who-may-call of checked/wrapping NumberValue arithmetic inside the range iterator and membership functions + controlling-condition check of the construction guards",
         "Structural necessary conditions: iteration and membership use comparisons only (the two arithmetic calls of the reviewed tree are recorded as known findings with their failing inputs) and construction rejects zero and diverging steps.",
         "DESIGN.md §4 C21"),
 "C08": ("arm-by-arm token agreement of the two generated subtype checkers under the sema/static name map + inverse switch-table check of the primitive type conversions + sibling agreement of cache-key constructors + SSA shape check of the optional fast path",
         "Structural necessary conditions: the checker's and the run-time subtype tables decide every simple super type identically, primitive conversions are inverse, the VM's type cache cannot merge distinct types, and the run-time optional fast path unwraps both sides.",
         "DESIGN.md §4 C08"),
 "C45": ("inverse/name-agreement check of the primitive type tables (extracted switch tables) + pinned census of the callers of the shared sema.Format*TypeID helpers + must-pass-through of sorting in the set-like ID helpers",
         "Structural necessary conditions: primitive types map to their own counterparts in every representation, all representations build composite type IDs through one shared formatter, and set-like IDs are sorted before formatting.",
         "DESIGN.md §4 C45"),
 "C34": ("table composition (AST/SSA): interpreter operation->method, compiler operation->instruction, VM instruction->handler->method with operand order; exhaustiveness of the VM dispatch over instruction types; agreement of native implementations registered per built-in function name",
         "Structural necessary conditions: both engines evaluate each operator with the same value method and operand order, every instruction has a VM handler, and built-in functions are bound to the same native implementation in both engines.",
         "DESIGN.md §4 C34"),
 "C30": ("pinned census of metering edges (function -> computation/memory kinds, resolved constants) + per-iteration placement of loop metering + dominance pairing of call-depth increment/decrement + VM limit/instruction checks + peephole pattern opcode check",
         "Structural necessary conditions: no reviewed metering edge disappears, loops are metered per iteration in both engines, the tracked call depth cannot drift from the real depth, the VM enforces its stack limit, and optimisation cannot delete metering instructions.",
         "DESIGN.md §4 C30"),
 "C10": ("dominance / must-pass-through on the SSA CFG of visitFunctionBody + no-early-exit check of the condition-wrapper loop + census of the compiler's condition desugaring + save/restore discipline of the post-condition index",
         "Structural necessary conditions: pre-conditions precede the body and post-conditions precede every return after it, every declared function is considered for inherited conditions, the compiler desugars both condition kinds and never loses the enclosing function's post-condition target.",
         "DESIGN.md §4 C10"),
 "C22": ("controlling-condition analysis of the storage API natives (existence test before write, dynamic type test before every typed result), constant transfer-mode arguments, value-flow of check's result, who-may-call of partial iterators",
         "Structural necessary conditions: save never overwrites, copy/load/check/borrow results are governed by the dynamic subtype test, copy does not remove and load does, and path enumeration iterates the complete storage map.",
         "DESIGN.md §4 C22"),
 "C26": ("dominance and assumption-restricted reachability over the contract natives (existence consulted before borrow/change, validation before update, instantiate before code change, enum guard before removal) + loop-exit lint of the enum search + recover-arm table",
         "Structural necessary conditions: lifecycle guards and their order are present on every path: no borrow without deployed code, no update without validation, no code change before fallible instantiation, no removal of enum-declaring contracts.",
         "DESIGN.md §4 C26"),
 "C29": ("controlling-condition analysis (SSA CFG) of the argument store in importValidatedArguments + who-may-call + pinned recursion census of ConformsToStaticType + SSA error-flow of the type-conversion/import functions",
         "Structural necessary conditions: an argument is accepted only under all six validation outcomes, decoding/import is reachable only through the validating function, nested values are conformance-checked, and no conversion error is dropped or overwritten.",
         "DESIGN.md §4 C29"),
 "C46": ("bounds-obligation discharge on the SSA form of stdlib/rlp (subtractive bound test dominating every sum of a decoded length, guard dominance for every index/slice of the input) + error/trailing-bytes dominance in the stdlib wrappers",
         "Structural necessary conditions: no decoded length is added before being bounded by the remaining input, every index and slice of the input is dominated by its bound test, and the wrappers fail on decoder errors and trailing bytes on every path.",
         "DESIGN.md §4 C46"),
 "C02": ("path-sensitive must-pass-through on the SSA CFG of Transfer/Destroy under assumed values of IsResourceKinded/remove + census of resource-loss guards",
         "Structural necessary conditions: a resource-kinded transfer always clears its source, Destroy always destroys nested values under the double-destruction guard and marks/clears the value, and every slot overwrite keeps its resource-loss check.",
         "DESIGN.md §4 C02"),
 "C04": ("path-sensitive must-pass-through of InvalidateReferencedResources in Transfer/Destroy + single-writer check of reference invalidation + census of use-check call sites + field-ownership of the VM operand stack",
         "Structural necessary conditions: moving or destroying a resource invalidates its references on every path, only one routine clears references, the use check keeps its reviewed call sites, and the VM reads operands only through checking accessors.",
         "DESIGN.md §4 C04"),
 "C05": ("path-sensitive must-pass-through / never-reach on the SSA CFG of the three container Transfer methods under assumed values of IsResourceKinded/remove",
         "Structural necessary conditions: a non-resource value is always copied into a new container and a pure copy (remove=false) never clears or pops its source.",
         "DESIGN.md §4 C05"),
 "C23": ("path-sensitive must-pass-through of PopIterate/RemoveReferencedSlab after a copy with remove=true + census of slab-removal call edges + guard-edge check of CommitStorage's health check",
         "Structural necessary conditions: a moving copy removes the old container's child and root slabs on every path, overwrite/removal paths keep their reviewed slab-removal calls, and the commit-time health check runs when enabled and returns its error.",
         "DESIGN.md §4 C23"),
 "C42": ("bimap row-name agreement and uniqueness (AST) + pinned CCF tag / simple-type numbers + written-vs-accepted tag set agreement + census of sort and order-enforcement sites",
         "Structural necessary conditions: simple types are paired with their own IDs exactly once, wire numbers are pinned, every tag written is accepted and vice versa, and each sorting site of the encoder has its enforcing counterpart in the decoder.",
         "DESIGN.md §4 C42"),
 "C35": ("complete enumeration of instruction types: Encode/Decode operand-sequence agreement, emit/decode helper byte widths, Opcode() injectivity and DecodeInstruction arm agreement (AST + go/types) + pinned opcode numbers + map-range classification + LEB128 sibling unification",
         "Structural necessary conditions, finite and exhaustively enumerated: encoder and decoder of every instruction agree on operand kinds, order and byte widths, opcodes are unique, pinned and decoded to their own instruction, and compilation has no map-order or goroutine dependence.",
         "DESIGN.md §4 C35"),
 "C17": ("table-row coherence of StringValueParsers / BigEndianBytesConverters + parse-primitive acceptance class per row (SSA reachability of strconv.ParseUint/ParseInt/big.SetString and sign guards) + sibling unification",
         "Structural necessary conditions: each parser/bytes-converter row names a single numeric type with its own width, rows exist for all number types, sign acceptance of fromString depends only on signedness (not width), and sibling byte conversions agree.",
         "DESIGN.md §4 C17"),
 "C33": ("syntactic effect classification of every range over a Go map in the execution packages + who-may-use of nondeterminism sources with a value-flow whitelist for wall-clock reads + guard-edge check of the deterministic commit selection",
         "Structural necessary conditions: no execution-path loop depends on Go map order, no goroutine/select/PRNG/clock value can reach program state, and storage is committed through atree's deterministic commit in sorted order.",
         "DESIGN.md §4 C33"),
 "C44": ("pinned-constant table (go/constant values) + encoder-tag/decoder-arm agreement (AST, resolved constants and result types) + pinned CBOR primitive sequence per storable Encode method",
         "Structural necessary conditions: no persisted number is renumbered or reused, every tag an encoder writes is decoded to the same type, and the primitive sequence each storable encoder emits equals the pinned format.",
         "DESIGN.md §4 C44"),
 "C13": ("checked-vs-saturating guard-list agreement (AST) over sema's declared SaturatingArithmeticSupport pairs + panic-kind signatures + sibling unification + type-switch table of the fixed-point saturation helpers",
         "Structural necessary conditions: each declared saturating operation tests exactly the checked operation's overflow predicates and clamps to the type's own Max/Min, raises no overflow kind, is implemented directly, and siblings agree.",
         "DESIGN.md §4 C13"),
 "C14": ("panic-kind signatures + negative-shift guard dominance (AST) + sibling unification with width-literal suspicion",
         "Structural necessary conditions: signed shifts fail on negative counts behind a dominating test, unsigned shifts raise nothing, and the bitwise methods of sibling widths use their own width in every width-dependent position.",
         "DESIGN.md §4 C14"),
 "C15": ("type-switch table extraction of handleFixedpointError + SSA error-flow of every fixed-point library call + constant/parameter check of rounding arguments + zero-divisor dominance",
         "Structural necessary conditions: library error kinds map to the right Cadence errors, no library error is dropped, truncating rounding is passed to Mul/Div and the caller's rounding to multiplyDivide, Fix64/UFix64 divisions are zero-guarded.",
         "DESIGN.md §4 C15"),
 "C16": ("table-row coherence of ConverterDeclarations (resolved identifiers, bounds, native types) + sibling unification of ConvertT + panic-kind signatures",
         "Structural necessary conditions: each converter row names a single numeric type with its own bounds, a row exists per number type, sibling conversions agree, integer conversions raise {Overflow,Underflow} and Word conversions none.",
         "DESIGN.md §4 C16"),
 "C01": ("panic-operand classification over all panic sites (go/ssa) + pinned error-class table + deferred-Recover dominance + recover() arm summaries vs reviewed table",
         "Structural necessary conditions: every panic throws a classified value, every error type keeps its UserError/InternalError marker, runtime entry points defer Recover before any other call, and every recover() site absorbs/re-panics exactly the reviewed dynamic types.",
         "DESIGN.md §4 C01"),
 "C11": ("panic-kind signatures (go/ssa, interprocedural depth 2) + zero-divisor guard dominance (AST) + sibling unification across widths + own-constant rule",
         "Structural necessary conditions: each arithmetic method raises exactly the error kinds the property states, every division is guarded against zero, sibling widths implement the same template modulo the width parameters, and bounds used are the type's own.",
         "DESIGN.md §4 C11"),
 "C12": ("panic-kind signatures + zero-divisor guard dominance + sibling unification + own-constant rule",
         "Structural necessary conditions: Word arithmetic raises no overflow/underflow kind, Div/Mod raise exactly DivisionByZero behind a dominating zero test, sibling widths agree modulo width parameters, reductions use the type's own modulus.",
         "DESIGN.md §4 C12"),
 "C28": ("wrapper-shape check of the 45 ExternalInterface methods + SSA error-flow (def-use to sinks, swallow-on-non-nil-edge) over all host-backed calls + recover() absorb table",
         "Structural necessary conditions: every host callback is wrapped (WrapPanic + WrappedExternalError), every host error value reaches a sink on its non-nil edge, and only the documented recover site absorbs ExternalError; undocumented swallow sites of the pinned tree are known findings.",
         "DESIGN.md §4 C28"),
 "C24": ("who-may-call + gated backward call-graph closure + dominance of commit by error tests (go/ssa)",
         "Structural necessary conditions: only the commit routine reaches ledger writes, only executors (after a nil error test) reach the commit routine, scripts reach none; mid-execution temporary commits are listed as known findings.",
         "DESIGN.md §4 C24"),
}

# properties never claimed: reason
NA = {
 "C06": "entitlement algebra: quantified statement over run-time sets and mapping images; the only code is the decision functions' own logic, a static rule would be a frozen copy of it",
 "C38": "print/re-parse round trip is equality of two ASTs after a computation; precedence/escaping are value-dependent; no structural clause beyond what the Go type checker enforces",
 "C39": "formatter meaning/comment preservation and idempotence are properties of outputs; no structural necessary condition identified",
 "C50": "the accept/reject relation of the access checks is the property itself; a static rule would restate it",
 "C51": "pure data-structure behaviour over operation histories; nothing structural to anchor",
}
PENDING = "no sound static rule built for this property in this framework yet (see DESIGN.md); not claimed rather than claimed through a weak proxy"

def main():
    impl = subprocess.run([os.path.join(HERE, "bin/cadcheck"), "-list"], capture_output=True, text=True).stdout.split()
    props = [json.loads(l) for l in open(os.path.join(HERE, "properties.jsonl"))]
    checks, na = [], []
    for p in props:
        pid = p["id"]
        if pid in CLAIMS and pid in impl:
            tech, text, ref = CLAIMS[pid]
            checks.append({
                "property_id": pid,
                "quick_cmd": "./check.sh %s quick" % pid,
                "thorough_cmd": "./check.sh %s thorough" % pid,
                "evidence_file": "evidence/%s.json" % pid,
                "replay_cmd_template": "./check.sh %s thorough  # evidence at {path} lists the violated obligations (rule, construct, file:line)" % pid,
                "engine": "cadcheck",
                "level_claimed": {"category": "other", "text": text + " Static analysis decides these clauses on all paths of the current source; it does not decide the behaviour itself.", "design_ref": ref},
                "level_note": NOTE,
                "technique": "static analysis: " + tech,
            })
        else:
            na.append({"property_id": pid, "reason": NA.get(pid, PENDING)})
    m = {
        "version": 1,
        "setup_cmd": "unset GOSUMDB GOTOOLCHAIN GOWORK GOFLAGS; export GOFLAGS=-mod=mod GOPROXY=off; mkdir -p bin evidence && cd cadcheck && go build -o ../bin/cadcheck ./cmd/cadcheck",
        "hooks": {"guard": "verif", "enable": "none needed: the analyzer reads /repo's source; nothing in /repo is instrumented",
                  "baseline_off_cmd": "cd /repo && GOFLAGS=-mod=mod go test -vet=off -count=1 -timeout 25m ./...",
                  "source_commits": [], "add_only": True},
        "engines": [{"name": "cadcheck", "path": "cadcheck", "serves_properties": [c["property_id"] for c in checks],
                     "kind_free_text": "repository-specific static analyzer (go/packages + go/types + go/ssa + call graph): who-may-call, gated call-graph closure, dominance/guard-edge, error-flow, panic-kind signatures, sibling agreement, table coherence/inverse, exhaustiveness, pinned constants, field coverage"}],
        "checks": checks,
        "not_applicable": na,
        "notes": "All claims are level 'other': static decision of structural necessary conditions (see DESIGN.md). known_findings.json lists genuine deviations of the pinned tree; checks print KNOWN-FINDING for them and exit 0.",
    }
    json.dump(m, open(os.path.join(HERE, "MANIFEST.json"), "w"), indent=1)
    print("claimed", len(checks), "not_applicable", len(na))

main()
