#!/bin/bash
# usage: confirm_seed.sh <seed-id> [src-dir]  — confirms a seeded change in a scratch worktree and, if confirmed, stores it under /verif/seeded/<id>/
# Steps: apply patch; go build ./...; demo must FAIL; existing tests of changed packages (+dependents given in meta tests) must PASS; revert; demo must PASS.
set -u
ID="$1"; SRC="${2:-/tmp/seed/out/$ID}"
WT=/tmp/wt/confirm_$ID
LOG=/tmp/seed/confirm_$ID.log
export GOFLAGS=-mod=mod GOPROXY=off
unset GOSUMDB GOTOOLCHAIN GOWORK
exec >"$LOG" 2>&1
git -C /repo worktree add -q --detach "$WT" HEAD || exit 2
cleanup() { git -C /repo worktree remove --force "$WT"; }
trap cleanup EXIT
cd "$WT"
DEMO_PATH=$(python3 -c "import json;print(json.load(open('$SRC/meta.json'))['demo_path'])")
DEMO_CMD=$(python3 -c "import json;import re;print(re.sub(r'\s+\(.*$','',json.load(open('$SRC/meta.json'))['demo_cmd']))")
PKGS=$(grep '^+++ b/' "$SRC/patch.diff" | sed 's#+++ b/##' | xargs -n1 dirname | sort -u | sed 's#^#./#' | tr '\n' ' ')
echo "== seed $ID pkgs: $PKGS demo: $DEMO_PATH :: $DEMO_CMD"
git apply "$SRC/patch.diff" || { echo "RESULT $ID patch-does-not-apply"; exit 1; }
go build ./... || { echo "RESULT $ID build-fails"; exit 1; }
cp "$SRC/demo_test.go" "$DEMO_PATH"
if eval "$DEMO_CMD" >/tmp/seed/demo_$ID.with.log 2>&1; then echo "RESULT $ID demo-passes-with-change"; exit 1; fi
grep -q "^--- FAIL\|^FAIL\|panic:" /tmp/seed/demo_$ID.with.log || { echo "RESULT $ID demo-did-not-run"; tail -20 /tmp/seed/demo_$ID.with.log; exit 1; }
rm -f "$DEMO_PATH"
echo "== existing tests with change: $PKGS"
if ! go test -count=1 -p 4 $PKGS > /tmp/seed/tests_$ID.log 2>&1; then echo "RESULT $ID existing-tests-fail"; grep -m5 "^--- FAIL\|^FAIL" /tmp/seed/tests_$ID.log; exit 1; fi
git checkout -- . ; git clean -fdq
cp "$SRC/demo_test.go" "$DEMO_PATH"
if ! eval "$DEMO_CMD" >/tmp/seed/demo_$ID.without.log 2>&1; then echo "RESULT $ID demo-fails-without-change"; tail -20 /tmp/seed/demo_$ID.without.log; exit 1; fi
rm -f "$DEMO_PATH"
mkdir -p /verif/seeded/$ID
cp "$SRC/patch.diff" "$SRC/demo_test.go" /verif/seeded/$ID/
python3 - <<PY
import json
m=json.load(open('$SRC/meta.json'))
m['confirmed_by']='confirm_seed.sh in scratch worktree: patch applies, go build ./... ok, demo fails with change, go test -count=1 $PKGS passes with change, demo passes without change'
json.dump(m,open('/verif/seeded/$ID/meta.json','w'),indent=1)
PY
echo "RESULT $ID confirmed"
